//! C26 — database files stay inside their owner's directory and never collide.
//!
//! Ops (names are hex):
//!   c26 user <slot> <name>            admin adds the user and logs in as them
//!   c26 add <slot> <db> <kind>        user route /db/{owner}/{db}/add
//!   c26 mut <slot> <db>               exec_mut inserting one node (creates the audit file)
//!   c26 backup|delete|remove|restore <slot> <db>
//!   c26 clear <slot> <db>             clear resource=all
//!   c26 copy|rename <slot> <db> <new>
//!   c26 userdel <slot>                admin deletes the user
//! Output: `<status> <files>` — files = all non-server files below the scratch root, relative to the
//! data dir when inside it (else `^/` + path relative to the scratch root), escaped, sorted, ','-joined.

use crate::srv::{list_files, Server, DATA_DIR};
use crate::util::{esc, hex, unhex, url_seg, Out, Rng};
use agdb::{QueryBuilder, QueryType};
use std::collections::BTreeMap;
use std::path::{Component, Path, PathBuf};

const PASSWORD: &str = "password123";
const SERVER_FILES: [&str; 4] = [
    "agdb_server.agdb",
    ".agdb_server.agdb",
    "agdb_server.log",
    ".agdb_server.log",
];

pub struct Ctx<'a> {
    pub srv: &'a mut Server,
    pub admin: String,
    /// slot -> (name, token)
    users: BTreeMap<usize, (String, String)>,
    /// harness view of live dbs: (owner, db) -> node count; plus backup counts
    live: BTreeMap<(String, String), u64>,
    backups: BTreeMap<(String, String), u64>,
    /// escaped files already reported (one finding per file, attributed to the op that created it)
    reported: std::collections::BTreeSet<String>,
}

fn q_insert_node() -> String {
    let q: QueryType = QueryBuilder::insert().nodes().count(1).query().into();
    serde_json::to_string(&vec![q]).unwrap()
}

fn q_node_count() -> String {
    let q: QueryType = QueryBuilder::select().node_count().query().into();
    serde_json::to_string(&vec![q]).unwrap()
}

/// lexical normalisation of a relative/absolute path (what the kernel does without symlinks)
pub fn normalize(p: &Path) -> PathBuf {
    let mut out: Vec<Component> = Vec::new();
    for c in p.components() {
        match c {
            Component::CurDir => {}
            Component::ParentDir => match out.last() {
                Some(Component::Normal(_)) => {
                    out.pop();
                }
                Some(Component::RootDir) => {}
                _ => out.push(c),
            },
            c => out.push(c),
        }
    }
    out.iter().collect()
}

/// independent re-statement of the documented layout with the REAL `Path::join`
fn layout(data: &Path, owner: &str, db: &str) -> Vec<PathBuf> {
    let o = data.join(owner);
    let dbf = o.join(db);
    let wal = {
        let s = dbf.to_string_lossy().to_string();
        let pos = s.rfind('/').map(|i| i + 1).unwrap_or(0);
        let mut w = s.clone();
        w.insert(pos, '.');
        PathBuf::from(w)
    };
    vec![
        dbf,
        wal,
        o.join("backups").join(format!("{db}.bak")),
        o.join("backups").join(format!("{db}.log")),
        o.join("audit").join(format!("{db}.log")),
    ]
}

impl<'a> Ctx<'a> {
    pub fn new(srv: &'a mut Server) -> Result<Self, String> {
        let (st, body) = srv.req(
            "POST",
            "/api/v1/user/login",
            None,
            Some(&format!("{{\"username\":\"admin\",\"password\":\"admin\"}}")),
        )?;
        if st != 200 {
            return Err(format!("admin login failed: {st} {body}"));
        }
        let admin: String = serde_json::from_str(&body).map_err(|e| e.to_string())?;
        Ok(Ctx {
            srv,
            admin,
            users: BTreeMap::new(),
            live: BTreeMap::new(),
            backups: BTreeMap::new(),
            reported: Default::default(),
        })
    }

    fn listing(&self) -> (Vec<String>, Vec<String>) {
        // (canonical entries, raw relative-to-root paths of non-server files)
        let data_rel = format!("n1/n2/srv/{DATA_DIR}/");
        let mut canon = Vec::new();
        let mut raw = Vec::new();
        for f in list_files(&self.srv.root) {
            if f == "server.out" || f == "n1/n2/srv/agdb_server.yaml" {
                continue;
            }
            if let Some(r) = f.strip_prefix(&data_rel) {
                if SERVER_FILES.contains(&r) {
                    continue;
                }
                canon.push(esc(r));
            } else {
                canon.push(format!("^/{}", esc(&f)));
            }
            raw.push(f);
        }
        canon.sort();
        (canon, raw)
    }

    fn server_files_ok(&self) -> bool {
        self.srv.cwd.join("agdb_server.yaml").exists()
            && self.srv.data_dir.join("agdb_server.agdb").exists()
    }

    /// C26 oracle on the current file system + liveness of the other databases
    fn oracle(&mut self, out: &mut Out, site: &str, touched: &[(String, String)]) {
        let (_, raw) = self.listing();
        let data_rel = format!("n1/n2/srv/{DATA_DIR}/");
        let owners: Vec<String> = self.users.values().map(|u| u.0.clone()).collect();
        for f in &raw {
            let inside = f.strip_prefix(&data_rel).map(|r| {
                owners.iter().any(|o| {
                    !o.is_empty()
                        && !o.contains('/')
                        && o != ".."
                        && o != "."
                        && r.starts_with(&format!("{o}/"))
                })
            });
            if inside != Some(true) && self.reported.insert(f.clone()) {
                out.violation(
                    &format!("C26/file-outside-owner-dir/{site}"),
                    "every file lies inside data_dir/<owner>/",
                    "inside an owner directory",
                    &esc(f),
                );
                out.count("oracle:file-outside-owner-dir");
            }
        }
        if !self.server_files_ok() {
            out.violation(
                &format!("C26/server-file-destroyed/{site}"),
                "server files untouched",
                "present",
                "missing",
            );
        }
        // other live databases must still hold exactly their own data
        let q = q_node_count();
        let keys: Vec<(String, String)> = self.live.keys().cloned().collect();
        for k in keys {
            if touched.contains(&k) {
                continue;
            }
            let expect = self.live[&k];
            let path = format!(
                "/api/v1/admin/db/{}/{}/exec",
                url_seg(&k.0),
                url_seg(&k.1)
            );
            let got = match self.srv.req("POST", &path, Some(&self.admin), Some(&q)) {
                Ok((200, body)) => serde_json::from_str::<serde_json::Value>(&body)
                    .ok()
                    .and_then(|v| v[0]["result"].as_i64())
                    .map(|n| n.to_string())
                    .unwrap_or(format!("unparsable:{body}")),
                Ok((st, _)) => format!("status:{st}"),
                Err(e) => format!("error:{e}"),
            };
            if got != expect.to_string() {
                out.violation(
                    &format!("C26/other-db-damaged/{site}"),
                    "an operation on one database never changes another database",
                    &format!("{}/{} node_count={expect}", esc(&k.0), esc(&k.1)),
                    &got,
                );
                out.count("oracle:other-db-damaged");
                // resync to avoid repeating the same finding on every later op
                if let Ok(n) = got.parse::<u64>() {
                    self.live.insert(k.clone(), n);
                } else {
                    self.live.remove(&k);
                }
            }
        }
    }

    /// names that cannot satisfy the layout must be rejected (evaluated with the real Path::join)
    fn name_is_safe(&self, owner: &str, db: &str) -> Result<(), String> {
        let data = Path::new(DATA_DIR);
        let odir = normalize(&data.join(owner));
        if normalize(data).join(owner) != odir || owner.is_empty() {
            return Err(format!("owner dir {} is not data_dir/<owner>", odir.display()));
        }
        let reserved = [odir.join("backups"), odir.join("audit")];
        let mine: Vec<PathBuf> = layout(data, owner, db).iter().map(|p| normalize(p)).collect();
        for p in &mine {
            if !(p.starts_with(&odir) && p != &odir) {
                return Err(format!("{} outside {}", p.display(), odir.display()));
            }
            if reserved.contains(p) {
                return Err(format!("{} is a server directory", p.display()));
            }
        }
        if mine[0].file_name().map(|f| f.to_string_lossy().to_string()) != Some(db.to_string()) {
            return Err("db file name differs from the db name".into());
        }
        for ((o, d), _) in &self.live {
            if (o.as_str(), d.as_str()) == (owner, db) {
                continue;
            }
            let theirs: Vec<PathBuf> = layout(data, o, d).iter().map(|p| normalize(p)).collect();
            if let Some(p) = mine.iter().find(|p| theirs.contains(p)) {
                return Err(format!("{} shared with {}/{}", p.display(), esc(o), esc(d)));
            }
        }
        Ok(())
    }

    pub fn op(&mut self, out: &mut Out, line: &str) -> String {
        let t: Vec<&str> = line.split(' ').collect();
        if t.len() < 3 || t[0] != "c26" {
            return "bad-op".into();
        }
        let Ok(slot) = t[2].parse::<usize>() else { return "bad-op".into() };
        let arg = |i: usize| -> Option<String> {
            t.get(i)
                .and_then(|h| unhex(h))
                .map(|b| String::from_utf8_lossy(&b).to_string())
        };
        out.count(&format!("op:{}", t[1]));
        match t[1] {
            "user" => {
                let Some(name) = arg(3) else { return "bad-op".into() };
                let path = format!("/api/v1/admin/user/{}/add", url_seg(&name));
                let body = format!("{{\"password\":\"{PASSWORD}\"}}");
                let (st, _) = self
                    .srv
                    .req("POST", &path, Some(&self.admin), Some(&body))
                    .unwrap_or((0, String::new()));
                if st == 201 {
                    let login = serde_json::json!({"username": name, "password": PASSWORD});
                    if let Ok((200, tok)) =
                        self.srv
                            .req("POST", "/api/v1/user/login", None, Some(&login.to_string()))
                    {
                        let tok: String = serde_json::from_str(&tok).unwrap_or_default();
                        self.users.insert(slot, (name.clone(), tok));
                    }
                    if name.contains('/') || name.starts_with('.') || name.contains('\\') {
                        out.violation(
                            "C26/unsafe-name-accepted/routes::admin::user::add",
                            "names that cannot satisfy the layout are rejected",
                            "4xx",
                            &format!("201 for user {}", esc(&name)),
                        );
                    }
                }
                out.count(&format!("status:{st}"));
                format!("{st}")
            }
            "userdel" => {
                let Some((name, _)) = self.users.get(&slot).cloned() else {
                    return "nouser".into();
                };
                let path = format!("/api/v1/admin/user/{}/delete", url_seg(&name));
                let (st, _) = self
                    .srv
                    .req("DELETE", &path, Some(&self.admin), None)
                    .unwrap_or((0, String::new()));
                if st == 204 {
                    self.users.remove(&slot);
                    self.live.retain(|k, _| k.0 != name);
                    self.backups.retain(|k, _| k.0 != name);
                }
                self.oracle(out, "DbPool::remove_user_dbs", &[]);
                let (canon, _) = self.listing();
                format!("{st} {}", canon.join(","))
            }
            kind => {
                let Some((owner, tok)) = self.users.get(&slot).cloned() else {
                    return "nouser".into();
                };
                let Some(db) = arg(3) else { return "bad-op".into() };
                let base = format!("/api/v1/db/{}/{}", url_seg(&owner), url_seg(&db));
                let key = (owner.clone(), db.clone());
                let mut touched = vec![key.clone()];
                let (st, site): (u16, &str) = match kind {
                    "add" => {
                        let k = t.get(4).copied().unwrap_or("mapped");
                        let (st, _) = self
                            .srv
                            .req("POST", &format!("{base}/add?db_type={k}"), Some(&tok), None)
                            .unwrap_or((0, String::new()));
                        if st == 201 {
                            if let Err(why) = self.name_is_safe(&owner, &db) {
                                out.violation(
                                    "C26/unsafe-name-accepted/routes::db::add",
                                    "names that cannot satisfy the layout are rejected",
                                    "4xx",
                                    &format!("201 for {}: {why}", esc(&db)),
                                );
                                out.count("oracle:unsafe-name-accepted");
                            }
                            self.live.insert(key.clone(), 0);
                        }
                        (st, "DbPool::add_db")
                    }
                    "mut" => {
                        let (st, _) = self
                            .srv
                            .req("POST", &format!("{base}/exec_mut"), Some(&tok), Some(&q_insert_node()))
                            .unwrap_or((0, String::new()));
                        if st == 200 {
                            *self.live.entry(key.clone()).or_insert(0) += 1;
                        }
                        (st, "DbPool::exec_mut")
                    }
                    "backup" => {
                        let (st, _) = self
                            .srv
                            .req("POST", &format!("{base}/backup"), Some(&tok), None)
                            .unwrap_or((0, String::new()));
                        if st == 201 {
                            let n = self.live.get(&key).copied().unwrap_or(0);
                            self.backups.insert(key.clone(), n);
                        }
                        (st, "DbPool::backup_db")
                    }
                    "restore" => {
                        let (st, _) = self
                            .srv
                            .req("POST", &format!("{base}/restore"), Some(&tok), None)
                            .unwrap_or((0, String::new()));
                        if st == 201 {
                            let n = self.backups.get(&key).copied().unwrap_or(0);
                            self.live.insert(key.clone(), n);
                        }
                        (st, "DbPool::restore_db")
                    }
                    "clear" => {
                        let (st, _) = self
                            .srv
                            .req("POST", &format!("{base}/clear?resource=all"), Some(&tok), None)
                            .unwrap_or((0, String::new()));
                        if st == 200 {
                            self.live.insert(key.clone(), 0);
                            self.backups.remove(&key);
                        }
                        (st, "DbPool::clear_db")
                    }
                    "delete" | "remove" => {
                        let (st, _) = self
                            .srv
                            .req("DELETE", &format!("{base}/{kind}"), Some(&tok), None)
                            .unwrap_or((0, String::new()));
                        if st == 204 {
                            self.live.remove(&key);
                            if kind == "delete" {
                                self.backups.remove(&key);
                            }
                        }
                        (st, if kind == "delete" { "DbPool::delete_db" } else { "DbPool::remove_db" })
                    }
                    "copy" | "rename" => {
                        let Some(new) = arg(4) else { return "bad-op".into() };
                        let (st, _) = self
                            .srv
                            .req(
                                "POST",
                                &format!("{base}/{kind}?new_db={}", url_seg(&new)),
                                Some(&tok),
                                None,
                            )
                            .unwrap_or((0, String::new()));
                        let nkey = (owner.clone(), new.clone());
                        touched.push(nkey.clone());
                        if st == 201 && new != db {
                            if let Err(why) = self.name_is_safe(&owner, &new) {
                                out.violation(
                                    &format!("C26/unsafe-name-accepted/routes::db::{kind}"),
                                    "names that cannot satisfy the layout are rejected",
                                    "4xx",
                                    &format!("201 for {}: {why}", esc(&new)),
                                );
                                out.count("oracle:unsafe-name-accepted");
                            }
                            let n = self.live.get(&key).copied().unwrap_or(0);
                            self.live.insert(nkey.clone(), n);
                            if kind == "rename" {
                                self.live.remove(&key);
                                if let Some(b) = self.backups.remove(&key) {
                                    self.backups.insert(nkey, b);
                                }
                            }
                        }
                        (st, if kind == "copy" { "DbPool::copy_db" } else { "DbPool::rename_db" })
                    }
                    _ => return "bad-op".into(),
                };
                out.count(&format!("status:{st}"));
                self.oracle(out, site, &touched);
                let (canon, _) = self.listing();
                format!("{st} {}", canon.join(","))
            }
        }
    }

    /// end of case: delete the users of the case and sweep debris so cases stay independent
    pub fn end_case(&mut self) {
        let slots: Vec<usize> = self.users.keys().copied().collect();
        for s in slots {
            let (name, _) = self.users[&s].clone();
            let path = format!("/api/v1/admin/user/{}/delete", url_seg(&name));
            let _ = self.srv.req("DELETE", &path, Some(&self.admin), None);
        }
        self.users.clear();
        self.live.clear();
        self.backups.clear();
        self.reported.clear();
        let (_, raw) = self.listing();
        for f in raw {
            let _ = std::fs::remove_file(self.srv.root.join(f));
        }
    }
}

pub const NAME_CORPUS: &[&str] = &[
    "db", "a", "A", "my db", "d\u{e4}b", "x.y", "a.", "a..b", "-", "~", "a%2Fb", "%2e%2e", "con",
    ".a", ".", "..", "...", "..a", "../x", "../../x", "../../../x", "../../../../x", "a/b",
    "a/../b", "./a", "a/", "/", "//", "backups", "audit", "backups/x", "audit/x.log", "backups/a.bak",
    "a.bak", "a.log", "a.audit", ".a.tmp", "a\\b", "..\\x", "a\u{0}a", "a\nb", "a\tb", "\u{7f}",
    "agdb_server.agdb", "../agdb_server.agdb", "../.agdb_server.agdb", "../agdb_server.log",
];

pub fn random_name(r: &mut Rng) -> String {
    let alphabet: &[&str] = &[
        "a", "b", "x", "1", ".", ".", "/", "/", "..", "\\", "%", " ", "-", "_", "backups", "audit",
        ".bak", ".log",
    ];
    let n = 1 + r.below(5);
    let mut s = String::new();
    for _ in 0..n {
        s.push_str(alphabet[r.below(alphabet.len())]);
    }
    // keep traversal depth bounded by the scratch nesting (owner dir -> data dir -> srv -> n2 -> n1)
    if s.matches("..").count() > 4 {
        s = s.replace("..", ".");
    }
    s
}

pub fn generate(seed: u64, tier: &str) -> Vec<String> {
    let mut r = Rng::new(seed);
    let mut ops = Vec::new();
    let ncases = if tier == "thorough" { 400 } else { 60 };
    let mut case = 0u64;
    let mut names: Vec<String> = NAME_CORPUS.iter().map(|s| s.to_string()).collect();
    for _ in 0..(ncases * 2) {
        names.push(random_name(&mut r));
    }
    let mut ni = 0usize;
    let mut next_name = |r: &mut Rng| -> String {
        // 60 % a plain valid name, else walk through the special corpus
        if r.chance(45, 100) {
            format!("d{}", r.below(4))
        } else {
            ni += 1;
            names[(ni - 1) % names.len()].clone()
        }
    };
    for _ in 0..ncases {
        case += 1;
        ops.push(format!("case {case}"));
        let uname = if r.chance(1, 12) {
            // hostile owner names (never one that resolves to an ancestor of the data dir)
            let bad = ["../o", "a/b", ".hid", "o\\p", "./q"];
            format!("{}{}", bad[r.below(bad.len())], case)
        } else {
            format!("c{case}u")
        };
        ops.push(format!("c26 user 0 {}", hex(uname.as_bytes())));
        let mut known: Vec<String> = Vec::new();
        let len = 4 + r.below(if tier == "thorough" { 14 } else { 9 });
        for _ in 0..len {
            let pick_known = |r: &mut Rng, known: &Vec<String>| -> Option<String> {
                if known.is_empty() {
                    None
                } else {
                    Some(known[r.below(known.len())].clone())
                }
            };
            match r.below(12) {
                0..=3 => {
                    let n = next_name(&mut r);
                    let kind = if r.chance(1, 3) { "file" } else { "mapped" };
                    ops.push(format!("c26 add 0 {} {kind}", hex(n.as_bytes())));
                    // canary right away so collisions become observable
                    ops.push(format!("c26 mut 0 {}", hex(n.as_bytes())));
                    known.push(n);
                }
                4 => {
                    if let Some(n) = pick_known(&mut r, &known) {
                        ops.push(format!("c26 mut 0 {}", hex(n.as_bytes())));
                    }
                }
                5 => {
                    if let Some(n) = pick_known(&mut r, &known) {
                        ops.push(format!("c26 backup 0 {}", hex(n.as_bytes())));
                    }
                }
                6 | 7 => {
                    if let Some(n) = pick_known(&mut r, &known) {
                        let new = next_name(&mut r);
                        let k = if r.chance(1, 2) { "copy" } else { "rename" };
                        ops.push(format!(
                            "c26 {k} 0 {} {}",
                            hex(n.as_bytes()),
                            hex(new.as_bytes())
                        ));
                        known.push(new);
                    }
                }
                8 => {
                    if let Some(n) = pick_known(&mut r, &known) {
                        ops.push(format!("c26 restore 0 {}", hex(n.as_bytes())));
                    }
                }
                9 => {
                    if let Some(n) = pick_known(&mut r, &known) {
                        ops.push(format!("c26 clear 0 {}", hex(n.as_bytes())));
                    }
                }
                10 => {
                    if let Some(n) = pick_known(&mut r, &known) {
                        ops.push(format!("c26 delete 0 {}", hex(n.as_bytes())));
                    }
                }
                _ => {
                    if let Some(n) = pick_known(&mut r, &known) {
                        ops.push(format!("c26 remove 0 {}", hex(n.as_bytes())));
                    }
                }
            }
        }
        ops.push("c26 userdel 0".to_string());
    }
    ops
}
