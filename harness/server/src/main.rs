//! harness_server gen|replay --prop <ID> ... — drives a REAL agdb_server process (see tools/INTERFACE.md)

mod c24;
mod c25;
mod c26;
mod c31;
mod reqs;
mod srv;
mod util;

use util::Out;

fn arg(args: &[String], name: &str) -> Option<String> {
    args.iter()
        .position(|a| a == name)
        .and_then(|i| args.get(i + 1).cloned())
}

fn main() {
    let args: Vec<String> = std::env::args().collect();
    if args.len() < 2 {
        eprintln!("usage: harness_server gen|replay --prop <ID> [--seed N] [--tier quick|thorough] [--ops FILE] [--corpus DIR] --out DIR");
        std::process::exit(2);
    }
    std::panic::set_hook(Box::new(|info| {
        srv::kill_leftover_server();
        eprintln!("harness panic: {info}");
    }));
    let mode = args[1].clone();
    let prop = arg(&args, "--prop").unwrap_or_default();
    let out_dir = arg(&args, "--out").unwrap_or_else(|| ".".into());
    let tier = arg(&args, "--tier").unwrap_or_else(|| "quick".into());
    let seed: u64 = arg(&args, "--seed")
        .or_else(|| std::env::var("VERIF_SEED").ok())
        .and_then(|s| s.parse().ok())
        .unwrap_or(1);

    let mut ops: Vec<String> = Vec::new();
    if mode == "replay" {
        let f = arg(&args, "--ops").expect("--ops");
        ops = std::fs::read_to_string(f)
            .expect("read ops")
            .lines()
            .map(|l| l.to_string())
            .collect();
    } else {
        // corpus first
        let corpus = arg(&args, "--corpus")
            .unwrap_or_else(|| format!("{}/corpus/{prop}", srv::verif_root().display()));
        if let Ok(rd) = std::fs::read_dir(&corpus) {
            let mut files: Vec<_> = rd
                .flatten()
                .map(|e| e.path())
                .filter(|p| p.extension().map(|e| e == "ops").unwrap_or(false))
                .collect();
            files.sort();
            for (i, f) in files.iter().enumerate() {
                if let Ok(t) = std::fs::read_to_string(f) {
                    for l in t.lines() {
                        if l.starts_with("case ") {
                            ops.push(format!("case {}", 900000 + i));
                        } else if !l.trim().is_empty() {
                            ops.push(l.to_string());
                        }
                    }
                }
            }
        }
        let generated = match prop.as_str() {
            "C26" => c26::generate(seed, &tier),
            "C24" => c24::generate(seed, &tier),
            "C25" => c25::generate(seed, &tier),
            "C31" => c31::generate(seed, &tier),
            _ => {
                eprintln!("unknown property {prop}");
                std::process::exit(2);
            }
        };
        ops.extend(generated);
    }

    let mut out = Out::default();
    let res = match prop.as_str() {
        "C26" => run_c26(&ops, &mut out),
        "C24" => c24::run(&ops, &mut out),
        "C25" => c25::run(&ops, &mut out),
        "C31" => c31::run(&ops, &mut out),
        _ => Err(format!("unknown property {prop}")),
    };
    srv::kill_leftover_server();
    if let Err(e) = res {
        eprintln!("harness error: {e}");
        // keep what we have so the failure is visible to vlib
        while out.imp.len() < ops.len() {
            let i = out.imp.len();
            out.ops.push(ops[i].clone());
            out.imp.push(format!("harness-error:{}", e.replace(' ', "_")));
        }
    }
    let rule = match prop.as_str() {
        "C26" => "case = one user + a sequence of db operations; non-trivial = at least one name that is not plain alphanumeric",
        "C24" => "case = multi-user request sequence; non-trivial = at least one request by a non-owner / stale or missing token",
        "C25" => "case = sequence of batches; non-trivial = at least one failing batch after a successful mutation in the same batch",
        _ => "case = one commit of N entries under an adversarial delay schedule; non-trivial = delays not sorted by index",
    };
    out.write(&out_dir, rule).expect("write outputs");
}

fn run_c26(ops: &[String], out: &mut Out) -> Result<(), String> {
    let mut server = srv::Server::start("C26", 3600)?;
    let mut ctx = c26::Ctx::new(&mut server)?;
    let mut case_text = String::new();
    let mut nontrivial = false;
    let mut in_case = false;
    for l in ops {
        if let Some(n) = l.strip_prefix("case ") {
            if in_case {
                ctx.end_case();
                out.note_case(&case_text, nontrivial);
            }
            in_case = true;
            case_text.clear();
            nontrivial = false;
            out.case = n.trim().parse().unwrap_or(0);
            out.line(l.clone(), l.clone());
            continue;
        }
        case_text.push_str(l);
        case_text.push('\n');
        for tok in l.split(' ').skip(3) {
            if let Some(b) = util::unhex(tok) {
                if !b.iter().all(|c| c.is_ascii_alphanumeric()) {
                    nontrivial = true;
                }
            }
        }
        let r = ctx.op(out, l);
        out.line(l.clone(), r);
    }
    if in_case {
        ctx.end_case();
        out.note_case(&case_text, nontrivial);
    }
    Ok(())
}
