//! small shared helpers: PRNG, hex, canonical escaping, stats, oracle sink

use std::collections::{BTreeMap, HashSet};
use std::io::Write;

pub struct Rng(u64);

impl Rng {
    pub fn new(seed: u64) -> Self {
        Rng(seed ^ 0x9E37_79B9_7F4A_7C15)
    }
    pub fn next(&mut self) -> u64 {
        // splitmix64
        self.0 = self.0.wrapping_add(0x9E37_79B9_7F4A_7C15);
        let mut z = self.0;
        z = (z ^ (z >> 30)).wrapping_mul(0xBF58_476D_1CE4_E5B9);
        z = (z ^ (z >> 27)).wrapping_mul(0x94D0_49BB_1331_11EB);
        z ^ (z >> 31)
    }
    pub fn below(&mut self, n: usize) -> usize {
        if n == 0 {
            0
        } else {
            (self.next() % n as u64) as usize
        }
    }
    pub fn chance(&mut self, num: usize, den: usize) -> bool {
        self.below(den) < num
    }
    pub fn pick<'a, T>(&mut self, xs: &'a [T]) -> &'a T {
        &xs[self.below(xs.len())]
    }
}

pub fn hex(s: &[u8]) -> String {
    if s.is_empty() {
        return "-".to_string();
    }
    s.iter().map(|b| format!("{b:02x}")).collect()
}

pub fn unhex(s: &str) -> Option<Vec<u8>> {
    if s == "-" {
        return Some(vec![]);
    }
    if s.len() % 2 != 0 {
        return None;
    }
    (0..s.len())
        .step_by(2)
        .map(|i| u8::from_str_radix(&s[i..i + 2], 16).ok())
        .collect()
}

/// canonical printable form of a path / name: keep `[A-Za-z0-9._/-]`, escape the rest as %XX (bytes)
pub fn esc(s: &str) -> String {
    let mut out = String::new();
    for b in s.bytes() {
        if b.is_ascii_alphanumeric() || b == b'.' || b == b'_' || b == b'/' || b == b'-' {
            out.push(b as char);
        } else {
            out.push_str(&format!("%{b:02X}"));
        }
    }
    out
}

/// percent-encode one URL path segment (everything except unreserved characters)
pub fn url_seg(s: &str) -> String {
    let mut out = String::new();
    for b in s.bytes() {
        if b.is_ascii_alphanumeric() || b == b'_' || b == b'-' || b == b'~' {
            out.push(b as char);
        } else {
            out.push_str(&format!("%{b:02X}"));
        }
    }
    out
}

#[derive(Default)]
pub struct Out {
    pub ops: Vec<String>,
    pub imp: Vec<String>,
    pub oracle: Vec<String>,
    pub histogram: BTreeMap<String, u64>,
    pub distinct: HashSet<u64>,
    pub evaluations: u64,
    pub samples: Vec<String>,
    pub case: u64,
}

impl Out {
    pub fn line(&mut self, op: String, out: String) {
        self.ops.push(op);
        self.imp.push(out);
    }
    pub fn count(&mut self, k: &str) {
        *self.histogram.entry(k.to_string()).or_insert(0) += 1;
    }
    pub fn violation(&mut self, key: &str, rule: &str, expected: &str, observed: &str) {
        let line = self.ops.len();
        let v = serde_json::json!({
            "case": self.case, "line": line, "key": key, "rule": rule,
            "expected": expected, "observed": observed
        });
        self.oracle.push(v.to_string());
    }
    pub fn note_case(&mut self, text: &str, nontrivial: bool) {
        self.evaluations += 1;
        if nontrivial {
            self.distinct.insert(fnv(text.as_bytes()));
        }
        if self.samples.len() < 5 {
            let mut t = text.to_string();
            t.truncate(400);
            self.samples.push(t);
        }
    }
    pub fn write(&self, dir: &str, rule: &str) -> std::io::Result<()> {
        std::fs::create_dir_all(dir)?;
        let mut f = std::fs::File::create(format!("{dir}/ops.txt"))?;
        for l in &self.ops {
            writeln!(f, "{l}")?;
        }
        let mut f = std::fs::File::create(format!("{dir}/impl.txt"))?;
        for l in &self.imp {
            writeln!(f, "{l}")?;
        }
        let mut f = std::fs::File::create(format!("{dir}/oracle.jsonl"))?;
        for l in &self.oracle {
            writeln!(f, "{l}")?;
        }
        let stats = serde_json::json!({
            "evaluations": self.evaluations,
            "distinct_nontrivial": self.distinct.len(),
            "rule": rule,
            "samples": self.samples,
            "histogram": self.histogram,
        });
        std::fs::write(format!("{dir}/stats.json"), serde_json::to_string_pretty(&stats).unwrap())?;
        Ok(())
    }
}

pub fn fnv(b: &[u8]) -> u64 {
    let mut h: u64 = 0xcbf29ce484222325;
    for x in b {
        h ^= *x as u64;
        h = h.wrapping_mul(0x100000001b3);
    }
    h
}
