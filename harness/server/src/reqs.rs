//! Executes `req <route> <cred> args…` lines (C24 / C25 streams) against the real server and renders the
//! canonical `(status, body)` line. Names are hex, creds are `none | junk | t<k>` (k-th token issued in
//! this case), queries `n<k> | a<alias> | x:<ref> | ra<alias> | s:<ref> | c | sa:<ref>`, refs `@<alias>` /
//! `#<result index>`.

use crate::srv::Server;
use crate::util::{esc, unhex, url_seg};
use agdb::{QueryBuilder, QueryType};
use serde_json::Value;
use std::collections::BTreeMap;

pub struct Exec<'a> {
    pub srv: &'a mut Server,
    /// t<k> -> real token
    pub tokens: BTreeMap<u64, String>,
    pub next_tok: u64,
    /// users successfully created in this case (for cleanup)
    pub created: Vec<String>,
    /// long-lived admin session of the harness itself (probes, cleanup); password hashing makes
    /// every login expensive, so it is reused while it stays valid
    helper: Option<String>,
}

pub fn name(h: &str) -> Option<String> {
    unhex(h).map(|b| String::from_utf8_lossy(&b).to_string())
}

fn ref_str(r: &str) -> Option<String> {
    if let Some(a) = r.strip_prefix('@') {
        name(a)
    } else {
        r.strip_prefix('#').map(|n| format!(":{n}"))
    }
}

pub fn parse_query(t: &str) -> Option<QueryType> {
    if t == "c" {
        return Some(QueryBuilder::select().node_count().query().into());
    }
    if let Some(r) = t.strip_prefix("sa:") {
        return Some(QueryBuilder::select().aliases().ids(ref_str(r)?.as_str()).query().into());
    }
    if let Some(r) = t.strip_prefix("s:") {
        return Some(QueryBuilder::select().ids(ref_str(r)?.as_str()).query().into());
    }
    if let Some(r) = t.strip_prefix("x:") {
        return Some(QueryBuilder::remove().ids(ref_str(r)?.as_str()).query().into());
    }
    if let Some(a) = t.strip_prefix("ra") {
        return Some(QueryBuilder::remove().aliases(name(a)?.as_str()).query().into());
    }
    if let Some(k) = t.strip_prefix('n') {
        return Some(QueryBuilder::insert().nodes().count(k.parse().ok()?).query().into());
    }
    if let Some(a) = t.strip_prefix('a') {
        return Some(QueryBuilder::insert().nodes().aliases(name(a)?.as_str()).query().into());
    }
    None
}

pub fn is_mutating(t: &str) -> bool {
    t.starts_with('n') || t.starts_with('a') || t.starts_with("x:") || t.starts_with("ra")
}

pub fn batch_json(b: &str) -> Option<String> {
    let qs: Vec<QueryType> = if b == "-" {
        vec![]
    } else {
        b.split(',').map(parse_query).collect::<Option<Vec<_>>>()?
    };
    serde_json::to_string(&qs).ok()
}

fn role_str(v: &Value) -> String {
    v.as_str().unwrap_or("?").to_ascii_lowercase()
}

fn audit_fp(q: &Value) -> String {
    let Some(obj) = q.as_object() else { return "?".into() };
    let Some((variant, inner)) = obj.iter().next() else { return "?".into() };
    if variant == "InsertNodes" {
        let count = inner["count"].as_u64().unwrap_or(0);
        let aliases = inner["aliases"].as_array().map(|a| a.len() as u64).unwrap_or(0);
        return format!("InsertNodes{}", count.max(aliases));
    }
    variant.clone()
}

impl<'a> Exec<'a> {
    pub fn new(srv: &'a mut Server) -> Self {
        Exec {
            srv,
            tokens: BTreeMap::new(),
            next_tok: 1,
            created: vec![],
            helper: None,
        }
    }

    /// a valid admin token for the harness' own probes (re-login only when needed)
    pub fn helper_admin(&mut self) -> Option<String> {
        if let Some(t) = &self.helper {
            if let Ok((200, _)) = self.srv.req("GET", "/api/v1/user/status", Some(t), None) {
                return self.helper.clone();
            }
        }
        self.helper = self.admin_login();
        self.helper.clone()
    }

    pub fn admin_login(&self) -> Option<String> {
        let (st, body) = self
            .srv
            .req(
                "POST",
                "/api/v1/user/login",
                None,
                Some("{\"username\":\"admin\",\"password\":\"admin\"}"),
            )
            .ok()?;
        if st != 200 {
            return None;
        }
        serde_json::from_str(&body).ok()
    }

    /// new case: forget tokens, log the admin in as t1 (mirrors the driver's `freshCase`)
    pub fn start_case(&mut self) -> Result<(), String> {
        self.tokens.clear();
        self.created.clear();
        let t = self.admin_login().ok_or("admin login failed")?;
        self.tokens.insert(1, t);
        self.next_tok = 2;
        Ok(())
    }

    /// end of case: delete every user the case created (their dbs and directories go with them)
    pub fn end_case(&mut self) {
        if let Some(t) = self.helper_admin() {
            for u in self.created.clone() {
                let _ = self.srv.req(
                    "DELETE",
                    &format!("/api/v1/admin/user/{}/delete", url_seg(&u)),
                    Some(&t),
                    None,
                );
            }
        }
        self.created.clear();
    }

    pub fn bearer(&self, cred: &str) -> Option<String> {
        match cred {
            "none" => None,
            "junk" => Some("00000000-0000-4000-8000-000000000000".into()),
            c => c
                .strip_prefix('t')
                .and_then(|k| k.parse::<u64>().ok())
                .and_then(|k| self.tokens.get(&k).cloned())
                .or(Some("00000000-0000-4000-8000-000000000001".into())),
        }
    }

    /// returns (status, canonical line)
    pub fn exec(&mut self, t: &[&str]) -> (u16, String) {
        let bad = (0u16, "bad-op".to_string());
        if t.len() < 2 {
            return bad;
        }
        let route = t[0];
        let n = |i: usize| -> Option<String> { t.get(i).and_then(|h| name(h)) };
        let seg = |i: usize| -> Option<String> { n(i).map(|s| url_seg(&s)) };
        // (method, path, cred index or usize::MAX, body)
        let mut body: Option<String> = None;
        let cred_idx = if route == "login" { usize::MAX } else { 1 };
        let (method, path): (&str, String) = match route {
            "login" => {
                let (Some(u), Some(p)) = (n(1), n(2)) else { return bad };
                body = Some(serde_json::json!({"username": u, "password": p}).to_string());
                ("POST", "/user/login".into())
            }
            "logout" => (
                "POST",
                if t.get(2) == Some(&"all") { "/user/logout?session=all".into() } else { "/user/logout".into() },
            ),
            "chpw" => {
                let (Some(o), Some(p)) = (n(2), n(3)) else { return bad };
                body = Some(serde_json::json!({"password": o, "new_password": p}).to_string());
                ("PUT", "/user/change_password".into())
            }
            "ustatus" => ("GET", "/user/status".into()),
            "dblist" => ("GET", "/db/list".into()),
            "auserlist" => ("GET", "/admin/user/list".into()),
            "adblist" => ("GET", "/admin/db/list".into()),
            "alogoutall" => ("POST", "/admin/user/logout_all".into()),
            "auseradd" | "auserchpw" => {
                let (Some(u), Some(p)) = (seg(2), n(3)) else { return bad };
                body = Some(serde_json::json!({"password": p}).to_string());
                if route == "auseradd" {
                    ("POST", format!("/admin/user/{u}/add"))
                } else {
                    ("PUT", format!("/admin/user/{u}/change_password"))
                }
            }
            "auserdelete" => {
                let Some(u) = seg(2) else { return bad };
                ("DELETE", format!("/admin/user/{u}/delete"))
            }
            "auserlogout" => {
                let Some(u) = seg(2) else { return bad };
                ("POST", format!("/admin/user/{u}/logout"))
            }
            r => {
                let (admin, op) = match r.strip_prefix("adb") {
                    Some(op) => (true, op),
                    None => match r.strip_prefix("db") {
                        Some(op) => (false, op),
                        None => return bad,
                    },
                };
                let (Some(o), Some(d)) = (seg(2), seg(3)) else { return bad };
                let base = if admin { format!("/admin/db/{o}/{d}") } else { format!("/db/{o}/{d}") };
                match op {
                    "add" => ("POST", format!("{base}/add?db_type={}", t.get(4).copied().unwrap_or("memory"))),
                    "audit" => ("GET", format!("{base}/audit")),
                    "backup" => ("POST", format!("{base}/backup")),
                    "clear" => ("POST", format!("{base}/clear?resource={}", t.get(4).copied().unwrap_or("all"))),
                    "copy" if !admin => {
                        let Some(nn) = seg(4) else { return bad };
                        ("POST", format!("{base}/copy?new_db={nn}"))
                    }
                    "rename" if !admin => {
                        let Some(nn) = seg(4) else { return bad };
                        ("POST", format!("{base}/rename?new_db={nn}"))
                    }
                    "copy" | "rename" => {
                        let (Some(no), Some(nn)) = (seg(4), seg(5)) else { return bad };
                        ("POST", format!("{base}/{op}?new_owner={no}&new_db={nn}"))
                    }
                    "delete" => ("DELETE", format!("{base}/delete")),
                    "remove" => ("DELETE", format!("{base}/remove")),
                    "exec" | "execmut" => {
                        let Some(b) = t.get(4).and_then(|b| batch_json(b)) else { return bad };
                        body = Some(b);
                        ("POST", format!("{base}/{}", if op == "exec" { "exec" } else { "exec_mut" }))
                    }
                    "optimize" => ("POST", format!("{base}/optimize")),
                    "restore" => ("POST", format!("{base}/restore")),
                    "useradd" => {
                        let Some(u) = seg(4) else { return bad };
                        ("PUT", format!("{base}/user/{u}/add?db_role={}", t.get(5).copied().unwrap_or("read")))
                    }
                    "userlist" => ("GET", format!("{base}/user/list")),
                    "userremove" => {
                        let Some(u) = seg(4) else { return bad };
                        ("DELETE", format!("{base}/user/{u}/remove"))
                    }
                    _ => return bad,
                }
            }
        };
        let bearer = if cred_idx == usize::MAX { None } else { self.bearer(t[cred_idx]) };
        let (st, text) = match self.srv.req(method, &format!("/api/v1{path}"), bearer.as_deref(), body.as_deref()) {
            Ok(r) => r,
            Err(e) => return (0, format!("err:http:{}", e.replace(' ', "_"))),
        };
        if st >= 500 && std::env::var("VERIF_DEBUG").is_ok() {
            eprintln!("debug: {method} {path} -> {st} {text}");
        }
        let ok = (200..300).contains(&st);
        let json: Option<Value> = if ok { serde_json::from_str(&text).ok() } else { None };
        let payload = match route {
            "login" if ok => {
                let tok: String = json.and_then(|v| v.as_str().map(|s| s.to_string())).unwrap_or_default();
                let k = self.next_tok;
                self.next_tok += 1;
                self.tokens.insert(k, tok);
                format!(" t{k}")
            }
            "auseradd" if ok => {
                if let Some(u) = n(2) {
                    self.created.push(u);
                }
                String::new()
            }
            "dbexec" | "dbexecmut" | "adbexec" | "adbexecmut" if ok => {
                let rs: Vec<String> = json
                    .as_ref()
                    .and_then(|v| v.as_array())
                    .map(|a| {
                        a.iter()
                            .map(|r| {
                                format!(
                                    "{}:{}",
                                    r["result"].as_i64().unwrap_or(i64::MIN),
                                    r["elements"].as_array().map(|e| e.len()).unwrap_or(0)
                                )
                            })
                            .collect()
                    })
                    .unwrap_or_default();
                format!(" r={}", rs.join(";"))
            }
            "dbaudit" | "adbaudit" if ok => {
                let rs: Vec<String> = json
                    .as_ref()
                    .and_then(|v| v.as_array())
                    .map(|a| {
                        a.iter()
                            .map(|r| format!("{}:{}", esc(r["username"].as_str().unwrap_or("?")), audit_fp(&r["query"])))
                            .collect()
                    })
                    .unwrap_or_default();
                format!(" audit={}", rs.join(";"))
            }
            "dblist" | "adblist" if ok => {
                let mut rs: Vec<String> = json
                    .as_ref()
                    .and_then(|v| v.as_array())
                    .map(|a| {
                        a.iter()
                            .map(|r| {
                                format!(
                                    "{}/{}:{}:{}",
                                    esc(r["owner"].as_str().unwrap_or("?")),
                                    esc(r["db"].as_str().unwrap_or("?")),
                                    role_str(&r["db_type"]),
                                    role_str(&r["role"])
                                )
                            })
                            .collect()
                    })
                    .unwrap_or_default();
                rs.sort();
                format!(" dbs={}", rs.join(","))
            }
            "dbuserlist" | "adbuserlist" if ok => {
                let mut rs: Vec<String> = json
                    .as_ref()
                    .and_then(|v| v.as_array())
                    .map(|a| {
                        a.iter()
                            .map(|r| format!("{}:{}", esc(r["username"].as_str().unwrap_or("?")), role_str(&r["role"])))
                            .collect()
                    })
                    .unwrap_or_default();
                rs.sort();
                format!(" users={}", rs.join(","))
            }
            "auserlist" if ok => {
                let mut rs: Vec<String> = json
                    .as_ref()
                    .and_then(|v| v.as_array())
                    .map(|a| a.iter().map(|r| esc(r["username"].as_str().unwrap_or("?"))).collect())
                    .unwrap_or_default();
                rs.sort();
                format!(" names={}", rs.join(","))
            }
            _ => String::new(),
        };
        (st, format!("{st}{payload}"))
    }

    /// observable state fingerprint through the admin API (for "rejected ⇒ no effect")
    pub fn fingerprint(&mut self) -> String {
        let Some(t) = self.helper_admin() else { return "no-admin".into() };
        let mut out = String::new();
        let get = |s: &Server, p: &str| s.req("GET", p, Some(&t), None).map(|r| r.1).unwrap_or_default();
        let users = get(self.srv, "/api/v1/admin/user/list");
        let names: Vec<String> = serde_json::from_str::<Value>(&users)
            .ok()
            .and_then(|v| v.as_array().cloned())
            .unwrap_or_default()
            .iter()
            .map(|u| {
                let n = u["username"].as_str().unwrap_or("?");
                if n == "admin" { n.to_string() } else { format!("{n}:{}", u["login"]) }
            })
            .collect();
        out.push_str(&format!("users={names:?};"));
        let dbs = get(self.srv, "/api/v1/admin/db/list");
        let mut dbl: Vec<(String, String, String)> = serde_json::from_str::<Value>(&dbs)
            .ok()
            .and_then(|v| v.as_array().cloned())
            .unwrap_or_default()
            .iter()
            .map(|d| {
                (
                    d["owner"].as_str().unwrap_or("?").to_string(),
                    d["db"].as_str().unwrap_or("?").to_string(),
                    format!("{}:{}", d["db_type"], d["backup"].as_u64().map(|b| b != 0).unwrap_or(false)),
                )
            })
            .collect();
        dbl.sort();
        let q = "[{\"SelectNodeCount\":{}},{\"SelectAllAliases\":{}}]";
        for (o, d, k) in dbl {
            let base = format!("/api/v1/admin/db/{}/{}", url_seg(&o), url_seg(&d));
            let ul = get(self.srv, &format!("{base}/user/list"));
            let cnt = self
                .srv
                .req("POST", &format!("{base}/exec"), Some(&t), Some(q))
                .map(|r| r.1)
                .unwrap_or_default();
            let cnt: String = serde_json::from_str::<Value>(&cnt)
                .ok()
                .map(|v| format!("{}/{}", v[0]["result"], v[1]["result"]))
                .unwrap_or(cnt);
            let au = get(self.srv, &format!("{base}/audit")).len();
            out.push_str(&format!("{o}/{d}:{k}:{ul}:{cnt}:{au};"));
        }
        out
    }
}
