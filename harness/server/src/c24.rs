use crate::util::Out;
pub fn generate(_seed: u64, _tier: &str) -> Vec<String> { vec![] }
pub fn run(_ops: &[String], _out: &mut Out) -> Result<(), String> { Err("not implemented".into()) }
