//! C24 — the server enforces authentication and per-database permissions.
//! Generated multi-user request sequences (`req …` lines, see reqs.rs) against the real server, with an
//! independent permission oracle: a request may be PERFORMED (2xx) only if the caller holds a valid token
//! and the documented permission; otherwise it must be rejected and leave the observable state unchanged.

use crate::reqs::{is_mutating, name, Exec};
use crate::srv::Server;
use crate::util::{hex, Out, Rng};
use std::collections::{BTreeMap, BTreeSet};

#[derive(Clone, Copy, PartialEq, Eq, PartialOrd, Ord, Debug)]
enum Role {
    Read,
    Write,
    Admin,
}

fn role(s: &str) -> Role {
    match s {
        "admin" => Role::Admin,
        "write" => Role::Write,
        _ => Role::Read,
    }
}

#[derive(Default)]
struct Perm {
    pwd: BTreeMap<String, String>,
    /// t<k> -> user (only while valid)
    tokens: BTreeMap<u64, String>,
    dbs: BTreeMap<(String, String), BTreeMap<String, Role>>,
}

impl Perm {
    fn fresh() -> Self {
        let mut p = Perm::default();
        p.pwd.insert("admin".into(), "admin".into());
        p.tokens.insert(1, "admin".into());
        p
    }
    fn caller(&self, cred: &str) -> Option<String> {
        cred.strip_prefix('t')
            .and_then(|k| k.parse::<u64>().ok())
            .and_then(|k| self.tokens.get(&k).cloned())
    }
    fn role(&self, user: &str, o: &str, d: &str) -> Option<Role> {
        self.dbs.get(&(o.to_string(), d.to_string())).and_then(|m| m.get(user).copied())
    }

    /// the documented permission for the request (independent of the server and of the Lean model)
    fn allowed(&self, t: &[&str]) -> bool {
        let route = t[0];
        let n = |i: usize| t.get(i).and_then(|h| name(h)).unwrap_or_default();
        if route == "login" {
            return self.pwd.get(&n(1)) == Some(&n(2));
        }
        let Some(caller) = self.caller(t[1]) else { return false };
        if route.starts_with('a') {
            return caller == "admin";
        }
        let (o, d) = (n(2), n(3));
        let r = self.role(&caller, &o, &d);
        match route {
            "logout" | "ustatus" | "dblist" => true,
            "chpw" => self.pwd.get(&caller) == Some(&n(2)),
            "dbadd" => caller == o,
            "dbdelete" | "dbremove" => caller == o && r.is_some(),
            // renaming to the same name is answered 201 without doing anything, also for a database that
            // does not exist: nothing is performed, so only ownership is required here
            "dbrename" => caller == o && (r.is_some() || n(4) == d),
            "dbbackup" | "dbrestore" | "dbclear" | "dbuseradd" => r == Some(Role::Admin),
            "dbuserremove" => r == Some(Role::Admin) || (r.is_some() && caller == n(4)),
            "dboptimize" => r >= Some(Role::Write),
            "dbexecmut" => {
                let mutating = t.get(4).map(|b| b.split(',').any(is_mutating)).unwrap_or(false);
                if mutating { r >= Some(Role::Write) } else { r >= Some(Role::Write) }
            }
            "dbexec" => {
                let mutating = t.get(4).map(|b| b.split(',').any(is_mutating)).unwrap_or(false);
                r.is_some() && !mutating
            }
            "dbaudit" | "dbuserlist" | "dbcopy" => r.is_some(),
            _ => false,
        }
    }

    /// track the consequences of a performed request
    fn performed(&mut self, t: &[&str], tok_issued: Option<u64>) {
        let route = t[0];
        let n = |i: usize| t.get(i).and_then(|h| name(h)).unwrap_or_default();
        let caller = if route == "login" { None } else { self.caller(t[1]) };
        let key = |o: String, d: String| (o, d);
        match route {
            "login" => {
                if let Some(k) = tok_issued {
                    self.tokens.insert(k, n(1));
                }
            }
            "logout" => {
                if t.get(2) == Some(&"all") {
                    if let Some(c) = caller {
                        self.tokens.retain(|_, u| *u != c);
                    }
                } else if let Some(k) = t[1].strip_prefix('t').and_then(|k| k.parse::<u64>().ok()) {
                    self.tokens.remove(&k);
                }
            }
            "chpw" => {
                if let Some(c) = caller {
                    self.pwd.insert(c, n(3));
                }
            }
            "auserchpw" => {
                self.pwd.insert(n(2), n(3));
            }
            "auseradd" => {
                self.pwd.insert(n(2), n(3));
            }
            "auserdelete" => {
                let u = n(2);
                self.pwd.remove(&u);
                self.tokens.retain(|_, x| *x != u);
                self.dbs.retain(|k, _| k.0 != u);
                for m in self.dbs.values_mut() {
                    m.remove(&u);
                }
            }
            "auserlogout" => {
                let u = n(2);
                self.tokens.retain(|_, x| *x != u);
            }
            "alogoutall" => self.tokens.retain(|_, x| x == "admin"),
            "dbadd" | "adbadd" => {
                let mut m = BTreeMap::new();
                m.insert(n(2), Role::Admin);
                self.dbs.insert(key(n(2), n(3)), m);
            }
            "dbcopy" => {
                if let Some(c) = caller {
                    let mut m = BTreeMap::new();
                    m.insert(c.clone(), Role::Admin);
                    self.dbs.insert(key(c, n(4)), m);
                }
            }
            "adbcopy" => {
                let mut m = BTreeMap::new();
                m.insert(n(4), Role::Admin);
                self.dbs.insert(key(n(4), n(5)), m);
            }
            "dbrename" => {
                if n(4) != n(3) {
                    if let Some(m) = self.dbs.remove(&key(n(2), n(3))) {
                        self.dbs.insert(key(n(2), n(4)), m);
                    }
                }
            }
            "adbrename" => {
                if (n(2), n(3)) != (n(4), n(5)) {
                    if let Some(mut m) = self.dbs.remove(&key(n(2), n(3))) {
                        if n(2) != n(4) {
                            m.insert(n(4), Role::Admin);
                        }
                        self.dbs.insert(key(n(4), n(5)), m);
                    }
                }
            }
            "dbdelete" | "dbremove" | "adbdelete" | "adbremove" => {
                self.dbs.remove(&key(n(2), n(3)));
            }
            "dbuseradd" | "adbuseradd" => {
                if let Some(m) = self.dbs.get_mut(&key(n(2), n(3))) {
                    m.insert(n(4), role(t.get(5).copied().unwrap_or("read")));
                }
            }
            "dbuserremove" | "adbuserremove" => {
                if let Some(m) = self.dbs.get_mut(&key(n(2), n(3))) {
                    m.remove(&n(4));
                }
            }
            _ => {}
        }
    }
}

pub fn run(ops: &[String], out: &mut Out) -> Result<(), String> {
    let mut server = Server::start("C24", 3600)?;
    run_with(&mut server, ops, out, "C24")
}

pub fn run_with(server: &mut Server, ops: &[String], out: &mut Out, prop: &str) -> Result<(), String> {
    let mut ex = Exec::new(server);
    let mut perm = Perm::fresh();
    let mut in_case = false;
    let mut case_text = String::new();
    let mut nontrivial = false;
    for l in ops {
        if let Some(n) = l.strip_prefix("case ") {
            if in_case {
                ex.end_case();
                out.note_case(&case_text, nontrivial);
            }
            in_case = true;
            case_text.clear();
            nontrivial = false;
            out.case = n.trim().parse().unwrap_or(0);
            ex.start_case()?;
            perm = Perm::fresh();
            out.line(l.clone(), l.clone());
            continue;
        }
        let t: Vec<&str> = l.split(' ').collect();
        if t.len() < 2 || t[0] != "req" {
            out.line(l.clone(), "bad-op".into());
            continue;
        }
        let t = &t[1..];
        case_text.push_str(l);
        case_text.push('\n');
        out.count(&format!("route:{}", t[0]));
        let allowed = perm.allowed(t);
        let before = if !allowed { Some(ex.fingerprint()) } else { None };
        let tok_before = ex.next_tok;
        let (st, line) = ex.exec(t);
        out.count(&format!("status:{st}"));
        let ok = (200..300).contains(&st);
        if !allowed {
            nontrivial = true;
            out.count("oracle:must-reject");
            if ok {
                out.violation(
                    &format!("{prop}/unauthorized-performed/routes::{}", t[0]),
                    "performed only with a valid token and the documented permission",
                    "4xx",
                    &format!("{st} for `{l}`"),
                );
            }
            let after = ex.fingerprint();
            if Some(&after) != before.as_ref() {
                out.violation(
                    &format!("{prop}/rejected-request-had-effect/routes::{}", t[0]),
                    "a rejected request has no effect",
                    before.as_deref().unwrap_or(""),
                    &after,
                );
            }
        } else {
            out.count("oracle:may-perform");
        }
        if ok {
            let issued = if ex.next_tok > tok_before { Some(tok_before) } else { None };
            perm.performed(t, issued);
        }
        out.line(l.clone(), line);
    }
    if in_case {
        ex.end_case();
        out.note_case(&case_text, nontrivial);
    }
    Ok(())
}

pub fn generate(seed: u64, tier: &str) -> Vec<String> {
    let mut r = Rng::new(seed ^ 0x24);
    let ncases = if tier == "thorough" { 600 } else { 30 };
    let len = if tier == "thorough" { 60 } else { 40 };
    let mut ops = Vec::new();
    let users = ["usr0", "usr1", "usr2", "usr3"];
    let dbs = ["d0", "d1", "d2"];
    let kinds = ["memory", "mapped", "file"];
    let roles = ["read", "write", "admin"];
    let h = |s: &str| hex(s.as_bytes());
    for case in 1..=ncases {
        ops.push(format!("case {case}"));
        // model-side bookkeeping only to bias the generator (never used as an oracle)
        let mut next_tok = 2u64;
        let mut toks: Vec<(u64, usize)> = Vec::new(); // (token, user index)
        let mut stale: Vec<u64> = Vec::new();
        let mut pwds: Vec<String> = users.iter().map(|u| format!("password-{u}")).collect();
        let mut added: BTreeSet<usize> = BTreeSet::new();
        let nu = 2 + r.below(3);
        for i in 0..nu {
            ops.push(format!("req auseradd t1 {} {}", h(users[i]), h(&pwds[i])));
            added.insert(i);
            ops.push(format!("req login {} {}", h(users[i]), h(&pwds[i])));
            toks.push((next_tok, i));
            next_tok += 1;
        }
        for _ in 0..len {
            // credential: mostly a live user token
            let pick_cred = |r: &mut Rng, toks: &Vec<(u64, usize)>, stale: &Vec<u64>| -> (String, Option<usize>) {
                let x = r.below(100);
                if x < 72 && !toks.is_empty() {
                    let (k, u) = toks[r.below(toks.len())];
                    (format!("t{k}"), Some(u))
                } else if x < 80 && !stale.is_empty() {
                    (format!("t{}", stale[r.below(stale.len())]), None)
                } else if x < 86 {
                    ("none".into(), None)
                } else if x < 92 {
                    ("junk".into(), None)
                } else {
                    ("t1".into(), None)
                }
            };
            let (cred, cu) = pick_cred(&mut r, &toks, &stale);
            let owner = if r.chance(7, 10) && cu.is_some() { users[cu.unwrap()] } else { users[r.below(nu)] };
            let db = dbs[r.below(dbs.len())];
            let extra = if r.chance(1, 10) { 1 } else { 0 };
            let other = users[r.below(nu + extra).min(3)];
            let batch_w = ["n1", "n2,c", "a6b31,n1", "n1,x:#0"][r.below(4)];
            let batch_r = ["c", "c,c", "s:@6b31"][r.below(3)];
            let line = match r.below(40) {
                0..=4 => format!("req dbadd {cred} {} {} {}", h(owner), h(db), kinds[r.below(3)]),
                5..=9 => format!("req dbexecmut {cred} {} {} {batch_w}", h(owner), h(db)),
                10..=11 => format!("req dbexecmut {cred} {} {} {batch_r}", h(owner), h(db)),
                12..=14 => format!("req dbexec {cred} {} {} {batch_r}", h(owner), h(db)),
                15 => format!("req dbexec {cred} {} {} {batch_w}", h(owner), h(db)),
                16..=19 => format!("req dbuseradd {cred} {} {} {} {}", h(owner), h(db), h(other), roles[r.below(3)]),
                20..=21 => format!("req dbuserremove {cred} {} {} {}", h(owner), h(db), h(other)),
                22 => format!("req dbuserlist {cred} {} {}", h(owner), h(db)),
                23 => format!("req dblist {cred}"),
                24 => format!("req dbbackup {cred} {} {}", h(owner), h(db)),
                25 => format!("req dbrestore {cred} {} {}", h(owner), h(db)),
                26 => format!("req dbclear {cred} {} {} {}", h(owner), h(db), ["all", "db", "audit", "backup"][r.below(4)]),
                27 => format!("req dbcopy {cred} {} {} {}", h(owner), h(db), h(dbs[r.below(3)])),
                28 => format!("req dbrename {cred} {} {} {}", h(owner), h(db), h(dbs[r.below(3)])),
                29 => format!("req dbdelete {cred} {} {}", h(owner), h(db)),
                30 => format!("req dbremove {cred} {} {}", h(owner), h(db)),
                31 => format!("req dboptimize {cred} {} {}", h(owner), h(db)),
                32 => format!("req dbaudit {cred} {} {}", h(owner), h(db)),
                33 => {
                    // logout: the token becomes stale
                    if let Some(k) = cred.strip_prefix('t').and_then(|k| k.parse::<u64>().ok()) {
                        if k != 1 {
                            if let Some(u) = cu {
                                let all = r.chance(1, 3);
                                if all {
                                    for (t, x) in toks.clone() {
                                        if x == u {
                                            stale.push(t);
                                        }
                                    }
                                    toks.retain(|(_, x)| *x != u);
                                } else {
                                    toks.retain(|(t, _)| *t != k);
                                    stale.push(k);
                                }
                                format!("req logout {cred} {}", if all { "all" } else { "one" })
                            } else {
                                format!("req logout {cred} one")
                            }
                        } else {
                            format!("req ustatus {cred}")
                        }
                    } else {
                        format!("req logout {cred} one")
                    }
                }
                34 => {
                    let u = r.below(nu);
                    let good = r.chance(4, 5);
                    if good && added.contains(&u) {
                        toks.push((next_tok, u));
                        next_tok += 1;
                    }
                    format!("req login {} {}", h(users[u]), h(if good { &pwds[u] } else { "wrong-password" }))
                }
                35 => {
                    // admin-side user management with a random credential
                    let u = r.below(nu);
                    match r.below(4) {
                        0 => {
                            if cred == "t1" {
                                for (t, x) in toks.clone() {
                                    if x == u {
                                        stale.push(t);
                                    }
                                }
                                toks.retain(|(_, x)| *x != u);
                            }
                            format!("req auserlogout {cred} {}", h(users[u]))
                        }
                        1 => format!("req auserlist {cred}"),
                        2 => format!("req adblist {cred}"),
                        _ => {
                            if cred == "t1" {
                                pwds[u] = format!("changed-{case}-{u}");
                                format!("req auserchpw {cred} {} {}", h(users[u]), h(&pwds[u]))
                            } else {
                                format!("req auserchpw {cred} {} {}", h(users[u]), h("hijacked-password"))
                            }
                        }
                    }
                }
                36 => match r.below(5) {
                    0 => format!("req adbadd {cred} {} {} {}", h(owner), h(db), kinds[r.below(3)]),
                    1 => format!("req adbuseradd {cred} {} {} {} {}", h(owner), h(db), h(other), roles[r.below(3)]),
                    2 => format!("req adbexecmut {cred} {} {} {batch_w}", h(owner), h(db)),
                    3 => format!("req adbrename {cred} {} {} {} {}", h(owner), h(db), h(users[r.below(nu)]), h(dbs[r.below(3)])),
                    _ => format!("req adbuserremove {cred} {} {} {}", h(owner), h(db), h(other)),
                },
                37 => {
                    if cred == "t1" && r.chance(1, 2) {
                        let u = r.below(nu);
                        for (t, x) in toks.clone() {
                            if x == u {
                                stale.push(t);
                            }
                        }
                        toks.retain(|(_, x)| *x != u);
                        added.remove(&u);
                        format!("req auserdelete {cred} {}", h(users[u]))
                    } else {
                        format!("req adbdelete {cred} {} {}", h(owner), h(db))
                    }
                }
                38 => {
                    if let Some(u) = cu {
                        let good = r.chance(2, 3);
                        let old = if good { pwds[u].clone() } else { "not-my-password".to_string() };
                        let new = format!("newpass-{case}-{}", r.below(1000));
                        if good {
                            pwds[u] = new.clone();
                        }
                        format!("req chpw {cred} {} {}", h(&old), h(&new))
                    } else {
                        format!("req chpw {cred} {} {}", h("whatever1"), h("whatever2"))
                    }
                }
                _ => {
                    if cred == "t1" && r.chance(1, 3) {
                        for (t, _) in toks.clone() {
                            stale.push(t);
                        }
                        toks.clear();
                        format!("req alogoutall {cred}")
                    } else {
                        format!("req ustatus {cred}")
                    }
                }
            };
            ops.push(line);
        }
    }
    ops
}
