//! building / starting / stopping the real `agdb_server` process and a tiny blocking HTTP/1.1 client

use std::io::{Read, Write};
use std::net::{TcpListener, TcpStream};
use std::path::{Path, PathBuf};
use std::process::{Child, Command, Stdio};
use std::sync::atomic::{AtomicU32, Ordering};
use std::time::{Duration, Instant};

pub static SERVER_PID: AtomicU32 = AtomicU32::new(0);

pub fn repo() -> String {
    std::env::var("VERIF_REPO").unwrap_or_else(|_| "/repo".to_string())
}

pub fn verif_root() -> PathBuf {
    PathBuf::from(std::env::var("VERIF_ROOT").unwrap_or_else(|_| "/verif".to_string()))
}

/// `cargo build -p agdb_server` from `$VERIF_REPO` into `/verif/.target/server_bin` (warm: ~1 s)
pub fn build_server() -> Result<PathBuf, String> {
    let target = verif_root().join(".target/server_bin");
    if let Ok(bin) = std::env::var("VERIF_SERVER_BIN") {
        return Ok(PathBuf::from(bin));
    }
    let out = Command::new("cargo")
        .args(["build", "-p", "agdb_server", "--offline", "--target-dir"])
        .arg(&target)
        .current_dir(repo())
        .env("RUSTFLAGS", "--cfg agdb_verif")
        .env("CARGO_NET_OFFLINE", "true")
        .stdout(Stdio::null())
        .stderr(Stdio::piped())
        .output()
        .map_err(|e| format!("cannot run cargo: {e}"))?;
    if !out.status.success() {
        return Err(format!(
            "building agdb_server failed: {}",
            String::from_utf8_lossy(&out.stderr)
        ));
    }
    Ok(target.join("debug/agdb_server"))
}

pub struct Server {
    pub child: Child,
    pub port: u16,
    /// scratch root (listed by the C26 oracle): `<work>/`
    pub root: PathBuf,
    /// process cwd: `<work>/n1/n2/srv`
    pub cwd: PathBuf,
    /// `<cwd>/agdb_server_data`
    pub data_dir: PathBuf,
}

pub const DATA_DIR: &str = "agdb_server_data";

impl Server {
    pub fn start(id: &str, token_expiry: u64) -> Result<Server, String> {
        let bin = build_server()?;
        let root = verif_root()
            .join(".work")
            .join(format!("{id}-{}", std::process::id()));
        let _ = std::fs::remove_dir_all(&root);
        let cwd = root.join("n1/n2/srv");
        std::fs::create_dir_all(&cwd).map_err(|e| e.to_string())?;
        let port = {
            let l = TcpListener::bind("127.0.0.1:0").map_err(|e| e.to_string())?;
            l.local_addr().map_err(|e| e.to_string())?.port()
        };
        let cfg = format!(
            "bind: 127.0.0.1:{port}\naddress: http://127.0.0.1:{port}\nbasepath: \nstatic_roots: \nadmin: admin\nlog_level: ERROR\nlog_body_limit: 1024\nrequest_body_limit: 10485760\ndata_dir: {DATA_DIR}\npepper_path: \ntls_certificate: \ntls_key: \ntls_root: \ncluster_token: verif\ncluster_heartbeat_timeout_ms: 1000\ncluster_term_timeout_ms: 3000\ncluster_election_factor_ms: 1000\ncluster: []\ntoken_expiry_seconds: {token_expiry}\n"
        );
        std::fs::write(cwd.join("agdb_server.yaml"), cfg).map_err(|e| e.to_string())?;
        let log = std::fs::File::create(root.join("server.out")).map_err(|e| e.to_string())?;
        let log2 = log.try_clone().map_err(|e| e.to_string())?;
        let child = Command::new(&bin)
            .current_dir(&cwd)
            .stdin(Stdio::null())
            .stdout(log)
            .stderr(log2)
            .spawn()
            .map_err(|e| format!("cannot start {}: {e}", bin.display()))?;
        SERVER_PID.store(child.id(), Ordering::SeqCst);
        let mut s = Server {
            child,
            port,
            data_dir: cwd.join(DATA_DIR),
            cwd,
            root,
        };
        let start = Instant::now();
        loop {
            if let Ok((200, _)) = s.req("GET", "/api/v1/status", None, None) {
                return Ok(s);
            }
            if let Ok(Some(st)) = s.child.try_wait() {
                return Err(format!("server exited at start: {st}"));
            }
            if start.elapsed() > Duration::from_secs(30) {
                return Err("server did not become ready".into());
            }
            std::thread::sleep(Duration::from_millis(50));
        }
    }

    /// one HTTP/1.1 request on a fresh connection; returns (status, body)
    pub fn req(
        &self,
        method: &str,
        path: &str,
        token: Option<&str>,
        body: Option<&str>,
    ) -> Result<(u16, String), String> {
        http(self.port, method, path, token, body)
    }

    pub fn alive(&mut self) -> bool {
        matches!(self.child.try_wait(), Ok(None))
    }
}

impl Drop for Server {
    fn drop(&mut self) {
        let _ = self.child.kill();
        let _ = self.child.wait();
        SERVER_PID.store(0, Ordering::SeqCst);
        if std::env::var("VERIF_KEEP_WORK").is_err() {
            let _ = std::fs::remove_dir_all(&self.root);
        }
    }
}

pub fn kill_leftover_server() {
    let pid = SERVER_PID.load(Ordering::SeqCst);
    if pid != 0 {
        let _ = Command::new("kill").arg("-9").arg(pid.to_string()).status();
    }
}

pub fn http(
    port: u16,
    method: &str,
    path: &str,
    token: Option<&str>,
    body: Option<&str>,
) -> Result<(u16, String), String> {
    let mut s = TcpStream::connect(("127.0.0.1", port)).map_err(|e| e.to_string())?;
    s.set_read_timeout(Some(Duration::from_secs(30))).ok();
    s.set_write_timeout(Some(Duration::from_secs(30))).ok();
    let mut r = format!("{method} {path} HTTP/1.1\r\nHost: 127.0.0.1:{port}\r\nConnection: close\r\nUser-Agent: verif\r\nAccept: */*\r\n");
    if let Some(t) = token {
        r.push_str(&format!("Authorization: Bearer {t}\r\n"));
    }
    if let Some(b) = body {
        r.push_str(&format!(
            "Content-Type: application/json\r\nContent-Length: {}\r\n\r\n{b}",
            b.len()
        ));
    } else {
        r.push_str("Content-Length: 0\r\n\r\n");
    }
    s.write_all(r.as_bytes()).map_err(|e| e.to_string())?;
    let mut buf = Vec::new();
    s.read_to_end(&mut buf).map_err(|e| e.to_string())?;
    let text = String::from_utf8_lossy(&buf).to_string();
    let (head, rest) = match text.find("\r\n\r\n") {
        Some(i) => (&text[..i], &text[i + 4..]),
        None => return Err(format!("bad response: {text:?}")),
    };
    let status: u16 = head
        .split_whitespace()
        .nth(1)
        .and_then(|x| x.parse().ok())
        .ok_or_else(|| format!("bad status line: {head:?}"))?;
    let chunked = head
        .to_ascii_lowercase()
        .contains("transfer-encoding: chunked");
    let body = if chunked { dechunk(rest) } else { rest.to_string() };
    Ok((status, body))
}

fn dechunk(s: &str) -> String {
    let mut out = String::new();
    let mut rest = s;
    loop {
        let Some(i) = rest.find("\r\n") else { break };
        let Ok(n) = usize::from_str_radix(rest[..i].trim(), 16) else { break };
        if n == 0 {
            break;
        }
        let start = i + 2;
        if start + n > rest.len() {
            out.push_str(&rest[start..]);
            break;
        }
        out.push_str(&rest[start..start + n]);
        rest = &rest[(start + n + 2).min(rest.len())..];
    }
    out
}

/// recursive listing of regular files under `root`, relative paths, sorted
pub fn list_files(root: &Path) -> Vec<String> {
    fn walk(base: &Path, dir: &Path, out: &mut Vec<String>) {
        let Ok(rd) = std::fs::read_dir(dir) else { return };
        for e in rd.flatten() {
            let p = e.path();
            let Ok(md) = std::fs::symlink_metadata(&p) else { continue };
            if md.is_dir() {
                walk(base, &p, out);
            } else {
                out.push(
                    p.strip_prefix(base)
                        .unwrap_or(&p)
                        .to_string_lossy()
                        .to_string(),
                );
            }
        }
    }
    let mut v = Vec::new();
    walk(root, root, &mut v);
    v.sort();
    v
}
