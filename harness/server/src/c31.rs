//! C31 — every node applies committed actions once each and in log order.
//!
//! Op: `c31 run <d1,d2,…,dn>` — the real `agdb_server` binary (hook H3, `--verif-exec`) builds a
//! `ClusterStorage` on a scratch data dir, appends n actions, commits them with ONE `commit(n)`; the
//! execution of entry i is delayed by d_i ms at the hook's delay point. Output: `order=<executed log
//! indexes in execution order>`.

use crate::srv::{build_server, verif_root};
use crate::util::{Out, Rng};
use std::io::Read;
use std::process::{Command, Stdio};
use std::time::{Duration, Instant};

pub fn generate(seed: u64, tier: &str) -> Vec<String> {
    let mut r = Rng::new(seed);
    let runs = if tier == "thorough" { 600 } else { 40 };
    let mut ops = Vec::new();
    for case in 1..=runs {
        ops.push(format!("case {case}"));
        let n = 2 + r.below(7);
        let delays: Vec<u64> = match r.below(4) {
            // plain tokio scheduling, no injected delay at all
            0 => vec![0; n],
            // adversarial: later entries are faster
            1 => (0..n).map(|i| ((n - 1 - i) * 25) as u64).collect(),
            // one slow early entry
            2 => (0..n).map(|i| if i == 0 { 60 } else { 0 }).collect(),
            _ => (0..n).map(|_| [0u64, 20, 40, 60][r.below(4)]).collect(),
        };
        let ds: Vec<String> = delays.iter().map(|d| d.to_string()).collect();
        ops.push(format!("c31 run {}", ds.join(",")));
    }
    ops
}

fn run_once(bin: &std::path::Path, dir: &std::path::Path, n: usize, delays: &str) -> Result<String, String> {
    let _ = std::fs::remove_dir_all(dir);
    std::fs::create_dir_all(dir).map_err(|e| e.to_string())?;
    let mut child = Command::new(bin)
        .args(["--verif-exec", &n.to_string(), "data"])
        .current_dir(dir)
        .env("AGDB_VERIF_DELAYS", delays)
        .stdin(Stdio::null())
        .stdout(Stdio::piped())
        .stderr(Stdio::null())
        .spawn()
        .map_err(|e| e.to_string())?;
    let start = Instant::now();
    loop {
        match child.try_wait() {
            Ok(Some(_)) => break,
            Ok(None) => {
                if start.elapsed() > Duration::from_secs(45) {
                    let _ = child.kill();
                    let _ = child.wait();
                    return Err("timeout".into());
                }
                std::thread::sleep(Duration::from_millis(10));
            }
            Err(e) => return Err(e.to_string()),
        }
    }
    let mut s = String::new();
    if let Some(mut o) = child.stdout.take() {
        let _ = o.read_to_string(&mut s);
    }
    let _ = std::fs::remove_dir_all(dir);
    Ok(s)
}

pub fn run(ops: &[String], out: &mut Out) -> Result<(), String> {
    let bin = build_server()?;
    let root = verif_root()
        .join(".work")
        .join(format!("C31-{}", std::process::id()));
    let mut hook_missing = false;
    for l in ops {
        if let Some(n) = l.strip_prefix("case ") {
            out.case = n.trim().parse().unwrap_or(0);
            out.line(l.clone(), l.clone());
            continue;
        }
        let t: Vec<&str> = l.split(' ').collect();
        if t.len() != 3 || t[0] != "c31" || t[1] != "run" {
            out.line(l.clone(), "bad-op".into());
            continue;
        }
        let delays: Vec<u64> = t[2].split(',').filter_map(|x| x.parse().ok()).collect();
        let n = delays.len();
        let sorted = delays.windows(2).all(|w| w[0] <= w[1]);
        out.note_case(l, !sorted || delays.iter().all(|d| *d == 0));
        out.count(if delays.iter().all(|d| *d == 0) {
            "schedule:no-delay"
        } else if sorted {
            "schedule:delays-in-log-order"
        } else {
            "schedule:delays-against-log-order"
        });
        if hook_missing {
            out.line(l.clone(), "nohook".into());
            continue;
        }
        let res = run_once(&bin, &root.join("run"), n, t[2]);
        let text = match res {
            Ok(s) => s,
            Err(e) => {
                if e == "timeout" && out.evaluations <= 1 {
                    // the binary has no `--verif-exec` entry (hook H3 not applied): it started a server
                    hook_missing = true;
                    out.line(l.clone(), "nohook".into());
                    continue;
                }
                out.line(l.clone(), format!("err:{e}"));
                continue;
            }
        };
        let order_line = text
            .lines()
            .find(|x| x.starts_with("order="))
            .unwrap_or("order=?")
            .to_string();
        let unexecuted = text
            .lines()
            .find(|x| x.starts_with("unexecuted="))
            .unwrap_or("unexecuted=?")
            .to_string();
        let order: Vec<u64> = order_line["order=".len()..]
            .split(',')
            .filter_map(|x| x.parse().ok())
            .collect();
        let mut once = order.clone();
        once.sort();
        let expect: Vec<u64> = (1..=n as u64).collect();
        if once != expect || unexecuted != "unexecuted=0" {
            out.violation(
                "C31/not-exactly-once/ClusterStorage::execute_log",
                "every committed entry is executed exactly once",
                &format!("{expect:?} unexecuted=0"),
                &format!("{order_line} {unexecuted}"),
            );
            out.count("oracle:not-exactly-once");
        } else if order != expect {
            out.violation(
                "C31/exec-order-inversion/ClusterStorage::execute_log",
                "committed entries are executed in increasing log index order",
                &format!("{expect:?}"),
                &order_line,
            );
            out.count("oracle:order-inversion");
        } else {
            out.count("oracle:in-order");
        }
        out.line(l.clone(), order_line);
    }
    let _ = std::fs::remove_dir_all(&root);
    Ok(())
}
