//! C25 — a server query batch is all-or-nothing and audited exactly.
//! Cases: one user + one database; generated batches (reads, writes, failing queries, `:N` result
//! references) through exec / exec_mut; after every batch the oracle probes the database state and the
//! audit endpoint: a failed batch changes nothing, a successful one appends exactly its mutating queries,
//! in order, attributed to the submitting user.

use crate::reqs::{is_mutating, Exec};
use crate::srv::Server;
use crate::util::{hex, url_seg, Out, Rng};
use serde_json::Value;

fn fp(tok: &str) -> String {
    if let Some(k) = tok.strip_prefix('n') {
        format!("InsertNodes{k}")
    } else if tok.starts_with("x:") {
        "Remove".into()
    } else if tok.starts_with("ra") {
        "RemoveAliases".into()
    } else {
        "InsertNodes1".into()
    }
}

struct Probe<'a, 'b> {
    ex: &'a mut Exec<'b>,
}

impl<'a, 'b> Probe<'a, 'b> {
    /// (node count / alias count, audit entries) through the admin API
    fn state(&mut self, owner: &str, db: &str) -> (String, Vec<String>) {
        let Some(t) = self.ex.helper_admin() else { return ("no-admin".into(), vec![]) };
        let base = format!("/api/v1/admin/db/{}/{}", url_seg(owner), url_seg(db));
        let q = "[{\"SelectNodeCount\":{}},{\"SelectAllAliases\":{}}]";
        let cnt = self
            .ex
            .srv
            .req("POST", &format!("{base}/exec"), Some(&t), Some(q))
            .map(|r| r.1)
            .unwrap_or_default();
        let state = serde_json::from_str::<Value>(&cnt)
            .ok()
            .map(|v| {
                let mut aliases: Vec<String> = v[1]["elements"]
                    .as_array()
                    .map(|a| a.iter().map(|e| e["values"].to_string()).collect())
                    .unwrap_or_default();
                aliases.sort();
                format!("nodes={} aliases={:?}", v[0]["result"], aliases)
            })
            .unwrap_or(cnt);
        let au = self
            .ex
            .srv
            .req("GET", &format!("{base}/audit"), Some(&t), None)
            .map(|r| r.1)
            .unwrap_or_default();
        let audit: Vec<String> = serde_json::from_str::<Value>(&au)
            .ok()
            .and_then(|v| v.as_array().cloned())
            .unwrap_or_default()
            .iter()
            .map(|r| {
                let q = &r["query"];
                let variant = q.as_object().and_then(|o| o.keys().next().cloned()).unwrap_or_default();
                let f = if variant == "InsertNodes" {
                    let inner = &q["InsertNodes"];
                    let c = inner["count"].as_u64().unwrap_or(0);
                    let a = inner["aliases"].as_array().map(|a| a.len() as u64).unwrap_or(0);
                    format!("InsertNodes{}", c.max(a))
                } else {
                    variant
                };
                format!("{}:{f}", r["username"].as_str().unwrap_or("?"))
            })
            .collect();
        (state, audit)
    }
}

pub fn run(ops: &[String], out: &mut Out) -> Result<(), String> {
    let mut server = Server::start("C25", 3600)?;
    let mut ex = Exec::new(&mut server);
    let mut in_case = false;
    let mut case_text = String::new();
    let mut nontrivial = false;
    // token k -> user name (harness side, from the generator's own login lines)
    let mut tok_user: std::collections::BTreeMap<String, String> = Default::default();
    for l in ops {
        if let Some(n) = l.strip_prefix("case ") {
            if in_case {
                ex.end_case();
                out.note_case(&case_text, nontrivial);
            }
            in_case = true;
            case_text.clear();
            nontrivial = false;
            tok_user.clear();
            tok_user.insert("t1".into(), "admin".into());
            out.case = n.trim().parse().unwrap_or(0);
            ex.start_case()?;
            out.line(l.clone(), l.clone());
            continue;
        }
        let t: Vec<&str> = l.split(' ').collect();
        if t.len() < 2 || t[0] != "req" {
            out.line(l.clone(), "bad-op".into());
            continue;
        }
        let t = &t[1..];
        case_text.push_str(l);
        case_text.push('\n');
        out.count(&format!("route:{}", t[0]));
        let is_batch = matches!(t[0], "dbexec" | "dbexecmut" | "adbexec" | "adbexecmut") && t.len() >= 5;
        if !is_batch {
            let tok_before = ex.next_tok;
            let (st, line) = ex.exec(t);
            if t[0] == "login" && st == 200 {
                if let Some(u) = crate::reqs::name(t[1]) {
                    tok_user.insert(format!("t{tok_before}"), u);
                }
            }
            out.line(l.clone(), line);
            continue;
        }
        let owner = crate::reqs::name(t[2]).unwrap_or_default();
        let db = crate::reqs::name(t[3]).unwrap_or_default();
        let (before, audit_before) = Probe { ex: &mut ex }.state(&owner, &db);
        let (st, line) = ex.exec(t);
        let (after, audit_after) = Probe { ex: &mut ex }.state(&owner, &db);
        out.count(&format!("status:{st}"));
        let toks: Vec<&str> = if t[4] == "-" { vec![] } else { t[4].split(',').collect() };
        let muts: Vec<&str> = toks.iter().copied().filter(|q| is_mutating(q)).collect();
        let site = if t[0].ends_with("mut") { "UserDb::exec_mut" } else { "UserDb::exec" };
        if st != 200 {
            if !muts.is_empty() && toks.iter().position(|q| is_mutating(q)) != Some(toks.len() - 1) {
                nontrivial = true;
            }
            out.count("oracle:failed-batch");
            if before != after {
                // 470 = a query failed inside the transaction; any other error status comes from outside
                // the transaction (e.g. the audit file could not be written after the commit)
                let key = if st == 470 {
                    format!("C25/partial-batch-visible/{site}")
                } else {
                    "C25/applied-batch-reported-failed-and-not-audited/DbPool::exec_mut".to_string()
                };
                out.violation(
                    &key,
                    "a batch answered with an error leaves no visible change (and applied batches are audited)",
                    &before,
                    &format!("status {st}: {after}"),
                );
            }
            if audit_before != audit_after {
                out.violation(
                    &format!("C25/failed-batch-audited/{site}"),
                    "the audit log lists only applied batches",
                    &format!("{audit_before:?}"),
                    &format!("{audit_after:?}"),
                );
            }
        } else {
            out.count("oracle:applied-batch");
            let user = if t[0].starts_with('a') {
                "admin".to_string()
            } else {
                tok_user.get(t[1]).cloned().unwrap_or_default()
            };
            let mut expect = audit_before.clone();
            if t[0].ends_with("mut") {
                expect.extend(muts.iter().map(|q| format!("{user}:{}", fp(q))));
            }
            if expect != audit_after {
                out.violation(
                    &format!("C25/audit-mismatch/{site}"),
                    "audit = mutating queries of exactly the applied batches, in order, with the submitting user",
                    &format!("{expect:?}"),
                    &format!("{audit_after:?}"),
                );
            }
            if muts.is_empty() && before != after {
                out.violation(
                    &format!("C25/read-batch-changed-state/{site}"),
                    "a batch without mutating queries changes nothing",
                    &before,
                    &after,
                );
            }
        }
        out.line(l.clone(), line);
    }
    if in_case {
        ex.end_case();
        out.note_case(&case_text, nontrivial);
    }
    Ok(())
}

pub fn generate(seed: u64, tier: &str) -> Vec<String> {
    let mut r = Rng::new(seed ^ 0x25);
    let ncases = if tier == "thorough" { 500 } else { 40 };
    let mut ops = Vec::new();
    let h = |s: &str| hex(s.as_bytes());
    let aliases = ["k1", "k2", "k3"];
    for case in 1..=ncases {
        ops.push(format!("case {case}"));
        let user = "bob";
        ops.push(format!("req auseradd t1 {} {}", h(user), h("password123")));
        ops.push(format!("req login {} {}", h(user), h("password123")));
        let kind = ["memory", "mapped", "file"][r.below(3)];
        ops.push(format!("req dbadd t2 {} {} {kind}", h(user), h("db")));
        let nb = 6 + r.below(if tier == "thorough" { 14 } else { 8 });
        for _ in 0..nb {
            let nq = 1 + r.below(5);
            let mut qs: Vec<String> = Vec::new();
            for i in 0..nq {
                let a = aliases[r.below(3)];
                let refr = |r: &mut Rng| -> String {
                    match r.below(10) {
                        0..=3 => format!("@{}", h(aliases[r.below(3)])),
                        4..=8 if i > 0 => format!("#{}", r.below(i)),
                        9 => format!("#{}", i + r.below(3)), // out of bounds
                        _ => format!("@{}", h(a)),
                    }
                };
                let q = match r.below(14) {
                    0..=2 => format!("n{}", 1 + r.below(3)),
                    3..=4 => format!("a{}", h(a)),
                    5..=6 => format!("x:{}", refr(&mut r)),
                    7 => format!("ra{}", h(a)),
                    8..=9 => format!("s:{}", refr(&mut r)),
                    10 => format!("sa:{}", refr(&mut r)),
                    _ => "c".to_string(),
                };
                qs.push(q);
            }
            // bias: a mutation first and a query that is likely to fail last
            if r.chance(1, 3) {
                qs.insert(0, format!("n{}", 1 + r.below(2)));
                qs.push(["s:@7a7a", "x:#9", "sa:#0", "x:@7a7a"][r.below(4)].to_string());
            }
            let route = match r.below(10) {
                0 => "dbexec",
                1 => "adbexecmut",
                _ => "dbexecmut",
            };
            let cred = if route.starts_with('a') { "t1" } else { "t2" };
            ops.push(format!("req {route} {cred} {} {} {}", h(user), h("db"), qs.join(",")));
            if r.chance(1, 4) {
                ops.push(format!("req dbaudit t2 {} {}", h(user), h("db")));
            }
            if r.chance(1, 5) {
                ops.push(format!("req dbexec t2 {} {} c", h(user), h("db")));
            }
        }
        ops.push(format!("req dbaudit t2 {} {}", h(user), h("db")));
    }
    ops
}
