//! Detects whether the agdb tree this harness is built against carries the optional hook
//! `DbValue::verif_store_db_value` / `verif_load_db_value` (proposed_hooks/codec-value-index.diff).
//! With it the C12 stream also ties the 16-byte `DbValueIndex` layout to the model byte for byte
//! (`vrt` / `vld` ops); without it those ops are simply not generated.
fn main() {
    println!("cargo:rustc-check-cfg=cfg(codec_vidx)");
    println!("cargo:rerun-if-changed=Cargo.toml");
    let manifest = std::fs::read_to_string("Cargo.toml").unwrap_or_default();
    let mut repo_agdb = None;
    for line in manifest.lines() {
        let l = line.trim();
        if l.starts_with("agdb") && l.contains("path") {
            if let Some(i) = l.find("path") {
                let rest = &l[i..];
                if let Some(a) = rest.find('"') {
                    if let Some(b) = rest[a + 1..].find('"') {
                        repo_agdb = Some(rest[a + 1..a + 1 + b].to_string());
                    }
                }
            }
        }
    }
    if let Some(p) = repo_agdb {
        let f = format!("{p}/src/db/db_value.rs");
        println!("cargo:rerun-if-changed={f}");
        if std::fs::read_to_string(&f).map(|s| s.contains("fn verif_store_db_value")).unwrap_or(false) {
            println!("cargo:rustc-cfg=codec_vidx");
        }
    }
}
