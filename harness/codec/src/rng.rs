//! splitmix64-seeded xoshiro256** (no external crates).

pub struct Rng {
    s: [u64; 4],
}

fn splitmix64(x: &mut u64) -> u64 {
    *x = x.wrapping_add(0x9e37_79b9_7f4a_7c15);
    let mut z = *x;
    z = (z ^ (z >> 30)).wrapping_mul(0xbf58_476d_1ce4_e5b9);
    z = (z ^ (z >> 27)).wrapping_mul(0x94d0_49bb_1331_11eb);
    z ^ (z >> 31)
}

impl Rng {
    pub fn new(seed: u64) -> Self {
        let mut x = seed;
        let s = [
            splitmix64(&mut x),
            splitmix64(&mut x),
            splitmix64(&mut x),
            splitmix64(&mut x),
        ];
        Rng { s }
    }

    pub fn next(&mut self) -> u64 {
        let r = self.s[1].wrapping_mul(5).rotate_left(7).wrapping_mul(9);
        let t = self.s[1] << 17;
        self.s[2] ^= self.s[0];
        self.s[3] ^= self.s[1];
        self.s[1] ^= self.s[2];
        self.s[0] ^= self.s[3];
        self.s[2] ^= t;
        self.s[3] = self.s[3].rotate_left(45);
        r
    }

    /// uniform in 0..n (n > 0)
    pub fn below(&mut self, n: u64) -> u64 {
        if n <= 1 {
            return 0;
        }
        // rejection sampling to stay unbiased
        let zone = u64::MAX - (u64::MAX % n);
        loop {
            let v = self.next();
            if v < zone {
                return v % n;
            }
        }
    }

    pub fn usize_below(&mut self, n: usize) -> usize {
        self.below(n as u64) as usize
    }

    /// uniform in lo..=hi
    pub fn range(&mut self, lo: u64, hi: u64) -> u64 {
        lo + self.below(hi - lo + 1)
    }

    /// true with probability num/den
    pub fn chance(&mut self, num: u64, den: u64) -> bool {
        self.below(den) < num
    }

    pub fn pick<'a, T>(&mut self, xs: &'a [T]) -> &'a T {
        &xs[self.usize_below(xs.len())]
    }

    pub fn byte(&mut self) -> u8 {
        (self.next() >> 56) as u8
    }

    pub fn bytes(&mut self, n: usize) -> Vec<u8> {
        (0..n).map(|_| self.byte()).collect()
    }
}
