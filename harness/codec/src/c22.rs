//! C22: user types stored through `#[derive(DbType)]` / `#[derive(DbElement)]` read back unchanged
//! (`insert().element(&v)` / `insert().elements(&[..])`, `select().elements::<T>().ids(..)`,
//! `try_into::<T>()` / `TryInto::<Vec<T>>`), and inserting with `db_id: Some(existing)` updates
//! exactly that element. DbMemory only, public API only.
//!
//! Ops: `tdv`, `keys`, `fde`, `ins`, `insb`, `all` (see notes/codec.md for the wire protocol).

use crate::Ctx;
use crate::Stream;
use crate::Tier;
use crate::guard::Fail;
use crate::guard::guarded;
use crate::rng::Rng;
use crate::types::Point;
use crate::types::Status;
use crate::types::Tv;
use crate::types::gen_string;
use crate::val::V;
use agdb::DbElement;
use agdb::DbError;
use agdb::DbF64;
use agdb::DbId;
use agdb::DbKeyValue;
use agdb::DbMemory;
use agdb::DbType;
use agdb::DbValue;
use agdb::QueryBuilder;
use agdb::QueryId;
use agdb::QueryResult;
use std::collections::BTreeMap;
use std::collections::HashMap;
use std::net::IpAddr;
use std::time::SystemTime;

// ---------------------------------------------------------------- user value tree

/// `<uval>` and its parts. `N` = None (option or id), `S<int>` = id, `S<value>` = Some(value),
/// `{..}` = record (user type, flattened type or a custom struct value), anything else = C20 value.
#[derive(Clone, Debug, PartialEq)]
pub enum UV {
    Val(V),
    Non,
    Som(Box<UV>),
    Id(i64),
    Rec(Vec<UV>),
}

impl UV {
    pub fn text(&self) -> String {
        let mut s = String::new();
        self.print(&mut s);
        s
    }

    fn print(&self, out: &mut String) {
        match self {
            UV::Val(v) => v.print(out),
            UV::Non => out.push('N'),
            UV::Som(b) => {
                out.push('S');
                b.print(out);
            }
            UV::Id(i) => {
                out.push('S');
                out.push_str(&i.to_string());
            }
            UV::Rec(fs) => {
                out.push('{');
                for (i, f) in fs.iter().enumerate() {
                    if i > 0 {
                        out.push(',');
                    }
                    f.print(out);
                }
                out.push('}');
            }
        }
    }

    /// `s` must be ASCII
    pub fn parse(s: &str) -> Option<UV> {
        let mut i = 0;
        let r = UV::parse_at(s, &mut i)?;
        if i == s.len() { Some(r) } else { None }
    }

    fn parse_at(s: &str, i: &mut usize) -> Option<UV> {
        let b = s.as_bytes();
        match *b.get(*i)? {
            b'N' => {
                *i += 1;
                Some(UV::Non)
            }
            b'S' => {
                *i += 1;
                let c = *b.get(*i)?;
                if c == b'-' || c.is_ascii_digit() {
                    let st = *i;
                    if c == b'-' {
                        *i += 1;
                    }
                    let ds = *i;
                    while b.get(*i).is_some_and(|c| c.is_ascii_digit()) {
                        *i += 1;
                    }
                    // canonical decimal: at least one digit, no leading zeros, no "-0"
                    if *i == ds || (b[ds] == b'0' && (*i - ds > 1 || c == b'-')) {
                        return None;
                    }
                    Some(UV::Id(s[st..*i].parse().ok()?))
                } else {
                    Some(UV::Som(Box::new(UV::parse_at(s, i)?)))
                }
            }
            b'{' => {
                *i += 1;
                let mut fs = vec![];
                if b.get(*i) == Some(&b'}') {
                    *i += 1;
                    return Some(UV::Rec(fs));
                }
                loop {
                    fs.push(UV::parse_at(s, i)?);
                    match *b.get(*i)? {
                        b',' => *i += 1,
                        b'}' => {
                            *i += 1;
                            return Some(UV::Rec(fs));
                        }
                        _ => return None,
                    }
                }
            }
            _ => {
                let (v, n) = V::parse_prefix(&s[*i..])?;
                *i += n;
                Some(UV::Val(v))
            }
        }
    }

    /// any field that is not the default of its kind (ids do not count)
    fn has_nondefault(&self) -> bool {
        match self {
            UV::Val(v) => !v.is_trivial(),
            UV::Non | UV::Id(_) => false,
            UV::Som(_) => true,
            UV::Rec(fs) => fs.iter().any(|f| f.has_nondefault()),
        }
    }
}

/// a plain field value as C20 value (a custom struct value parses as `Rec`)
fn uv_val(uv: &UV) -> Option<V> {
    match uv {
        UV::Val(v) => Some(v.clone()),
        UV::Rec(fs) => Some(V::S(fs.iter().map(uv_val).collect::<Option<Vec<V>>>()?)),
        _ => None,
    }
}

fn dbv_text(v: &DbValue) -> String {
    Tv::to_v(v).text()
}

fn kvs_text(kvs: &[DbKeyValue]) -> String {
    let parts: Vec<String> = kvs.iter().map(|kv| format!("{}={}", dbv_text(&kv.key), dbv_text(&kv.value))).collect();
    format!("[{}]", parts.join(","))
}

fn parse_dbv_at(s: &str, i: &mut usize) -> Option<DbValue> {
    let (v, n) = V::parse_prefix(&s[*i..])?;
    *i += n;
    <DbValue as Tv>::from_v(&v)
}

/// `[<dbv>=<dbv>,…]`
fn parse_kvs(s: &str) -> Option<Vec<DbKeyValue>> {
    let b = s.as_bytes();
    if b.first() != Some(&b'[') {
        return None;
    }
    let mut i = 1;
    let mut out = vec![];
    if b.get(i) == Some(&b']') {
        return if s.len() == 2 { Some(out) } else { None };
    }
    loop {
        let key = parse_dbv_at(s, &mut i)?;
        if b.get(i) != Some(&b'=') {
            return None;
        }
        i += 1;
        let value = parse_dbv_at(s, &mut i)?;
        out.push(DbKeyValue { key, value });
        match *b.get(i)? {
            b',' => i += 1,
            b']' => return if i + 1 == s.len() { Some(out) } else { None },
            _ => return None,
        }
    }
}

// ---------------------------------------------------------------- type descriptor

#[derive(Clone, Debug)]
pub enum FieldD {
    P { key: String, kind: String },
    O { key: String, kind: String },
    F(TDesc),
    S { kind: String, default: V },
    SO { kind: String },
    IdO,
    IdQ,
    IdD,
}

#[derive(Clone, Debug)]
pub struct TDesc {
    pub fields: Vec<FieldD>,
    /// Some(type name) when the type derives DbElement
    pub element: Option<&'static str>,
}

impl TDesc {
    pub fn text(&self) -> String {
        let fs: Vec<String> = self
            .fields
            .iter()
            .map(|f| match f {
                FieldD::P { key, kind } => format!("p:{key}:{kind}"),
                FieldD::O { key, kind } => format!("o:{key}:{kind}"),
                FieldD::F(d) => format!("f:{}", d.text()),
                FieldD::S { kind, .. } => format!("s:{kind}"),
                FieldD::SO { kind } => format!("so:{kind}"),
                FieldD::IdO => "i:o".to_string(),
                FieldD::IdQ => "i:q".to_string(),
                FieldD::IdD => "i:d".to_string(),
            })
            .collect();
        match self.element {
            Some(n) => format!("T({})@{n}", fs.join(";")),
            None => format!("T({})", fs.join(";")),
        }
    }

    fn has_id(&self) -> bool {
        self.fields.iter().any(|f| matches!(f, FieldD::IdO | FieldD::IdQ | FieldD::IdD))
    }

    /// the value's own db_id (None when absent / `N`)
    fn id_of(&self, uv: &UV) -> Option<i64> {
        let UV::Rec(fs) = uv else { return None };
        for (d, f) in self.fields.iter().zip(fs) {
            if matches!(d, FieldD::IdO | FieldD::IdQ | FieldD::IdD) {
                return if let UV::Id(i) = f { Some(*i) } else { None };
            }
        }
        None
    }

    /// what reading element `id` back must give for a freshly inserted `uv`:
    /// db_id := Some(id), skipped fields := Default / None
    fn expected(&self, uv: &UV, id: i64) -> UV {
        let UV::Rec(fs) = uv else { return uv.clone() };
        UV::Rec(
            self.fields
                .iter()
                .zip(fs)
                .map(|(d, f)| match d {
                    FieldD::IdO | FieldD::IdQ | FieldD::IdD => UV::Id(id),
                    FieldD::S { default, .. } => UV::Val(default.clone()),
                    FieldD::SO { .. } => UV::Non,
                    FieldD::F(n) => n.expected(f, id),
                    _ => f.clone(),
                })
                .collect(),
        )
    }

    /// update oracle: every plain field and every `Some` option field of `new` must be what is stored
    fn update_mismatches(&self, new: &UV, stored: &UV, path: &str, out: &mut Vec<String>) {
        let (UV::Rec(n), UV::Rec(s)) = (new, stored) else {
            out.push(format!("{path}: not a record"));
            return;
        };
        if n.len() != self.fields.len() || s.len() != self.fields.len() {
            out.push(format!("{path}: field count"));
            return;
        }
        for (i, d) in self.fields.iter().enumerate() {
            match d {
                FieldD::P { key, .. } => {
                    if n[i].text() != s[i].text() {
                        out.push(format!("{path}{key}: new {} stored {}", n[i].text(), s[i].text()));
                    }
                }
                FieldD::O { key, .. } => {
                    if matches!(n[i], UV::Som(_)) && n[i].text() != s[i].text() {
                        out.push(format!("{path}{key}: new {} stored {}", n[i].text(), s[i].text()));
                    }
                }
                FieldD::F(nd) => nd.update_mismatches(&n[i], &s[i], &format!("{path}flatten."), out),
                _ => {}
            }
        }
    }

    /// a raw f64 NaN anywhere (derived PartialEq is not reflexive there)
    fn has_nan(&self, uv: &UV) -> bool {
        let UV::Rec(fs) = uv else { return false };
        let nan = |v: &V| matches!(v, V::N(b) if f64::from_bits(*b).is_nan());
        self.fields.iter().zip(fs).any(|(d, f)| match d {
            FieldD::P { kind, .. } | FieldD::O { kind, .. } => {
                let inner = match f {
                    UV::Som(b) => b.as_ref(),
                    other => other,
                };
                match (kind.as_str(), inner) {
                    ("f64", UV::Val(v)) => nan(v),
                    ("vf64", UV::Val(V::L(vs))) => vs.iter().any(nan),
                    _ => false,
                }
            }
            FieldD::F(n) => n.has_nan(f),
            _ => false,
        })
    }
}

// ---------------------------------------------------------------- field kinds

pub trait Kind: Sized {
    fn kind() -> String;
    fn k_to_v(&self) -> V;
    fn k_from_v(v: &V) -> Option<Self>;
    fn k_gen(rng: &mut Rng) -> Self;
}

macro_rules! kind_tv {
    ($t:ty, $name:expr) => {
        impl Kind for $t {
            fn kind() -> String {
                $name.to_string()
            }
            fn k_to_v(&self) -> V {
                Tv::to_v(self)
            }
            fn k_from_v(v: &V) -> Option<Self> {
                <$t as Tv>::from_v(v)
            }
            fn k_gen(rng: &mut Rng) -> Self {
                <$t as Tv>::generate(rng, 1)
            }
        }
    };
}

kind_tv!(u64, "u64");
kind_tv!(i64, "i64");
kind_tv!(f64, "f64");
kind_tv!(String, "str");
kind_tv!(bool, "bool");
kind_tv!(Vec<u8>, "bytes");
kind_tv!(Vec<i64>, "vi64");
kind_tv!(Vec<u64>, "vu64");
kind_tv!(Vec<f64>, "vf64");
kind_tv!(Vec<String>, "vstr");
kind_tv!(Vec<bool>, "vbool");
kind_tv!(IpAddr, "ip");
kind_tv!(SystemTime, format!("c[{}]", <SystemTime as Tv>::schema()));
kind_tv!(Vec<SystemTime>, format!("vc[{}]", <SystemTime as Tv>::schema()));
kind_tv!(Status, format!("c[{}]", <Status as Tv>::schema()));
kind_tv!(Vec<Status>, format!("vc[{}]", <Status as Tv>::schema()));
kind_tv!(Point, format!("c[{}]", <Point as Tv>::schema()));
kind_tv!(Vec<Point>, format!("vc[{}]", <Point as Tv>::schema()));

impl Kind for i32 {
    fn kind() -> String {
        "i32".to_string()
    }
    fn k_to_v(&self) -> V {
        V::N((*self as i64) as u64)
    }
    fn k_from_v(v: &V) -> Option<Self> {
        if let V::N(n) = v { i32::try_from(*n as i64).ok() } else { None }
    }
    fn k_gen(rng: &mut Rng) -> Self {
        match rng.below(3) {
            0 => *rng.pick(&[0, 1, -1, i32::MIN, i32::MAX, i32::MIN + 1, 255, -256]),
            1 => rng.below(1000) as i32 - 500,
            _ => (rng.next() >> 32) as u32 as i32,
        }
    }
}

impl Kind for u32 {
    fn kind() -> String {
        "u32".to_string()
    }
    fn k_to_v(&self) -> V {
        V::N(*self as u64)
    }
    fn k_from_v(v: &V) -> Option<Self> {
        if let V::N(n) = v { u32::try_from(*n).ok() } else { None }
    }
    fn k_gen(rng: &mut Rng) -> Self {
        match rng.below(3) {
            0 => *rng.pick(&[0, 1, u32::MAX, u32::MAX - 1, 1 << 31, (1 << 31) - 1, 255, 65536]),
            1 => rng.below(1000) as u32,
            _ => (rng.next() >> 32) as u32,
        }
    }
}

// ---------------------------------------------------------------- user types

pub trait UserT: DbType<ValueType = Self> + TryFrom<QueryResult, Error = DbError> + Sized + Clone + PartialEq + std::fmt::Debug + 'static {
    fn desc() -> TDesc;
    fn to_uv(&self) -> UV;
    fn from_uv(uv: &UV) -> Option<Self>;
    /// `id` = the db_id to put into the value (None: a new element)
    fn generate(rng: &mut Rng, id: Option<i64>) -> Self;
}

/// `user_type!(Type, element-name-or-None, [(field: role ..), ..])` with roles
/// `io` / `iq` / `id` (db_id: Option<DbId> / Option<QueryId> / DbId), `p Type, "key"`, `o Type, "key"`
/// (field is Option<Type>), `f Type` (flatten), `s Type` / `so Type` (skip / skip Option<Type>).
macro_rules! user_type {
    (@desc io) => { FieldD::IdO };
    (@desc iq) => { FieldD::IdQ };
    (@desc id) => { FieldD::IdD };
    (@desc p $t:ty, $k:literal) => { FieldD::P { key: $k.to_string(), kind: <$t as Kind>::kind() } };
    (@desc o $t:ty, $k:literal) => { FieldD::O { key: $k.to_string(), kind: <$t as Kind>::kind() } };
    (@desc f $t:ty) => { FieldD::F(TDesc { element: None, ..<$t as UserT>::desc() }) };
    (@desc s $t:ty) => { FieldD::S { kind: <$t as Kind>::kind(), default: <$t as Kind>::k_to_v(&<$t as Default>::default()) } };
    (@desc so $t:ty) => { FieldD::SO { kind: <$t as Kind>::kind() } };

    (@touv $e:expr, io) => { match $e { Some(d) => UV::Id(d.0), None => UV::Non } };
    (@touv $e:expr, iq) => { match $e { Some(QueryId::Id(d)) => UV::Id(d.0), _ => UV::Non } };
    (@touv $e:expr, id) => { UV::Id($e.0) };
    (@touv $e:expr, p $t:ty, $k:literal) => { UV::Val(<$t as Kind>::k_to_v($e)) };
    (@touv $e:expr, o $t:ty, $k:literal) => { match $e { Some(x) => UV::Som(Box::new(UV::Val(<$t as Kind>::k_to_v(x)))), None => UV::Non } };
    (@touv $e:expr, f $t:ty) => { <$t as UserT>::to_uv($e) };
    (@touv $e:expr, s $t:ty) => { UV::Val(<$t as Kind>::k_to_v($e)) };
    (@touv $e:expr, so $t:ty) => { match $e { Some(x) => UV::Som(Box::new(UV::Val(<$t as Kind>::k_to_v(x)))), None => UV::Non } };

    (@fromuv $it:ident, io) => { match $it.next()? { UV::Non => None, UV::Id(i) => Some(DbId(*i)), _ => return None } };
    (@fromuv $it:ident, iq) => { match $it.next()? { UV::Non => None, UV::Id(i) => Some(QueryId::Id(DbId(*i))), _ => return None } };
    (@fromuv $it:ident, id) => { match $it.next()? { UV::Id(i) => DbId(*i), _ => return None } };
    (@fromuv $it:ident, p $t:ty, $k:literal) => { <$t as Kind>::k_from_v(&uv_val($it.next()?)?)? };
    (@fromuv $it:ident, o $t:ty, $k:literal) => { match $it.next()? { UV::Non => None, UV::Som(b) => Some(<$t as Kind>::k_from_v(&uv_val(b)?)?), _ => return None } };
    (@fromuv $it:ident, f $t:ty) => { <$t as UserT>::from_uv($it.next()?)? };
    (@fromuv $it:ident, s $t:ty) => { <$t as Kind>::k_from_v(&uv_val($it.next()?)?)? };
    (@fromuv $it:ident, so $t:ty) => { match $it.next()? { UV::Non => None, UV::Som(b) => Some(<$t as Kind>::k_from_v(&uv_val(b)?)?), _ => return None } };

    (@gen $rng:ident, $id:ident, io) => { $id.map(DbId) };
    (@gen $rng:ident, $id:ident, iq) => { $id.map(|i| QueryId::Id(DbId(i))) };
    (@gen $rng:ident, $id:ident, id) => { DbId($id.unwrap_or(0)) };
    (@gen $rng:ident, $id:ident, p $t:ty, $k:literal) => { <$t as Kind>::k_gen($rng) };
    (@gen $rng:ident, $id:ident, o $t:ty, $k:literal) => { if $rng.chance(1, 2) { Some(<$t as Kind>::k_gen($rng)) } else { None } };
    (@gen $rng:ident, $id:ident, f $t:ty) => { <$t as UserT>::generate($rng, None) };
    (@gen $rng:ident, $id:ident, s $t:ty) => { if $rng.chance(1, 3) { <$t as Default>::default() } else { <$t as Kind>::k_gen($rng) } };
    (@gen $rng:ident, $id:ident, so $t:ty) => { if $rng.chance(1, 2) { Some(<$t as Kind>::k_gen($rng)) } else { None } };

    ($name:ident, $elem:expr, [ $( ($f:ident : $($spec:tt)*) ),* $(,)? ]) => {
        impl UserT for $name {
            fn desc() -> TDesc {
                TDesc { fields: vec![$(user_type!(@desc $($spec)*)),*], element: $elem }
            }
            fn to_uv(&self) -> UV {
                UV::Rec(vec![$(user_type!(@touv &self.$f, $($spec)*)),*])
            }
            #[allow(unused_mut, unused_variables)]
            fn from_uv(uv: &UV) -> Option<Self> {
                let UV::Rec(items) = uv else { return None };
                let mut it = items.iter();
                let r = Self { $($f: user_type!(@fromuv it, $($spec)*)),* };
                if it.next().is_some() {
                    return None;
                }
                Some(r)
            }
            #[allow(unused_variables)]
            fn generate(rng: &mut Rng, id: Option<i64>) -> Self {
                Self { $($f: user_type!(@gen rng, id, $($spec)*)),* }
            }
        }
    };
}

#[derive(Debug, Clone, PartialEq, DbType)]
pub struct Plain {
    a: u64,
    b: i64,
    c: f64,
    d: String,
    e: bool,
}
user_type!(Plain, None, [(a: p u64, "a"), (b: p i64, "b"), (c: p f64, "c"), (d: p String, "d"), (e: p bool, "e")]);

#[derive(Debug, Clone, PartialEq, DbType)]
pub struct WithId {
    db_id: Option<DbId>,
    name: String,
    n: i64,
}
user_type!(WithId, None, [(db_id: io), (name: p String, "name"), (n: p i64, "n")]);

#[derive(Debug, Clone, PartialEq, DbType)]
pub struct WithQId {
    db_id: Option<QueryId>,
    v: Vec<i64>,
}
user_type!(WithQId, None, [(db_id: iq), (v: p Vec<i64>, "v")]);

#[derive(Debug, Clone, PartialEq, DbType)]
pub struct FixedId {
    db_id: DbId,
    s: String,
}
user_type!(FixedId, None, [(db_id: id), (s: p String, "s")]);

#[derive(Debug, Clone, PartialEq, DbType)]
pub struct Vecs {
    vi: Vec<i64>,
    vu: Vec<u64>,
    vf: Vec<f64>,
    vs: Vec<String>,
    vb: Vec<bool>,
    by: Vec<u8>,
}
user_type!(Vecs, None, [
    (vi: p Vec<i64>, "vi"),
    (vu: p Vec<u64>, "vu"),
    (vf: p Vec<f64>, "vf"),
    (vs: p Vec<String>, "vs"),
    (vb: p Vec<bool>, "vb"),
    (by: p Vec<u8>, "by"),
]);

#[derive(Debug, Clone, PartialEq, DbType)]
pub struct Opts {
    db_id: Option<DbId>,
    a: Option<u64>,
    b: Option<String>,
    c: Option<Vec<i64>>,
    d: i64,
}
user_type!(Opts, None, [(db_id: io), (a: o u64, "a"), (b: o String, "b"), (c: o Vec<i64>, "c"), (d: p i64, "d")]);

#[derive(Debug, Clone, PartialEq, DbType)]
pub struct Small {
    x: i32,
    y: u32,
}
user_type!(Small, None, [(x: p i32, "x"), (y: p u32, "y")]);

#[derive(Debug, Clone, PartialEq, DbType)]
pub struct WithCustom {
    db_id: Option<DbId>,
    st: Status,
    p: Point,
    sts: Vec<Status>,
    op: Option<Status>,
    pts: Vec<Point>,
}
user_type!(WithCustom, None, [
    (db_id: io),
    (st: p Status, "st"),
    (p: p Point, "p"),
    (sts: p Vec<Status>, "sts"),
    (op: o Status, "op"),
    (pts: p Vec<Point>, "pts"),
]);

#[derive(Debug, Clone, PartialEq, DbType)]
pub struct Inner {
    u: u64,
    w: String,
}
user_type!(Inner, None, [(u: p u64, "u"), (w: p String, "w")]);

#[derive(Debug, Clone, PartialEq, DbType)]
pub struct Outer {
    db_id: Option<DbId>,
    a: String,
    #[agdb(flatten)]
    inner: Inner,
    z: i64,
}
user_type!(Outer, None, [(db_id: io), (a: p String, "a"), (inner: f Inner), (z: p i64, "z")]);

#[derive(Debug, Clone, PartialEq, DbType)]
pub struct InnerOpt {
    b: u64,
    c: Option<u64>,
}
user_type!(InnerOpt, None, [(b: p u64, "b"), (c: o u64, "c")]);

#[derive(Debug, Clone, PartialEq, DbType)]
pub struct OuterNoOpt {
    a: u64,
    #[agdb(flatten)]
    n: InnerOpt,
}
user_type!(OuterNoOpt, None, [(a: p u64, "a"), (n: f InnerOpt)]);

#[derive(Debug, Clone, PartialEq, DbType)]
pub struct OuterNoOpt2 {
    k: String,
    #[agdb(flatten)]
    n: Inner,
}
user_type!(OuterNoOpt2, None, [(k: p String, "k"), (n: f Inner)]);

#[derive(Debug, Clone, PartialEq, DbType)]
pub struct Outer2 {
    #[agdb(flatten)]
    o: OuterNoOpt2,
    m: u64,
}
user_type!(Outer2, None, [(o: f OuterNoOpt2), (m: p u64, "m")]);

#[derive(Debug, Clone, PartialEq, DbType)]
pub struct SkipRen {
    db_id: Option<DbId>,
    #[agdb(rename = "renamed")]
    a: u64,
    #[agdb(skip)]
    s: String,
    #[agdb(skip)]
    os: Option<u64>,
    b: String,
}
user_type!(SkipRen, None, [(db_id: io), (a: p u64, "renamed"), (s: s String), (os: so u64), (b: p String, "b")]);

/// renamed fields of every kind the macro treats differently: Option (to_db_values has its own branch for options), vector, scalar
#[derive(Debug, Clone, PartialEq, DbType)]
pub struct RenOpt {
    db_id: Option<DbId>,
    #[agdb(rename = "nick")]
    nickname: Option<String>,
    #[agdb(rename = "cnt")]
    count: Option<u64>,
    #[agdb(rename = "v")]
    vals: Vec<i64>,
    name: String,
    #[agdb(rename = "name2")]
    other: String,
}
user_type!(RenOpt, None, [(db_id: io), (nickname: o String, "nick"), (count: o u64, "cnt"), (vals: p Vec<i64>, "v"), (name: p String, "name"), (other: p String, "name2")]);

#[derive(Debug, Clone, PartialEq, DbElement)]
pub struct Elem {
    db_id: Option<DbId>,
    title: String,
    count: u64,
}
user_type!(Elem, Some("Elem"), [(db_id: io), (title: p String, "title"), (count: p u64, "count")]);

#[derive(Debug, Clone, PartialEq, DbType)]
pub struct StdTypes {
    t: SystemTime,
    a: IpAddr,
    ts: Vec<SystemTime>,
}
user_type!(StdTypes, None, [(t: p SystemTime, "t"), (a: p IpAddr, "a"), (ts: p Vec<SystemTime>, "ts")]);

#[derive(Debug, Clone, PartialEq, DbType)]
pub struct Empty {}
user_type!(Empty, None, []);

// ---------------------------------------------------------------- type-erased drivers

type G<T> = Result<Result<T, String>, Fail>;

pub struct UDriver {
    name: &'static str,
    tdesc: String,
    desc: TDesc,
    tdv: fn(&UV) -> Option<Result<Vec<DbKeyValue>, Fail>>,
    keys: fn() -> Result<Vec<DbValue>, Fail>,
    fde: fn(i64, Vec<DbKeyValue>) -> G<UV>,
    /// `insert().element(&v)`; returns the element's id
    ins_one: fn(&mut DbMemory, &UV) -> Option<G<i64>>,
    /// `insert().elements(&[..])`; returns the ids in order
    ins_batch: fn(&mut DbMemory, &[UV]) -> Option<G<Vec<i64>>>,
    /// `select().elements::<T>().ids(id)` + `try_into::<T>()`; with `expect`: also `PartialEq` against it
    read_one: fn(&DbMemory, i64, Option<&UV>) -> G<(UV, Option<bool>)>,
    /// `select().elements::<T>().ids(ids)` + `TryInto::<Vec<T>>`
    read_many: fn(&DbMemory, &[i64]) -> G<Vec<UV>>,
    generate: fn(&mut Rng, Option<i64>) -> UV,
}

fn kind_of_err(e: DbError) -> String {
    format!("{:?}", e.ty)
}

fn flat<T>(r: Result<Result<T, DbError>, Fail>) -> G<T> {
    r.map(|x| x.map_err(kind_of_err))
}

fn own_id<T: UserT>(v: &T) -> Option<i64> {
    match v.db_id() {
        Some(QueryId::Id(DbId(i))) if i != 0 => Some(i),
        _ => None,
    }
}

fn no_new_element() -> DbError {
    DbError::db(agdb::DbErrorType::NotEnoughData, "harness: insert returned no new element")
}

fn tdv_impl<T: UserT>(uv: &UV) -> Option<Result<Vec<DbKeyValue>, Fail>> {
    let v = T::from_uv(uv)?;
    Some(guarded(|| v.to_db_values()))
}

fn keys_impl<T: UserT>() -> Result<Vec<DbValue>, Fail> {
    guarded(|| T::db_keys())
}

fn fde_impl<T: UserT>(id: i64, values: Vec<DbKeyValue>) -> G<UV> {
    let element = DbElement { id: DbId(id), from: DbId(0), to: DbId(0), values };
    flat(guarded(|| T::from_db_element(&element).map(|v| v.to_uv())))
}

fn ins_one_impl<T: UserT>(db: &mut DbMemory, uv: &UV) -> Option<G<i64>> {
    let v = T::from_uv(uv)?;
    Some(flat(guarded(|| {
        let r = db.exec_mut(QueryBuilder::insert().element(&v).query())?;
        match own_id(&v) {
            Some(i) => Ok(i),
            None => r.elements.first().map(|e| e.id.0).ok_or_else(no_new_element),
        }
    })))
}

fn ins_batch_impl<T: UserT>(db: &mut DbMemory, uvs: &[UV]) -> Option<G<Vec<i64>>> {
    let vs: Vec<T> = uvs.iter().map(T::from_uv).collect::<Option<_>>()?;
    Some(flat(guarded(|| {
        let r = db.exec_mut(QueryBuilder::insert().elements(&vs).query())?;
        let mut fresh = r.elements.iter().map(|e| e.id.0);
        vs.iter()
            .map(|v| match own_id(v) {
                Some(i) => Ok(i),
                None => fresh.next().ok_or_else(no_new_element),
            })
            .collect()
    })))
}

fn read_one_impl<T: UserT>(db: &DbMemory, id: i64, expect: Option<&UV>) -> G<(UV, Option<bool>)> {
    let expected: Option<T> = expect.and_then(T::from_uv);
    flat(guarded(|| {
        let r = db.exec(QueryBuilder::select().elements::<T>().ids(id).query())?;
        let v: T = r.try_into()?;
        let peq = expected.as_ref().map(|e| *e == v);
        Ok((v.to_uv(), peq))
    }))
}

fn read_many_impl<T: UserT>(db: &DbMemory, ids: &[i64]) -> G<Vec<UV>> {
    let ids: Vec<DbId> = ids.iter().map(|i| DbId(*i)).collect();
    flat(guarded(|| {
        let r = db.exec(QueryBuilder::select().elements::<T>().ids(ids).query())?;
        let vs: Vec<T> = r.try_into()?;
        Ok(vs.iter().map(|v| v.to_uv()).collect())
    }))
}

fn gen_impl<T: UserT>(rng: &mut Rng, id: Option<i64>) -> UV {
    T::generate(rng, id).to_uv()
}

fn udriver<T: UserT>(name: &'static str) -> UDriver {
    let desc = T::desc();
    UDriver {
        name,
        tdesc: desc.text(),
        desc,
        tdv: tdv_impl::<T>,
        keys: keys_impl::<T>,
        fde: fde_impl::<T>,
        ins_one: ins_one_impl::<T>,
        ins_batch: ins_batch_impl::<T>,
        read_one: read_one_impl::<T>,
        read_many: read_many_impl::<T>,
        generate: gen_impl::<T>,
    }
}

fn uregistry() -> Vec<UDriver> {
    vec![
        udriver::<Plain>("Plain"),
        udriver::<WithId>("WithId"),
        udriver::<WithQId>("WithQId"),
        udriver::<FixedId>("FixedId"),
        udriver::<Vecs>("Vecs"),
        udriver::<Opts>("Opts"),
        udriver::<Small>("Small"),
        udriver::<WithCustom>("WithCustom"),
        udriver::<Inner>("Inner"),
        udriver::<Outer>("Outer"),
        udriver::<InnerOpt>("InnerOpt"),
        udriver::<OuterNoOpt>("OuterNoOpt"),
        udriver::<OuterNoOpt2>("OuterNoOpt2"),
        udriver::<Outer2>("Outer2"),
        udriver::<SkipRen>("SkipRen"),
        udriver::<RenOpt>("RenOpt"),
        udriver::<Elem>("Elem"),
        udriver::<StdTypes>("StdTypes"),
        udriver::<Empty>("Empty"),
    ]
}

// ---------------------------------------------------------------- stream

pub struct C22Stream {
    reg: Vec<UDriver>,
    by_name: HashMap<&'static str, usize>,
    db: Option<DbMemory>,
    /// recorded type (driver index) of every element created in the case
    types: BTreeMap<i64, usize>,
}

fn bad_op(ctx: &mut Ctx) -> String {
    ctx.bump("outcome:bad-op");
    "bad-op".to_string()
}

fn fail_site(line: &str) -> &str {
    line.split_once(':').map(|x| x.1).unwrap_or(line)
}

fn panic_violation(f: &Fail, what: &str, ctx: &mut Ctx) -> String {
    let line = f.line();
    ctx.violation(
        &format!("C22/panic/{}", fail_site(&line)),
        "derive-generated conversions and element insert/select must not panic",
        "ok | err:*",
        &format!("{line} during {what} ({})", f.detail()),
    );
    line
}

/// result of re-reading one element: canonical text or `err:Kind` / `panic:site`
fn read_text(r: &G<(UV, Option<bool>)>) -> String {
    match r {
        Ok(Ok((uv, _))) => uv.text(),
        Ok(Err(k)) => format!("err:{k}"),
        Err(f) => f.line(),
    }
}

impl C22Stream {
    pub fn new() -> Self {
        let reg = uregistry();
        let mut by_name = HashMap::new();
        for (i, d) in reg.iter().enumerate() {
            by_name.insert(d.name, i);
        }
        C22Stream { reg, by_name, db: None, types: BTreeMap::new() }
    }

    fn driver(&self, ty: &str, tdesc: &str) -> Option<usize> {
        let i = *self.by_name.get(ty)?;
        if self.reg[i].tdesc == tdesc { Some(i) } else { None }
    }

    fn db(&mut self) -> &mut DbMemory {
        if self.db.is_none() {
            // the name never exists as a file, so the database starts empty
            self.db = Some(DbMemory::new("/nonexistent-harness-codec/c22.agdb").expect("DbMemory::new"));
        }
        self.db.as_mut().unwrap()
    }

    /// every element except `exclude`, re-read as its recorded type
    fn snapshot(&mut self, exclude: &[i64]) -> Vec<(i64, String)> {
        self.db();
        let db = self.db.as_ref().unwrap();
        self.types
            .iter()
            .filter(|(id, _)| !exclude.contains(id))
            .map(|(id, di)| (*id, read_text(&(self.reg[*di].read_one)(db, *id, None))))
            .collect()
    }

    fn op_tdv(&mut self, ty: &str, tdesc: &str, uval: &str, ctx: &mut Ctx) -> String {
        let Some(di) = self.driver(ty, tdesc) else { return bad_op(ctx) };
        let Some(uv) = UV::parse(uval) else { return bad_op(ctx) };
        let Some(r) = (self.reg[di].tdv)(&uv) else { return bad_op(ctx) };
        ctx.bump(&format!("ty:{ty}"));
        match r {
            Ok(kvs) => {
                ctx.bump("outcome:ok");
                kvs_text(&kvs)
            }
            Err(f) => {
                let out = panic_violation(&f, "to_db_values", ctx);
                ctx.bump(&format!("outcome:{out}"));
                out
            }
        }
    }

    fn op_keys(&mut self, ty: &str, tdesc: &str, ctx: &mut Ctx) -> String {
        let Some(di) = self.driver(ty, tdesc) else { return bad_op(ctx) };
        ctx.bump(&format!("ty:{ty}"));
        match (self.reg[di].keys)() {
            Ok(keys) => {
                ctx.bump("outcome:ok");
                format!("[{}]", keys.iter().map(dbv_text).collect::<Vec<_>>().join(","))
            }
            Err(f) => {
                let out = panic_violation(&f, "db_keys", ctx);
                ctx.bump(&format!("outcome:{out}"));
                out
            }
        }
    }

    fn op_fde(&mut self, ty: &str, tdesc: &str, id: &str, kvs: &str, ctx: &mut Ctx) -> String {
        let Some(di) = self.driver(ty, tdesc) else { return bad_op(ctx) };
        let Some(UV::Id(id)) = UV::parse(&format!("S{id}")) else { return bad_op(ctx) };
        let Some(values) = parse_kvs(kvs) else { return bad_op(ctx) };
        ctx.bump(&format!("ty:{ty}"));
        let out = match (self.reg[di].fde)(id, values) {
            Ok(Ok(uv)) => format!("ok {}", uv.text()),
            Ok(Err(k)) => format!("err:{k}"),
            Err(f) => panic_violation(&f, "from_db_element", ctx),
        };
        ctx.bump(&format!("outcome:{}", if out.starts_with("ok ") { "ok" } else { &out }));
        out
    }

    /// `ins` (one value, `insert().element`) and `insb` (`insert().elements`)
    fn op_ins(&mut self, line: &str, batch: bool, ty: &str, tdesc: &str, uvals: &str, ctx: &mut Ctx) -> String {
        let Some(di) = self.driver(ty, tdesc) else { return bad_op(ctx) };
        let parts: Vec<&str> = if batch { uvals.split('|').collect() } else { vec![uvals] };
        let Some(uvs) = parts.iter().map(|p| UV::parse(p)).collect::<Option<Vec<UV>>>() else { return bad_op(ctx) };
        // which values address an existing element of this case
        let own: Vec<Option<i64>> = uvs.iter().map(|u| self.reg[di].desc.id_of(u).filter(|i| *i != 0)).collect();
        let updated: Vec<i64> = own.iter().flatten().copied().filter(|i| self.types.contains_key(i)).collect();
        let before = if updated.is_empty() { vec![] } else { self.snapshot(&updated) };
        self.db();
        let d = &self.reg[di];
        let db = self.db.as_mut().unwrap();
        let inserted: Option<G<Vec<i64>>> = if batch { (d.ins_batch)(db, &uvs) } else { (d.ins_one)(db, &uvs[0]).map(|r| r.map(|x| x.map(|i| vec![i]))) };
        let Some(inserted) = inserted else { return bad_op(ctx) };
        ctx.bump(&format!("ty:{ty}"));
        if uvs.iter().any(|u| u.has_nondefault()) {
            ctx.mark_nontrivial(line);
        }
        for o in &own {
            ctx.bump(if o.is_some() { "kind:update" } else { "kind:new" });
        }
        let rt_key = format!("C22/roundtrip/{ty}");
        let upd_key = format!("C22/update/{ty}");
        // (decided before the op re-records the element types)
        let same_type: Vec<bool> = own.iter().map(|o| o.is_some_and(|i| self.types.get(&i) == Some(&di))).collect();
        let all_ids_exist = own.iter().flatten().all(|i| self.types.contains_key(i));
        let ids = match inserted {
            Ok(Ok(ids)) => ids,
            Ok(Err(k)) => {
                let out = format!("err:{k}");
                // all-or-nothing: a failed insert of valid values violates the property for every value in it
                if all_ids_exist && own.iter().any(|o| o.is_none()) {
                    ctx.violation(&rt_key, "inserting a new element must succeed", "ok", &format!("{out} (insert)"));
                }
                if all_ids_exist && same_type.iter().any(|b| *b) {
                    ctx.violation(&upd_key, "updating an existing element of the same type must succeed", "ok", &format!("{out} (insert)"));
                }
                ctx.bump(&format!("outcome:{out}"));
                return out;
            }
            Err(f) => {
                let out = panic_violation(&f, "insert", ctx);
                ctx.bump(&format!("outcome:{out}"));
                return out;
            }
        };
        for id in &ids {
            self.types.insert(*id, di);
        }
        // read back
        let db = self.db.as_ref().unwrap();
        let expected: Vec<Option<UV>> = uvs.iter().zip(&ids).zip(&own).map(|((u, id), o)| if o.is_none() { Some(d.desc.expected(u, *id)) } else { None }).collect();
        let mut peqs: Vec<Option<bool>> = vec![None; ids.len()];
        let read: G<Vec<UV>> = if batch {
            (d.read_many)(db, &ids)
        } else {
            (d.read_one)(db, ids[0], expected[0].as_ref()).map(|r| {
                r.map(|(uv, peq)| {
                    peqs[0] = peq;
                    vec![uv]
                })
            })
        };
        let out = match &read {
            Ok(Ok(back)) => {
                if batch {
                    let parts: Vec<String> = ids.iter().zip(back).map(|(id, uv)| format!("{id}:{}", uv.text())).collect();
                    format!("ok {}", parts.join(" "))
                } else {
                    format!("ok {} {}", ids[0], back[0].text())
                }
            }
            Ok(Err(k)) => format!("err:{k}"),
            Err(f) => panic_violation(f, "select / convert", ctx),
        };
        // oracle per value
        for (i, uv) in uvs.iter().enumerate() {
            let got: Result<&UV, String> = match &read {
                Ok(Ok(back)) if back.len() == ids.len() => Ok(&back[i]),
                Ok(Ok(back)) => Err(format!("{} elements returned for {} ids", back.len(), ids.len())),
                _ => Err(out.clone()),
            };
            match &expected[i] {
                Some(exp) => {
                    // new element: must read back equal (db_id := Some(id), skipped fields := default)
                    let ok = match got {
                        Ok(g) => g.text() == exp.text() && (peqs[i] != Some(false) || d.desc.has_nan(exp)),
                        Err(_) => false,
                    };
                    if !ok {
                        let obs = match got {
                            Ok(g) if g.text() == exp.text() => format!("{} (equal text but PartialEq says different)", g.text()),
                            Ok(g) => g.text(),
                            Err(e) => e,
                        };
                        ctx.violation(&rt_key, "insert().element(&v) then select().elements::<T>().ids(id) + try_into::<T>() yields v (db_id := Some(id), skipped fields := default)", &exp.text(), &obs);
                    }
                }
                None => {
                    if same_type[i] {
                        let mut mism = vec![];
                        match got {
                            Ok(g) => d.desc.update_mismatches(uv, g, "", &mut mism),
                            Err(e) => mism.push(e),
                        }
                        if !mism.is_empty() {
                            ctx.violation(&upd_key, "after inserting with db_id = Some(existing id) every plain field and every Some option field reads back as the new value", &uv.text(), &mism.join("; "));
                        }
                    }
                }
            }
        }
        if !updated.is_empty() {
            let after = self.snapshot(&updated);
            // elements created by this very op are not in `before`
            for (id, was) in &before {
                let now = after.iter().find(|(i, _)| i == id).map(|x| x.1.clone()).unwrap_or_else(|| "<missing>".to_string());
                if *was != now {
                    ctx.violation(&format!("C22/update-other-changed/{ty}"), "an update changes exactly the addressed element", &format!("{id}:{was}"), &format!("{id}:{now}"));
                }
            }
        }
        ctx.bump(&format!("outcome:{}", if out.starts_with("ok ") { "ok" } else { &out }));
        out
    }

    fn op_all(&mut self, ctx: &mut Ctx) -> String {
        self.db();
        let db = self.db.as_ref().unwrap();
        let mut parts = vec!["ok".to_string()];
        let mut first_panic = None;
        for (id, di) in &self.types {
            let r = (self.reg[*di].read_one)(db, *id, None);
            if let Err(f) = &r {
                let l = panic_violation(f, "select / convert", ctx);
                first_panic = first_panic.or(Some(l));
            }
            parts.push(format!("{id}:{}", read_text(&r)));
        }
        let out = first_panic.unwrap_or_else(|| parts.join(" "));
        ctx.bump(&format!("outcome:{}", if out.starts_with("ok") { "ok" } else { &out }));
        out
    }

    // ------------------------------------------------------------ generator

    fn line_ins(&self, di: usize, uv: &UV) -> String {
        format!("ins {} {} {}", self.reg[di].name, self.reg[di].tdesc, uv.text())
    }

    fn gen_fde(&self, rng: &mut Rng, ctx: &mut Ctx) -> Option<String> {
        let di = rng.usize_below(self.reg.len());
        let d = &self.reg[di];
        let uv = (d.generate)(rng, None);
        let mut kvs = (d.tdv)(&uv)?.ok()?;
        let n_mut = rng.range(0, 2);
        if n_mut == 0 {
            ctx.bump("fde:none");
        }
        for _ in 0..n_mut {
            let kind = mutate_kvs(rng, &mut kvs);
            ctx.bump(&format!("fde:{kind}"));
        }
        let id = match rng.below(6) {
            0 => 0,
            1 => -(rng.range(1, 9) as i64),
            2 => i64::MAX,
            _ => rng.range(1, 100) as i64,
        };
        Some(format!("fde {} {} {} {}", d.name, d.tdesc, id, kvs_text(&kvs)))
    }
}

fn other_variant(rng: &mut Rng, v: &DbValue) -> DbValue {
    match v {
        DbValue::I64(x) => match rng.below(4) {
            0 => DbValue::U64(*x as u64),
            1 => DbValue::String(x.to_string()),
            2 => DbValue::F64(DbF64::from(*x as f64)),
            _ => DbValue::I64(*rng.pick(&[i64::MIN, i64::MAX, i32::MAX as i64 + 1, i32::MIN as i64 - 1, -1, u32::MAX as i64 + 1])),
        },
        DbValue::U64(x) => match rng.below(4) {
            0 => DbValue::I64(*x as i64),
            1 => DbValue::U64(*rng.pick(&[u64::MAX, i64::MAX as u64 + 1, u32::MAX as u64 + 1, 2, 0])),
            2 => DbValue::String(if rng.chance(1, 2) { "true".to_string() } else { x.to_string() }),
            _ => DbValue::I64(-(rng.range(1, 1000) as i64)),
        },
        DbValue::F64(x) => match rng.below(3) {
            0 => DbValue::I64(x.to_f64() as i64),
            1 => DbValue::U64(x.to_f64().to_bits()),
            _ => DbValue::String("1.5".to_string()),
        },
        DbValue::String(s) => match rng.below(4) {
            0 => DbValue::I64(s.len() as i64),
            1 => DbValue::Bytes(s.as_bytes().to_vec()),
            2 => DbValue::VecString(vec![s.clone()]),
            _ => DbValue::String(rng.pick(&["::ffff:0:0", "1.2.3.04", "", "not-an-ip", "0:0:0:0:0:0:0:1"]).to_string()),
        },
        DbValue::Bytes(b) => match rng.below(6) {
            0 => DbValue::Bytes(b[..rng.usize_below(b.len() + 1)].to_vec()),
            1 => {
                let n = rng.below(30) as usize;
                DbValue::Bytes(rng.bytes(n))
            }
            2 => DbValue::Bytes(vec![]),
            3 => {
                let mut c = b.clone();
                if !c.is_empty() {
                    let i = rng.usize_below(c.len());
                    c[i] ^= 1 << rng.below(8);
                }
                DbValue::Bytes(c)
            }
            4 => DbValue::String(String::from_utf8_lossy(b).to_string()),
            _ => {
                // huge length prefix / tag garbage in front
                let mut c = (*rng.pick(&[u64::MAX, 1u64 << 40, 1 << 63, b.len() as u64 + 1])).to_le_bytes().to_vec();
                c.extend_from_slice(b);
                DbValue::Bytes(c)
            }
        },
        DbValue::VecI64(x) => match rng.below(3) {
            0 => DbValue::VecU64(x.iter().map(|v| *v as u64).collect()),
            1 => DbValue::VecF64(x.iter().map(|v| DbF64::from(*v as f64)).collect()),
            _ => DbValue::VecString(vec![]),
        },
        DbValue::VecU64(x) => match rng.below(4) {
            0 => DbValue::VecI64(x.iter().map(|v| *v as i64).collect()),
            1 => DbValue::VecU64(x.iter().map(|v| v.wrapping_add(2)).chain([u64::MAX]).collect()),
            2 => DbValue::VecI64(vec![]),
            _ => DbValue::Bytes(vec![]),
        },
        DbValue::VecF64(x) => match rng.below(3) {
            0 => DbValue::VecI64(x.iter().map(|v| v.to_f64().to_bits() as i64).collect()),
            1 => DbValue::VecU64(vec![]),
            _ => DbValue::VecString(x.iter().map(|v| v.to_f64().to_string()).collect()),
        },
        DbValue::VecString(x) => match rng.below(3) {
            0 => DbValue::VecI64(x.iter().map(|s| s.len() as i64).collect()),
            1 => DbValue::VecF64(vec![]),
            _ => DbValue::String(x.join(",")),
        },
    }
}

/// one mutation of a `to_db_values()` list; returns the mutation kind
fn mutate_kvs(rng: &mut Rng, kvs: &mut Vec<DbKeyValue>) -> &'static str {
    let choice = if kvs.is_empty() { 6 } else { rng.below(8) };
    match choice {
        0 => {
            kvs.remove(rng.usize_below(kvs.len()));
            "drop"
        }
        1 => {
            // the same key twice with different values (either order)
            let i = rng.usize_below(kvs.len());
            let mut dup = kvs[i].clone();
            dup.value = if rng.chance(1, 2) { other_variant(rng, &dup.value) } else { <DbValue as Tv>::generate(rng, 1) };
            let at = if rng.chance(1, 2) { i } else { i + 1 };
            kvs.insert(at, dup);
            "dup"
        }
        2 => {
            for i in (1..kvs.len()).rev() {
                kvs.swap(i, rng.usize_below(i + 1));
            }
            "reorder"
        }
        3 | 4 => {
            let i = rng.usize_below(kvs.len());
            kvs[i].value = other_variant(rng, &kvs[i].value.clone());
            "variant"
        }
        5 => {
            // the key is no longer a String (keys are matched through `key.string()`)
            let i = rng.usize_below(kvs.len());
            kvs[i].key = match rng.below(3) {
                0 => DbValue::I64(i as i64),
                1 => DbValue::Bytes(kvs[i].key.to_string().into_bytes()),
                _ => DbValue::String(kvs[i].key.to_string().to_uppercase()),
            };
            "key"
        }
        6 => {
            let at = rng.usize_below(kvs.len() + 1);
            let key = if rng.chance(1, 2) { DbValue::String(gen_string(rng)) } else { DbValue::String("db_element_id".to_string()) };
            kvs.insert(at, DbKeyValue { key, value: <DbValue as Tv>::generate(rng, 1) });
            "add"
        }
        _ => {
            let i = rng.usize_below(kvs.len());
            kvs[i].value = <DbValue as Tv>::generate(rng, 1);
            "random-value"
        }
    }
}

impl Stream for C22Stream {
    fn reset(&mut self) {
        self.db = None;
        self.types.clear();
    }

    fn cases(&self, tier: Tier) -> u64 {
        match tier {
            Tier::Quick => 800,
            Tier::Thorough => 20_000,
        }
    }

    fn gen_case(&mut self, rng: &mut Rng, _tier: Tier, ctx: &mut Ctx) -> Vec<String> {
        let mut lines = vec![];
        // ids of a fresh DbMemory are 1, 2, 3, … in creation order (every element is a node)
        let mut next_id = 1i64;
        let mut created: Vec<(i64, usize)> = vec![];
        let n_new = rng.range(1, 4);
        for _ in 0..n_new {
            let di = rng.usize_below(self.reg.len());
            let d = &self.reg[di];
            if rng.chance(1, 6) {
                // batch: 2..4 values, mixing new ones and (for types with a db_id) distinct existing ones
                let mut existing: Vec<i64> = created.iter().filter(|c| c.1 == di && d.desc.has_id()).map(|c| c.0).collect();
                let n = rng.range(2, 4);
                let mut vals = vec![];
                let mut fresh = 0;
                for _ in 0..n {
                    let id = if !existing.is_empty() && rng.chance(1, 2) { Some(existing.swap_remove(rng.usize_below(existing.len()))) } else { None };
                    if id.is_none() {
                        fresh += 1;
                    }
                    vals.push((d.generate)(rng, id).text());
                }
                lines.push(format!("insb {} {} {}", d.name, d.tdesc, vals.join("|")));
                for _ in 0..fresh {
                    created.push((next_id, di));
                    next_id += 1;
                }
            } else {
                let uv = (d.generate)(rng, None);
                lines.push(self.line_ins(di, &uv));
                created.push((next_id, di));
                next_id += 1;
                if rng.chance(3, 10) {
                    lines.push(format!("tdv {} {} {}", d.name, d.tdesc, uv.text()));
                    lines.push(format!("keys {} {}", d.name, d.tdesc));
                }
            }
        }
        // updates of elements created earlier in the case, with a value of the same type
        let updatable: Vec<(i64, usize)> = created.iter().copied().filter(|c| self.reg[c.1].desc.has_id()).collect();
        if !updatable.is_empty() {
            for _ in 0..rng.range(0, 2) {
                let (id, di) = *rng.pick(&updatable);
                let uv = (self.reg[di].generate)(rng, Some(id));
                lines.push(self.line_ins(di, &uv));
            }
        }
        for _ in 0..rng.range(0, 2) {
            if let Some(l) = self.gen_fde(rng, ctx) {
                lines.push(l);
            }
        }
        lines.push("all".to_string());
        lines
    }

    fn exec(&mut self, line: &str, ctx: &mut Ctx) -> String {
        if !line.is_ascii() {
            ctx.bump("op:unknown");
            return bad_op(ctx);
        }
        let t: Vec<&str> = line.split(' ').collect();
        let op = t[0];
        match (op, t.len()) {
            ("tdv", 4) => {
                ctx.bump("op:tdv");
                self.op_tdv(t[1], t[2], t[3], ctx)
            }
            ("keys", 3) => {
                ctx.bump("op:keys");
                self.op_keys(t[1], t[2], ctx)
            }
            ("fde", 5) => {
                ctx.bump("op:fde");
                self.op_fde(t[1], t[2], t[3], t[4], ctx)
            }
            ("ins", 4) => {
                ctx.bump("op:ins");
                self.op_ins(line, false, t[1], t[2], t[3], ctx)
            }
            ("insb", 4) => {
                ctx.bump("op:insb");
                self.op_ins(line, true, t[1], t[2], t[3], ctx)
            }
            ("all", 1) => {
                ctx.bump("op:all");
                self.op_all(ctx)
            }
            _ => {
                ctx.bump("op:unknown");
                bad_op(ctx)
            }
        }
    }

    fn rule(&self) -> String {
        "each case = fresh DbMemory; 1..4 `ins` (insert().element(&v), then select().elements::<T>().ids(id) + try_into::<T>()) or `insb` \
         (insert().elements(&[..]) + TryInto::<Vec<T>>) of random corpus types deriving DbType / DbElement (scalars, strings, vectors, \
         options, custom DbValue types, flattened, renamed, skipped and id fields), 30% followed by `tdv` (to_db_values) and `keys` \
         (db_keys); then 0..2 updates (`ins` with db_id = Some(id of an earlier element of the same type)), 0..2 `fde` (from_db_element on \
         mutated to_db_values lists) and a final `all`; evaluations = op lines executed; distinct_nontrivial = distinct (hash of op line) \
         ins/insb ops with at least one field that is not its kind's default (non-zero number, non-empty string / vector, Some option, \
         non-default custom value)"
            .to_string()
    }
}
