//! Hook-level ops of the C12 stream (only when built against a tree that has
//! `DbValue::verif_store_db_value` / `verif_load_db_value`, see build.rs):
//!
//! * `vrt <dbv>`  → `store_db_value` into the case's `VStorage<MemoryStorage>`, then `load_db_value`:
//!   `<32 hex: the DbValueIndex> <x<hex of the out-of-line bytes>|-> ok <dbv'>`
//! * `vld <32 hex>` → `load_db_value` of an arbitrary (possibly damaged) index on the same storage:
//!   `ok <dbv>` | `err:<Kind>` | `panic:DbValue::load_db_value`
//!
//! Oracle: `vrt` must read back the stored value (C12). `vld` has no oracle: damaged indexes are
//! C07's subject; the line is only compared with the model.

use crate::Ctx;

#[cfg(codec_vidx)]
mod imp {
    use super::*;
    use crate::guard::{guarded, Fail};
    use crate::types::Tv;
    use crate::val::{hex, unhex};
    use agdb::verif::VStorage;
    use agdb::{DbValue, MemoryStorage};

    pub const ENABLED: bool = true;

    #[derive(Default)]
    pub struct VidxState {
        st: Option<VStorage<MemoryStorage>>,
    }

    fn site(s: &str) -> String {
        if s.ends_with(":?") { "DbValue::load_db_value".to_string() } else { s.to_string() }
    }

    fn fail_text(f: &Fail) -> String {
        match f {
            Fail::Panic { site: s, .. } => format!("panic:{}", site(s)),
            Fail::Huge { site: s, .. } => format!("hugealloc:{}", site(s)),
        }
    }

    impl VidxState {
        pub fn reset(&mut self) {
            self.st = None;
        }

        fn storage(&mut self) -> Option<&mut VStorage<MemoryStorage>> {
            if self.st.is_none() {
                self.st = VStorage::<MemoryStorage>::new("harness_codec_vidx").ok();
            }
            self.st.as_mut()
        }

        pub fn op_vrt(&mut self, text: &str, ctx: &mut Ctx) -> Option<String> {
            // end to end: the op line is the original, the value enters through the public conversion
            let orig = crate::raw::Raw::parse(text)?;
            let value = orig.build(false);
            let st = self.storage()?;
            let r = guarded(|| {
                let idx = value.verif_store_db_value(st)?;
                let size = idx[15] & 0x0f;
                let mut ix = [0u8; 8];
                ix.copy_from_slice(&idx[0..8]);
                let index = u64::from_le_bytes(ix);
                let raw = if size == 0 && index != 0 {
                    Some(st.value_as_bytes(index)?)
                } else {
                    None
                };
                let back = DbValue::verif_load_db_value(idx, st)?;
                Ok::<_, agdb::DbError>((idx, raw, back))
            });
            let out = match r {
                Ok(Ok((idx, raw, back))) => {
                    let bt = <DbValue as Tv>::to_v(&back).text();
                    match orig.diff(&crate::raw::Raw::read(&back)) {
                        None => {}
                        Some(true) => ctx.violation(
                            &format!("C12/float-bits-changed/{}", crate::raw::KIND_NAMES[orig.kind()]),
                            "an f64 given to the database reads back with the same 64 bits",
                            text,
                            &bt,
                        ),
                        Some(false) => ctx.violation(
                            "C12/readback/DbValueIndex",
                            "load_db_value(store_db_value(v)) == v",
                            text,
                            &bt,
                        ),
                    }
                    let raw = match raw {
                        Some(b) => format!("x{}", hex(&b)),
                        None => "-".to_string(),
                    };
                    format!("{} {} ok {}", hex(&idx), raw, bt)
                }
                Ok(Err(e)) => {
                    ctx.violation("C12/error/DbValueIndex", "store/load must succeed", text, &format!("{:?}", e.ty));
                    format!("err:{:?}", e.ty)
                }
                Err(f) => {
                    let t = fail_text(&f);
                    ctx.violation("C12/panic/DbValueIndex", "store/load must not panic", text, &t);
                    t
                }
            };
            Some(out)
        }

        pub fn op_vld(&mut self, h: &str, _ctx: &mut Ctx) -> Option<String> {
            let b = unhex(h)?;
            if b.len() != 16 {
                return None;
            }
            let mut idx = [0u8; 16];
            idx.copy_from_slice(&b);
            let st = self.storage()?;
            let r = guarded(|| DbValue::verif_load_db_value(idx, st));
            Some(match r {
                Ok(Ok(v)) => format!("ok {}", <DbValue as Tv>::to_v(&v).text()),
                Ok(Err(e)) => format!("err:{:?}", e.ty),
                Err(f) => fail_text(&f),
            })
        }
    }
}

#[cfg(not(codec_vidx))]
mod imp {
    use super::*;

    pub const ENABLED: bool = false;

    #[derive(Default)]
    pub struct VidxState;

    impl VidxState {
        pub fn reset(&mut self) {}
        pub fn op_vrt(&mut self, _text: &str, _ctx: &mut Ctx) -> Option<String> {
            None
        }
        pub fn op_vld(&mut self, _h: &str, _ctx: &mut Ctx) -> Option<String> {
            None
        }
    }
}

pub use imp::{VidxState, ENABLED};
