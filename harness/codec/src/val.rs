//! Canonical value tree `V`, type descriptor `Sch`, their text syntax, hex helpers
//! and the byte-layout walker used by the malformed-input generator.

pub fn hex(bytes: &[u8]) -> String {
    if bytes.is_empty() {
        return "-".to_string();
    }
    let mut s = String::with_capacity(bytes.len() * 2);
    push_hex(&mut s, bytes);
    s
}

fn push_hex(s: &mut String, bytes: &[u8]) {
    const D: &[u8; 16] = b"0123456789abcdef";
    for b in bytes {
        s.push(D[(b >> 4) as usize] as char);
        s.push(D[(b & 15) as usize] as char);
    }
}

fn nib(c: u8) -> Option<u8> {
    match c {
        b'0'..=b'9' => Some(c - b'0'),
        b'a'..=b'f' => Some(c - b'a' + 10),
        _ => None,
    }
}

/// `-` = empty; otherwise an even number of lowercase hex digits.
pub fn unhex(s: &str) -> Option<Vec<u8>> {
    if s == "-" {
        return Some(vec![]);
    }
    let b = s.as_bytes();
    if b.is_empty() || b.len() % 2 != 0 {
        return None;
    }
    let mut out = Vec::with_capacity(b.len() / 2);
    for p in b.chunks(2) {
        out.push((nib(p[0])? << 4) | nib(p[1])?);
    }
    Some(out)
}

#[derive(Clone, Debug, PartialEq)]
pub enum V {
    /// u64 / usize as is, i64 as two's complement, f64 as bits
    N(u64),
    B(bool),
    /// raw bytes of String / Vec<u8> / PathBuf / SocketAddr / IpAddr
    X(Vec<u8>),
    /// unix timespec: seconds (signed), nanoseconds (0..10^9)
    T(i128, u32),
    /// Vec<T>
    L(Vec<V>),
    /// struct (named, tuple, unit)
    S(Vec<V>),
    /// enum: variant index + fields
    E(u64, Vec<V>),
}

impl V {
    pub fn text(&self) -> String {
        let mut s = String::new();
        self.print(&mut s);
        s
    }

    pub fn print(&self, out: &mut String) {
        match self {
            V::N(n) => {
                out.push('n');
                out.push_str(&n.to_string());
            }
            V::B(b) => out.push_str(if *b { "b1" } else { "b0" }),
            V::X(x) => {
                out.push('x');
                if x.is_empty() {
                    out.push('-');
                } else {
                    push_hex(out, x);
                }
            }
            V::T(s, n) => {
                out.push('t');
                out.push_str(&s.to_string());
                out.push(':');
                out.push_str(&n.to_string());
            }
            V::L(vs) => {
                out.push('[');
                print_list(vs, out);
                out.push(']');
            }
            V::S(vs) => {
                out.push('{');
                print_list(vs, out);
                out.push('}');
            }
            V::E(tag, vs) => {
                out.push('#');
                out.push_str(&tag.to_string());
                out.push('{');
                print_list(vs, out);
                out.push('}');
            }
        }
    }

    pub fn parse(s: &str) -> Option<V> {
        let mut p = P { b: s.as_bytes(), i: 0 };
        let v = p.value()?;
        if p.i == p.b.len() { Some(v) } else { None }
    }

    /// parses one value at the start of `s`; returns it with the number of bytes consumed
    pub fn parse_prefix(s: &str) -> Option<(V, usize)> {
        let mut p = P { b: s.as_bytes(), i: 0 };
        let v = p.value()?;
        Some((v, p.i))
    }

    /// "default / empty" value of its type (used for the non-triviality count only)
    pub fn is_trivial(&self) -> bool {
        match self {
            V::N(n) => *n == 0,
            V::B(b) => !*b,
            V::X(x) => x.is_empty(),
            V::T(s, n) => *s == 0 && *n == 0,
            V::L(vs) => vs.is_empty(),
            V::S(vs) => vs.iter().all(|v| v.is_trivial()),
            V::E(t, vs) => *t == 0 && vs.iter().all(|v| v.is_trivial()),
        }
    }
}

fn print_list(vs: &[V], out: &mut String) {
    for (i, v) in vs.iter().enumerate() {
        if i > 0 {
            out.push(',');
        }
        v.print(out);
    }
}

struct P<'a> {
    b: &'a [u8],
    i: usize,
}

impl P<'_> {
    fn peek(&self) -> Option<u8> {
        self.b.get(self.i).copied()
    }

    fn eat(&mut self, c: u8) -> bool {
        if self.peek() == Some(c) {
            self.i += 1;
            true
        } else {
            false
        }
    }

    /// canonical decimal: no leading zeros, at least one digit
    fn digits(&mut self) -> Option<&str> {
        let st = self.i;
        while matches!(self.peek(), Some(b'0'..=b'9')) {
            self.i += 1;
        }
        if self.i == st {
            return None;
        }
        if self.i - st > 1 && self.b[st] == b'0' {
            return None;
        }
        std::str::from_utf8(&self.b[st..self.i]).ok()
    }

    fn list(&mut self, close: u8) -> Option<Vec<V>> {
        let mut vs = vec![];
        if self.eat(close) {
            return Some(vs);
        }
        loop {
            vs.push(self.value()?);
            if self.eat(b',') {
                continue;
            }
            if self.eat(close) {
                return Some(vs);
            }
            return None;
        }
    }

    fn value(&mut self) -> Option<V> {
        let c = self.peek()?;
        self.i += 1;
        match c {
            b'n' => Some(V::N(self.digits()?.parse().ok()?)),
            b'b' => {
                let d = self.peek()?;
                self.i += 1;
                match d {
                    b'0' => Some(V::B(false)),
                    b'1' => Some(V::B(true)),
                    _ => None,
                }
            }
            b'x' => {
                if self.eat(b'-') {
                    return Some(V::X(vec![]));
                }
                let st = self.i;
                while matches!(self.peek(), Some(b'0'..=b'9' | b'a'..=b'f')) {
                    self.i += 1;
                }
                if self.i == st {
                    return None;
                }
                Some(V::X(unhex(std::str::from_utf8(&self.b[st..self.i]).ok()?)?))
            }
            b't' => {
                let neg = self.eat(b'-');
                let s: i128 = self.digits()?.parse().ok()?;
                if neg && s == 0 {
                    return None;
                }
                if !self.eat(b':') {
                    return None;
                }
                let n: u32 = self.digits()?.parse().ok()?;
                if n >= 1_000_000_000 {
                    return None;
                }
                Some(V::T(if neg { -s } else { s }, n))
            }
            b'[' => Some(V::L(self.list(b']')?)),
            b'{' => Some(V::S(self.list(b'}')?)),
            b'#' => {
                let tag: u64 = self.digits()?.parse().ok()?;
                if !self.eat(b'{') {
                    return None;
                }
                Some(V::E(tag, self.list(b'}')?))
            }
            _ => None,
        }
    }
}

// ---------------------------------------------------------------- schema

#[derive(Clone, Debug, PartialEq)]
pub enum Sch {
    U64,
    I64,
    F64,
    Usize,
    Bool,
    Str,
    Bytes,
    Time,
    Path,
    Sock,
    Ip,
    Vec(Box<Sch>),
    Struct(Vec<Sch>),
    Enum(Vec<Vec<Sch>>),
}

impl Sch {
    pub fn parse(s: &str) -> Option<Sch> {
        let mut p = SP { b: s.as_bytes(), i: 0 };
        let r = p.sch()?;
        if p.i == p.b.len() { Some(r) } else { None }
    }

    /// number of bytes the very first read of `deserialize` needs
    pub fn first_read(&self) -> usize {
        match self {
            Sch::U64 | Sch::I64 | Sch::F64 | Sch::Usize => 8,
            Sch::Bool => 1,
            Sch::Str | Sch::Bytes | Sch::Path | Sch::Sock | Sch::Ip | Sch::Vec(_) => 8,
            Sch::Time => 13,
            Sch::Struct(fs) => fs.iter().map(|f| f.first_read()).find(|n| *n > 0).unwrap_or(0),
            Sch::Enum(_) => 1,
        }
    }
}

struct SP<'a> {
    b: &'a [u8],
    i: usize,
}

impl SP<'_> {
    fn peek(&self) -> Option<u8> {
        self.b.get(self.i).copied()
    }

    fn eat(&mut self, c: u8) -> bool {
        if self.peek() == Some(c) {
            self.i += 1;
            true
        } else {
            false
        }
    }

    /// comma separated schemas up to (not including) one of the stop bytes
    fn fields(&mut self, stops: &[u8]) -> Option<Vec<Sch>> {
        let mut fs = vec![];
        if stops.contains(&self.peek()?) {
            return Some(fs);
        }
        loop {
            fs.push(self.sch()?);
            if self.eat(b',') {
                continue;
            }
            if stops.contains(&self.peek()?) {
                return Some(fs);
            }
            return None;
        }
    }

    fn sch(&mut self) -> Option<Sch> {
        let st = self.i;
        while matches!(self.peek(), Some(b'a'..=b'z' | b'0'..=b'9')) {
            self.i += 1;
        }
        let id = std::str::from_utf8(&self.b[st..self.i]).ok()?;
        if self.eat(b'(') {
            let r = match id {
                "v" => Sch::Vec(Box::new(self.sch()?)),
                "s" => Sch::Struct(self.fields(b")")?),
                "e" => {
                    let mut vars = vec![];
                    loop {
                        vars.push(self.fields(b"|)")?);
                        if !self.eat(b'|') {
                            break;
                        }
                    }
                    Sch::Enum(vars)
                }
                _ => return None,
            };
            if !self.eat(b')') {
                return None;
            }
            return Some(r);
        }
        Some(match id {
            "u64" => Sch::U64,
            "i64" => Sch::I64,
            "f64" => Sch::F64,
            "usize" => Sch::Usize,
            "bool" => Sch::Bool,
            "str" => Sch::Str,
            "bytes" => Sch::Bytes,
            "time" => Sch::Time,
            "path" => Sch::Path,
            "sock" => Sch::Sock,
            "ip" => Sch::Ip,
            _ => return None,
        })
    }
}

// ---------------------------------------------------------------- byte layout

#[derive(Clone, Debug, PartialEq)]
pub enum SpanKind {
    /// 8-byte little-endian length prefix holding this value
    Len(u64),
    /// 1-byte enum tag of an enum with this many variants
    Tag(usize),
    /// 13-byte SystemTime (8 secs, 4 nanos, 1 flag)
    Time,
    /// length-prefixed address text: (is socket address, text length); span starts at the prefix
    Addr(bool, usize),
}

#[derive(Clone, Debug)]
pub struct Span {
    pub kind: SpanKind,
    pub off: usize,
}

/// Walks a *valid* serialization of `v : sch` and records where the interesting pieces lie.
/// Returns None when `v` does not fit `sch`.
pub fn spans(sch: &Sch, v: &V, off: &mut usize, out: &mut Vec<Span>) -> Option<()> {
    match (sch, v) {
        (Sch::U64 | Sch::I64 | Sch::F64 | Sch::Usize, V::N(_)) => *off += 8,
        (Sch::Bool, V::B(_)) => *off += 1,
        (Sch::Str | Sch::Bytes | Sch::Path, V::X(x)) => {
            out.push(Span { kind: SpanKind::Len(x.len() as u64), off: *off });
            *off += 8 + x.len();
        }
        (Sch::Sock | Sch::Ip, V::X(x)) => {
            out.push(Span { kind: SpanKind::Len(x.len() as u64), off: *off });
            out.push(Span { kind: SpanKind::Addr(*sch == Sch::Sock, x.len()), off: *off });
            *off += 8 + x.len();
        }
        (Sch::Time, V::T(..)) => {
            out.push(Span { kind: SpanKind::Time, off: *off });
            *off += 13;
        }
        (Sch::Vec(e), V::L(vs)) => {
            out.push(Span { kind: SpanKind::Len(vs.len() as u64), off: *off });
            *off += 8;
            for x in vs {
                spans(e, x, off, out)?;
            }
        }
        (Sch::Struct(fs), V::S(vs)) => {
            if fs.len() != vs.len() {
                return None;
            }
            for (f, x) in fs.iter().zip(vs) {
                spans(f, x, off, out)?;
            }
        }
        (Sch::Enum(vars), V::E(tag, vs)) => {
            let fs = vars.get(*tag as usize)?;
            if fs.len() != vs.len() {
                return None;
            }
            out.push(Span { kind: SpanKind::Tag(vars.len()), off: *off });
            *off += 1;
            for (f, x) in fs.iter().zip(vs) {
                spans(f, x, off, out)?;
            }
        }
        _ => return None,
    }
    Some(())
}

pub fn json_str(s: &str) -> String {
    let mut o = String::with_capacity(s.len() + 2);
    o.push('"');
    for c in s.chars() {
        match c {
            '"' => o.push_str("\\\""),
            '\\' => o.push_str("\\\\"),
            '\n' => o.push_str("\\n"),
            '\r' => o.push_str("\\r"),
            '\t' => o.push_str("\\t"),
            c if (c as u32) < 0x20 => o.push_str(&format!("\\u{:04x}", c as u32)),
            c => o.push(c),
        }
    }
    o.push('"');
    o
}
