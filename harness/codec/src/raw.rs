//! Conversion-free description of a `DbValue`: exactly what the generator chose / what the op line
//! says (floats as `u64` bit patterns, strings as their bytes).  The C12 oracle is end-to-end on
//! this: values ENTER the database through the public conversions a user calls
//! (`DbValue::from(f64)`, `DbF64::from(f64)`, `DbValue::from(Vec<f64>)`, `From<&str>` …) and what
//! is read back is taken apart again with the public accessors and compared with the ORIGINAL raw
//! data, never with an already converted `DbValue`.

use crate::val::V;
use agdb::DbF64;
use agdb::DbValue;

#[derive(Clone, Debug, PartialEq)]
pub enum Raw {
    Bytes(Vec<u8>),
    I64(i64),
    U64(u64),
    /// f64 bit pattern
    F64(u64),
    /// UTF-8 bytes of a String
    Str(Vec<u8>),
    VecI64(Vec<i64>),
    VecU64(Vec<u64>),
    /// f64 bit patterns
    VecF64(Vec<u64>),
    VecStr(Vec<Vec<u8>>),
}

pub const KIND_NAMES: [&str; 9] = ["Bytes", "I64", "U64", "F64", "String", "VecI64", "VecU64", "VecF64", "VecString"];

impl Raw {
    pub fn kind(&self) -> usize {
        match self {
            Raw::Bytes(_) => 0,
            Raw::I64(_) => 1,
            Raw::U64(_) => 2,
            Raw::F64(_) => 3,
            Raw::Str(_) => 4,
            Raw::VecI64(_) => 5,
            Raw::VecU64(_) => 6,
            Raw::VecF64(_) => 7,
            Raw::VecStr(_) => 8,
        }
    }

    pub fn to_v(&self) -> V {
        let one = |tag: u64, p: V| V::E(tag, vec![p]);
        match self {
            Raw::Bytes(b) => one(0, V::X(b.clone())),
            Raw::I64(i) => one(1, V::N(*i as u64)),
            Raw::U64(u) => one(2, V::N(*u)),
            Raw::F64(b) => one(3, V::N(*b)),
            Raw::Str(s) => one(4, V::X(s.clone())),
            Raw::VecI64(v) => one(5, V::L(v.iter().map(|i| V::N(*i as u64)).collect())),
            Raw::VecU64(v) => one(6, V::L(v.iter().map(|u| V::N(*u)).collect())),
            Raw::VecF64(v) => one(7, V::L(v.iter().map(|b| V::N(*b)).collect())),
            Raw::VecStr(v) => one(8, V::L(v.iter().map(|s| V::X(s.clone())).collect())),
        }
    }

    pub fn text(&self) -> String {
        self.to_v().text()
    }

    /// parses the canonical DbValue text (`#3{n…}` …); `None` unless `text` is exactly canonical
    pub fn parse(text: &str) -> Option<Raw> {
        let V::E(tag, fields) = V::parse(text)? else { return None };
        if fields.len() != 1 {
            return None;
        }
        let nums = |l: &V| -> Option<Vec<u64>> {
            let V::L(items) = l else { return None };
            items.iter().map(|x| if let V::N(n) = x { Some(*n) } else { None }).collect()
        };
        let raw = match (tag, &fields[0]) {
            (0, V::X(b)) => Raw::Bytes(b.clone()),
            (1, V::N(n)) => Raw::I64(*n as i64),
            (2, V::N(n)) => Raw::U64(*n),
            (3, V::N(n)) => Raw::F64(*n),
            (4, V::X(b)) => {
                std::str::from_utf8(b).ok()?;
                Raw::Str(b.clone())
            }
            (5, l) => Raw::VecI64(nums(l)?.into_iter().map(|n| n as i64).collect()),
            (6, l) => Raw::VecU64(nums(l)?),
            (7, l) => Raw::VecF64(nums(l)?),
            (8, V::L(items)) => {
                let mut out = vec![];
                for x in items {
                    let V::X(b) = x else { return None };
                    std::str::from_utf8(b).ok()?;
                    out.push(b.clone());
                }
                Raw::VecStr(out)
            }
            _ => return None,
        };
        if raw.text() == text { Some(raw) } else { None }
    }

    /// the value as a user would hand it to the database; `alt` picks the second public route
    pub fn build(&self, alt: bool) -> DbValue {
        let s = |b: &Vec<u8>| String::from_utf8(b.clone()).expect("checked utf-8");
        match self {
            Raw::Bytes(b) => {
                if alt { DbValue::from(b.as_slice()) } else { DbValue::from(b.clone()) }
            }
            Raw::I64(i) => DbValue::from(*i),
            Raw::U64(u) => DbValue::from(*u),
            Raw::F64(bits) => {
                let f = f64::from_bits(*bits);
                if alt { DbValue::from(DbF64::from(f)) } else { DbValue::from(f) }
            }
            Raw::Str(b) => {
                if alt { DbValue::from(s(b).as_str()) } else { DbValue::from(s(b)) }
            }
            Raw::VecI64(v) => {
                if alt { DbValue::from(v.as_slice()) } else { DbValue::from(v.clone()) }
            }
            Raw::VecU64(v) => {
                if alt { DbValue::from(v.as_slice()) } else { DbValue::from(v.clone()) }
            }
            Raw::VecF64(v) => {
                let fs: Vec<f64> = v.iter().map(|b| f64::from_bits(*b)).collect();
                if alt {
                    DbValue::from(fs.iter().map(|f| DbF64::from(*f)).collect::<Vec<DbF64>>())
                } else {
                    DbValue::from(fs)
                }
            }
            Raw::VecStr(v) => {
                let ss: Vec<String> = v.iter().map(s).collect();
                if alt {
                    DbValue::from(ss.iter().map(|x| x.as_str()).collect::<Vec<&str>>())
                } else {
                    DbValue::from(ss)
                }
            }
        }
    }

    /// takes a `DbValue` apart with the public accessors
    pub fn read(v: &DbValue) -> Raw {
        match v {
            DbValue::Bytes(_) => Raw::Bytes(v.bytes().map(|b| b.clone()).unwrap_or_default()),
            DbValue::I64(_) => Raw::I64(v.to_i64().unwrap_or_default()),
            DbValue::U64(_) => Raw::U64(v.to_u64().unwrap_or_default()),
            DbValue::F64(_) => Raw::F64(v.to_f64().map(|x| x.to_f64().to_bits()).unwrap_or_default()),
            DbValue::String(_) => Raw::Str(v.string().map(|s| s.as_bytes().to_vec()).unwrap_or_default()),
            DbValue::VecI64(_) => Raw::VecI64(v.vec_i64().cloned().unwrap_or_default()),
            DbValue::VecU64(_) => Raw::VecU64(v.vec_u64().cloned().unwrap_or_default()),
            DbValue::VecF64(_) => {
                Raw::VecF64(v.vec_f64().map(|x| x.iter().map(|f| f.to_f64().to_bits()).collect()).unwrap_or_default())
            }
            DbValue::VecString(_) => {
                Raw::VecStr(v.vec_string().map(|x| x.iter().map(|s| s.as_bytes().to_vec()).collect()).unwrap_or_default())
            }
        }
    }

    /// `None` = identical; `Some(true)` = same variant (and length) but float bit patterns differ;
    /// `Some(false)` = any other difference
    pub fn diff(&self, got: &Raw) -> Option<bool> {
        if self == got {
            return None;
        }
        match (self, got) {
            (Raw::F64(_), Raw::F64(_)) => Some(true),
            (Raw::VecF64(a), Raw::VecF64(b)) if a.len() == b.len() => Some(true),
            _ => Some(false),
        }
    }
}
