//! Corpus of types driven through `agdb::AgdbSerialize`, their mapping to the canonical
//! value tree `V` / schema text, value generators and the type-erased registry.

use crate::guard::Fail;
use crate::guard::guarded;
use crate::rng::Rng;
use crate::val::Sch;
use crate::val::V;
use agdb::AgdbSerialize;
use agdb::Comparison;
use agdb::CountComparison;
use agdb::DbF64;
use agdb::DbId;
use agdb::DbKeyOrder;
use agdb::DbKeyValue;
use agdb::DbValue;
use agdb::InsertAliasesQuery;
use agdb::InsertEdgesQuery;
use agdb::InsertIndexQuery;
use agdb::InsertNodesQuery;
use agdb::InsertValuesQuery;
use agdb::QueryCondition;
use agdb::QueryConditionData;
use agdb::QueryIds;
use agdb::QueryType;
use agdb::QueryValues;
use agdb::RemoveAliasesQuery;
use agdb::RemoveIndexQuery;
use agdb::RemoveQuery;
use agdb::RemoveValuesQuery;
use agdb::SearchQuery;
use agdb::SelectAliasesQuery;
use agdb::SelectAllAliasesQuery;
use agdb::SelectEdgeCountQuery;
use agdb::SelectIndexesQuery;
use agdb::SelectKeyCountQuery;
use agdb::SelectKeysQuery;
use agdb::SelectNodeCountQuery;
use agdb::SelectValuesQuery;
use agdb::KeyValueComparison;
use agdb::QueryConditionLogic;
use agdb::QueryConditionModifier;
use agdb::QueryId;
use agdb::SearchQueryAlgorithm;
use std::fmt::Debug;
use std::net::IpAddr;
use std::net::Ipv4Addr;
use std::net::Ipv6Addr;
use std::net::SocketAddr;
use std::net::SocketAddrV4;
use std::net::SocketAddrV6;
use std::path::PathBuf;
use std::time::Duration;
use std::time::SystemTime;
use std::time::UNIX_EPOCH;

pub trait Tv: AgdbSerialize + Sized + PartialEq + Debug + 'static {
    fn schema() -> String;
    /// schema with the recursive `QueryCondition` unrolled `k` times (`schema()` for every type
    /// that cannot contain a condition): S(0) has `Where` = `v(u64)`, S(k+1) has `Where` = `v(S(k))`
    fn schema_at(_k: u32) -> String {
        Self::schema()
    }
    /// max nesting of NON-empty `Where` vectors over all conditions inside the value
    fn cond_depth(&self) -> u32 {
        0
    }
    fn to_v(&self) -> V;
    fn from_v(v: &V) -> Option<Self>;
    fn generate(rng: &mut Rng, depth: u32) -> Self;
    /// Equality used by the round-trip oracle: `PartialEq` wherever it is an equivalence,
    /// bitwise for raw `f64` (NaN != NaN under `PartialEq`), structural for containers.
    fn same(&self, other: &Self) -> bool {
        self == other
    }
}

// ---------------------------------------------------------------- leaf generators

const U64_EDGES: &[u64] = &[
    0,
    1,
    255,
    256,
    1 << 32,
    i64::MAX as u64,
    1 << 63,
    u64::MAX,
    u64::MAX - 1,
    65535,
    65536,
    (1 << 32) - 1,
    (1 << 27),
    (1 << 40),
];

pub fn gen_u64(rng: &mut Rng) -> u64 {
    match rng.below(4) {
        0 | 1 => *rng.pick(U64_EDGES),
        2 => rng.next(),
        _ => {
            let bits = rng.range(1, 64);
            rng.next() >> (64 - bits)
        }
    }
}

pub fn gen_i64(rng: &mut Rng) -> i64 {
    const E: &[i64] = &[0, 1, -1, i64::MIN, i64::MAX, 255, 256, -256, 1 << 32, -(1 << 32), i64::MIN + 1];
    match rng.below(4) {
        0 | 1 => *rng.pick(E),
        2 => rng.next() as i64,
        _ => {
            let bits = rng.range(1, 63);
            let m = (rng.next() >> (64 - bits)) as i64;
            if rng.chance(1, 2) { -m } else { m }
        }
    }
}

pub fn gen_f64(rng: &mut Rng) -> f64 {
    match rng.below(10) {
        0 => 0.0,
        1 => -0.0,
        2 => f64::INFINITY,
        3 => f64::NEG_INFINITY,
        // NaNs: random payload, quiet or signalling, either sign
        4 | 5 => {
            let mut payload = rng.next() & 0x000f_ffff_ffff_ffff;
            if rng.chance(1, 2) {
                payload &= !(1 << 51); // signalling
            }
            if payload == 0 {
                payload = 1;
            }
            let sign = if rng.chance(1, 2) { 1u64 << 63 } else { 0 };
            f64::from_bits(sign | 0x7ff0_0000_0000_0000 | payload)
        }
        // subnormals
        6 => {
            let sign = if rng.chance(1, 2) { 1u64 << 63 } else { 0 };
            f64::from_bits(sign | (rng.next() & 0x000f_ffff_ffff_ffff).max(1))
        }
        7 => *rng.pick(&[1.0, -1.0, 0.5, std::f64::consts::PI, f64::MAX, f64::MIN, f64::MIN_POSITIVE, f64::EPSILON, 1e300, -1e-300]),
        _ => f64::from_bits(rng.next()),
    }
}

pub fn gen_string(rng: &mut Rng) -> String {
    const UNI: &[char] = &[
        'é', 'ß', 'Ω', 'ж', '€', '中', '文', 'あ', '\u{ffff}', '\u{800}', '😀', '𝄞', '\u{10ffff}', '\u{10000}', '\u{7f}', '\0', ' ', '\n', '"',
        '\\', '\u{80}', '\u{7ff}', '\u{fffd}',
    ];
    let kind = rng.below(8);
    if kind == 0 {
        return String::new();
    }
    let n = rng.range(1, 40) as usize;
    let mut s = String::new();
    for _ in 0..n {
        let c = match kind {
            1..=3 => (b' ' + (rng.below(95) as u8)) as char,
            4 | 5 => {
                if rng.chance(1, 2) {
                    *rng.pick(UNI)
                } else {
                    (b'a' + (rng.below(26) as u8)) as char
                }
            }
            6 => *rng.pick(UNI),
            _ => loop {
                let c = rng.below(0x11_0000) as u32;
                if let Some(c) = char::from_u32(c) {
                    break c;
                }
            },
        };
        s.push(c);
    }
    s
}

pub fn gen_bytes(rng: &mut Rng) -> Vec<u8> {
    let n = match rng.below(10) {
        0 => 0,
        1 => 300,
        2 => 13,
        _ => rng.range(1, 40) as usize,
    };
    rng.bytes(n)
}

pub fn gen_time(rng: &mut Rng) -> SystemTime {
    let nanos = |rng: &mut Rng| match rng.below(4) {
        0 => 0,
        1 => 999_999_999,
        2 => 1,
        _ => rng.below(1_000_000_000) as u32,
    };
    let t = match rng.below(12) {
        0 => Some(UNIX_EPOCH),
        1 => UNIX_EPOCH.checked_add(Duration::new(rng.below(1000), nanos(rng))),
        2 => UNIX_EPOCH.checked_sub(Duration::new(rng.range(1, 1000), 0)),
        3 => UNIX_EPOCH.checked_sub(Duration::new(rng.below(1000), nanos(rng).max(1))),
        4 => UNIX_EPOCH.checked_add(Duration::new(i64::MAX as u64, nanos(rng))),
        5 => UNIX_EPOCH.checked_sub(Duration::new(i64::MAX as u64, nanos(rng))),
        6 => UNIX_EPOCH.checked_sub(Duration::new(1u64 << 63, 0)),
        7 => UNIX_EPOCH.checked_add(Duration::new(1_700_000_000 + rng.below(200_000_000), nanos(rng))),
        8 => UNIX_EPOCH.checked_sub(Duration::new(rng.next() >> rng.range(1, 40), nanos(rng))),
        9 => UNIX_EPOCH.checked_add(Duration::new(0, nanos(rng))),
        _ => UNIX_EPOCH.checked_add(Duration::new(rng.next() >> rng.range(1, 40), nanos(rng))),
    };
    t.unwrap_or(UNIX_EPOCH)
}

pub fn gen_path(rng: &mut Rng) -> PathBuf {
    match rng.below(8) {
        0 => PathBuf::new(),
        1 => PathBuf::from("/"),
        2 => PathBuf::from("/some/test/path"),
        3 => PathBuf::from("relative/dir/../file.txt"),
        4 => PathBuf::from("C:\\Users\\x\\data.agdb"),
        5 => PathBuf::from(format!("/tmp/{}", gen_string(rng).replace('\0', "_"))),
        6 => PathBuf::from("/données/文件/😀.agdb"),
        _ => PathBuf::from(gen_string(rng).replace('\0', "/")),
    }
}

pub fn gen_v4(rng: &mut Rng) -> Ipv4Addr {
    match rng.below(6) {
        0 => Ipv4Addr::new(0, 0, 0, 0),
        1 => Ipv4Addr::new(255, 255, 255, 255),
        2 => Ipv4Addr::new(127, 0, 0, 1),
        3 => Ipv4Addr::new(1, 2, 3, 4),
        _ => Ipv4Addr::from((rng.next() >> 32) as u32),
    }
}

pub fn gen_v6(rng: &mut Rng) -> Ipv6Addr {
    let g = |rng: &mut Rng| -> u16 {
        match rng.below(4) {
            0 => 0,
            1 => 0xffff,
            2 => rng.below(16) as u16,
            _ => (rng.next() >> 48) as u16,
        }
    };
    match rng.below(10) {
        0 => Ipv6Addr::UNSPECIFIED,
        1 => Ipv6Addr::LOCALHOST,
        // v4-mapped
        2 => gen_v4(rng).to_ipv6_mapped(),
        3 => Ipv6Addr::new(0, 0, 0, 0, 0, 0xffff, 0, 0),
        // v4-compatible / low groups only
        4 => Ipv6Addr::new(0, 0, 0, 0, 0, 0, g(rng), g(rng)),
        // full 8 non-zero groups
        5 => {
            let mut s = [0u16; 8];
            for x in s.iter_mut() {
                *x = ((rng.next() >> 48) as u16).max(1);
            }
            Ipv6Addr::from(s)
        }
        // zero runs in different places
        6 | 7 => {
            let mut s = [0u16; 8];
            for x in s.iter_mut() {
                *x = ((rng.next() >> 48) as u16).max(1);
            }
            let runs = rng.range(1, 2);
            for _ in 0..runs {
                let st = rng.usize_below(8);
                let len = rng.range(1, 8 - st as u64) as usize;
                for x in s[st..st + len].iter_mut() {
                    *x = 0;
                }
            }
            Ipv6Addr::from(s)
        }
        8 => Ipv6Addr::new(0xfe80, 0, 0, 0, g(rng), g(rng), g(rng), g(rng)),
        _ => Ipv6Addr::new(g(rng), g(rng), g(rng), g(rng), g(rng), g(rng), g(rng), g(rng)),
    }
}

pub fn gen_ip(rng: &mut Rng) -> IpAddr {
    if rng.chance(2, 5) { IpAddr::V4(gen_v4(rng)) } else { IpAddr::V6(gen_v6(rng)) }
}

pub fn gen_port(rng: &mut Rng) -> u16 {
    match rng.below(5) {
        0 => 0,
        1 => 65535,
        2 => 80,
        3 => 8080,
        _ => (rng.next() >> 48) as u16,
    }
}

pub fn gen_sock(rng: &mut Rng) -> SocketAddr {
    if rng.chance(2, 5) {
        SocketAddr::V4(SocketAddrV4::new(gen_v4(rng), gen_port(rng)))
    } else {
        let scope = match rng.below(4) {
            0 => rng.range(1, 9) as u32,
            1 => (rng.next() >> 32) as u32,
            _ => 0,
        };
        SocketAddr::V6(SocketAddrV6::new(gen_v6(rng), gen_port(rng), 0, scope))
    }
}

pub fn gen_len(rng: &mut Rng, depth: u32) -> usize {
    if depth == 0 && rng.chance(1, 40) {
        return 100;
    }
    if depth >= 2 {
        return rng.below(4) as usize;
    }
    rng.below(7) as usize
}

// ---------------------------------------------------------------- leaves

impl Tv for u64 {
    fn schema() -> String {
        "u64".into()
    }
    fn to_v(&self) -> V {
        V::N(*self)
    }
    fn from_v(v: &V) -> Option<Self> {
        if let V::N(n) = v { Some(*n) } else { None }
    }
    fn generate(rng: &mut Rng, _d: u32) -> Self {
        gen_u64(rng)
    }
}

impl Tv for usize {
    fn schema() -> String {
        "usize".into()
    }
    fn to_v(&self) -> V {
        V::N(*self as u64)
    }
    fn from_v(v: &V) -> Option<Self> {
        if let V::N(n) = v { usize::try_from(*n).ok() } else { None }
    }
    fn generate(rng: &mut Rng, _d: u32) -> Self {
        gen_u64(rng) as usize
    }
}

impl Tv for i64 {
    fn schema() -> String {
        "i64".into()
    }
    fn to_v(&self) -> V {
        V::N(*self as u64)
    }
    fn from_v(v: &V) -> Option<Self> {
        if let V::N(n) = v { Some(*n as i64) } else { None }
    }
    fn generate(rng: &mut Rng, _d: u32) -> Self {
        gen_i64(rng)
    }
}

impl Tv for f64 {
    fn schema() -> String {
        "f64".into()
    }
    fn to_v(&self) -> V {
        V::N(self.to_bits())
    }
    fn from_v(v: &V) -> Option<Self> {
        if let V::N(n) = v { Some(f64::from_bits(*n)) } else { None }
    }
    fn generate(rng: &mut Rng, _d: u32) -> Self {
        gen_f64(rng)
    }
    fn same(&self, other: &Self) -> bool {
        self.to_bits() == other.to_bits()
    }
}

impl Tv for DbF64 {
    fn schema() -> String {
        "f64".into()
    }
    fn to_v(&self) -> V {
        V::N(self.to_f64().to_bits())
    }
    fn from_v(v: &V) -> Option<Self> {
        if let V::N(n) = v { Some(DbF64::from(f64::from_bits(*n))) } else { None }
    }
    fn generate(rng: &mut Rng, _d: u32) -> Self {
        DbF64::from(gen_f64(rng))
    }
    // DbF64's PartialEq is total_cmp == Equal, i.e. bitwise: a proper equivalence.
}

impl Tv for bool {
    fn schema() -> String {
        "bool".into()
    }
    fn to_v(&self) -> V {
        V::B(*self)
    }
    fn from_v(v: &V) -> Option<Self> {
        if let V::B(b) = v { Some(*b) } else { None }
    }
    fn generate(rng: &mut Rng, _d: u32) -> Self {
        rng.chance(1, 2)
    }
}

impl Tv for String {
    fn schema() -> String {
        "str".into()
    }
    fn to_v(&self) -> V {
        V::X(self.as_bytes().to_vec())
    }
    fn from_v(v: &V) -> Option<Self> {
        if let V::X(x) = v { String::from_utf8(x.clone()).ok() } else { None }
    }
    fn generate(rng: &mut Rng, _d: u32) -> Self {
        gen_string(rng)
    }
}

impl Tv for Vec<u8> {
    fn schema() -> String {
        "bytes".into()
    }
    fn to_v(&self) -> V {
        V::X(self.clone())
    }
    fn from_v(v: &V) -> Option<Self> {
        if let V::X(x) = v { Some(x.clone()) } else { None }
    }
    fn generate(rng: &mut Rng, _d: u32) -> Self {
        gen_bytes(rng)
    }
}

pub fn time_to_v(t: &SystemTime) -> V {
    match t.duration_since(UNIX_EPOCH) {
        Ok(d) => V::T(d.as_secs() as i128, d.subsec_nanos()),
        Err(e) => {
            let d = e.duration();
            if d.subsec_nanos() == 0 {
                V::T(-(d.as_secs() as i128), 0)
            } else {
                V::T(-(d.as_secs() as i128) - 1, 1_000_000_000 - d.subsec_nanos())
            }
        }
    }
}

pub fn time_from_v(v: &V) -> Option<SystemTime> {
    let V::T(sec, nsec) = v else { return None };
    if *nsec >= 1_000_000_000 {
        return None;
    }
    if *sec >= 0 {
        UNIX_EPOCH.checked_add(Duration::new(u64::try_from(*sec).ok()?, *nsec))
    } else if *nsec == 0 {
        UNIX_EPOCH.checked_sub(Duration::new(u64::try_from(-*sec).ok()?, 0))
    } else {
        UNIX_EPOCH.checked_sub(Duration::new(u64::try_from(-*sec - 1).ok()?, 1_000_000_000 - *nsec))
    }
}

impl Tv for SystemTime {
    fn schema() -> String {
        "time".into()
    }
    fn to_v(&self) -> V {
        time_to_v(self)
    }
    fn from_v(v: &V) -> Option<Self> {
        time_from_v(v)
    }
    fn generate(rng: &mut Rng, _d: u32) -> Self {
        gen_time(rng)
    }
}

impl Tv for PathBuf {
    fn schema() -> String {
        "path".into()
    }
    fn to_v(&self) -> V {
        V::X(self.to_string_lossy().as_bytes().to_vec())
    }
    fn from_v(v: &V) -> Option<Self> {
        if let V::X(x) = v { Some(PathBuf::from(String::from_utf8(x.clone()).ok()?)) } else { None }
    }
    fn generate(rng: &mut Rng, _d: u32) -> Self {
        gen_path(rng)
    }
}

impl Tv for SocketAddr {
    fn schema() -> String {
        "sock".into()
    }
    fn to_v(&self) -> V {
        V::X(self.to_string().into_bytes())
    }
    fn from_v(v: &V) -> Option<Self> {
        // only the canonical spelling (`to_string()`) denotes a value
        let V::X(x) = v else { return None };
        let s = std::str::from_utf8(x).ok()?;
        let a: SocketAddr = s.parse().ok()?;
        if a.to_string() == s { Some(a) } else { None }
    }
    fn generate(rng: &mut Rng, _d: u32) -> Self {
        gen_sock(rng)
    }
}

impl Tv for IpAddr {
    fn schema() -> String {
        "ip".into()
    }
    fn to_v(&self) -> V {
        V::X(self.to_string().into_bytes())
    }
    fn from_v(v: &V) -> Option<Self> {
        // only the canonical spelling (`to_string()`) denotes a value
        let V::X(x) = v else { return None };
        let s = std::str::from_utf8(x).ok()?;
        let a: IpAddr = s.parse().ok()?;
        if a.to_string() == s { Some(a) } else { None }
    }
    fn generate(rng: &mut Rng, _d: u32) -> Self {
        gen_ip(rng)
    }
}

impl<T: Tv> Tv for Vec<T> {
    fn schema() -> String {
        format!("v({})", T::schema())
    }
    fn schema_at(k: u32) -> String {
        format!("v({})", T::schema_at(k))
    }
    fn cond_depth(&self) -> u32 {
        self.iter().map(|x| x.cond_depth()).max().unwrap_or(0)
    }
    fn to_v(&self) -> V {
        V::L(self.iter().map(|x| x.to_v()).collect())
    }
    fn from_v(v: &V) -> Option<Self> {
        if let V::L(vs) = v { vs.iter().map(T::from_v).collect() } else { None }
    }
    fn generate(rng: &mut Rng, depth: u32) -> Self {
        let n = gen_len(rng, depth);
        (0..n).map(|_| T::generate(rng, depth + 1)).collect()
    }
    fn same(&self, other: &Self) -> bool {
        self.len() == other.len() && self.iter().zip(other).all(|(a, b)| a.same(b))
    }
}

// ---------------------------------------------------------------- lossy wrappers (C20 known lossy encodings)

/// A `PathBuf` that is NOT valid UTF-8. Its canonical text is the lossy form (what `serialize`
/// writes); `from_v` maps every U+FFFD of the text back to the single invalid byte 0xFF so that
/// replay reconstructs a non-UTF-8 path deterministically.
#[derive(Debug, Clone, PartialEq)]
pub struct LossyPath(pub PathBuf);

impl AgdbSerialize for LossyPath {
    fn serialize(&self) -> Vec<u8> {
        self.0.serialize()
    }
    fn deserialize(bytes: &[u8]) -> Result<Self, agdb::DbError> {
        Ok(LossyPath(PathBuf::deserialize(bytes)?))
    }
    fn serialized_size(&self) -> u64 {
        self.0.serialized_size()
    }
}

#[cfg(unix)]
fn path_from_bytes(b: Vec<u8>) -> PathBuf {
    use std::os::unix::ffi::OsStringExt;
    PathBuf::from(std::ffi::OsString::from_vec(b))
}

#[cfg(not(unix))]
fn path_from_bytes(b: Vec<u8>) -> PathBuf {
    PathBuf::from(String::from_utf8_lossy(&b).to_string())
}

impl Tv for LossyPath {
    fn schema() -> String {
        "path".into()
    }
    fn to_v(&self) -> V {
        self.0.to_v()
    }
    fn from_v(v: &V) -> Option<Self> {
        let V::X(x) = v else { return None };
        let s = std::str::from_utf8(x).ok()?;
        let mut raw = Vec::with_capacity(x.len());
        for c in s.chars() {
            if c == '\u{fffd}' {
                raw.push(0xff);
            } else {
                let mut b = [0u8; 4];
                raw.extend_from_slice(c.encode_utf8(&mut b).as_bytes());
            }
        }
        Some(LossyPath(path_from_bytes(raw)))
    }
    fn generate(rng: &mut Rng, _d: u32) -> Self {
        let mut raw = b"/tmp/".to_vec();
        let n = rng.range(1, 3);
        for _ in 0..n {
            raw.extend_from_slice(gen_string(rng).replace(['\0', '\u{fffd}'], "_").as_bytes());
            raw.push(0xff);
        }
        if rng.chance(1, 2) {
            raw.extend_from_slice(b".agdb");
        }
        LossyPath(path_from_bytes(raw))
    }
}

/// A `SocketAddr::V6` with non-zero flowinfo (not part of `to_string()`, so dropped by `serialize`).
/// `from_v` parses the text and sets flowinfo to `FLOW`.
#[derive(Debug, Clone, PartialEq)]
pub struct FlowSock(pub SocketAddr);

pub const FLOW: u32 = 0x000a_bcde;

impl AgdbSerialize for FlowSock {
    fn serialize(&self) -> Vec<u8> {
        self.0.serialize()
    }
    fn deserialize(bytes: &[u8]) -> Result<Self, agdb::DbError> {
        Ok(FlowSock(SocketAddr::deserialize(bytes)?))
    }
    fn serialized_size(&self) -> u64 {
        self.0.serialized_size()
    }
}

impl Tv for FlowSock {
    fn schema() -> String {
        "sock".into()
    }
    fn to_v(&self) -> V {
        self.0.to_v()
    }
    fn from_v(v: &V) -> Option<Self> {
        let mut a = SocketAddr::from_v(v)?;
        if let SocketAddr::V6(a6) = &mut a {
            a6.set_flowinfo(FLOW);
        }
        Some(FlowSock(a))
    }
    fn generate(rng: &mut Rng, _d: u32) -> Self {
        let scope = if rng.chance(1, 3) { rng.range(1, 9) as u32 } else { 0 };
        FlowSock(SocketAddr::V6(SocketAddrV6::new(gen_v6(rng), gen_port(rng), FLOW, scope)))
    }
}

// ---------------------------------------------------------------- composite impl macros

macro_rules! tv_named {
    ($name:ident $(<$g:ident>)? { $($f:ident : $t:ty),* $(,)? }) => {
        impl $(<$g: Tv>)? Tv for $name $(<$g>)? {
            fn schema() -> String {
                Self::schema_at(0)
            }
            #[allow(unused_variables)]
            fn schema_at(k: u32) -> String {
                let parts: Vec<String> = vec![$(<$t as Tv>::schema_at(k)),*];
                format!("s({})", parts.join(","))
            }
            fn cond_depth(&self) -> u32 {
                0u32 $(.max(self.$f.cond_depth()))*
            }
            fn to_v(&self) -> V {
                V::S(vec![$(self.$f.to_v()),*])
            }
            #[allow(unused_mut, unused_variables)]
            fn from_v(v: &V) -> Option<Self> {
                let V::S(fs) = v else { return None };
                let mut it = fs.iter();
                let r = Self { $($f: <$t as Tv>::from_v(it.next()?)?),* };
                if it.next().is_some() {
                    return None;
                }
                Some(r)
            }
            #[allow(unused_variables)]
            fn generate(rng: &mut Rng, depth: u32) -> Self {
                Self { $($f: <$t as Tv>::generate(rng, depth + 1)),* }
            }
            #[allow(unused_variables)]
            fn same(&self, other: &Self) -> bool {
                true $(&& self.$f.same(&other.$f))*
            }
        }
    };
}

macro_rules! tv_tuple {
    ($name:ident ( $($idx:tt : $t:ty),* $(,)? )) => {
        impl Tv for $name {
            fn schema() -> String {
                Self::schema_at(0)
            }
            fn schema_at(k: u32) -> String {
                let parts: Vec<String> = vec![$(<$t as Tv>::schema_at(k)),*];
                format!("s({})", parts.join(","))
            }
            fn cond_depth(&self) -> u32 {
                0u32 $(.max(self.$idx.cond_depth()))*
            }
            fn to_v(&self) -> V {
                V::S(vec![$(self.$idx.to_v()),*])
            }
            fn from_v(v: &V) -> Option<Self> {
                let V::S(fs) = v else { return None };
                let mut it = fs.iter();
                let r = Self($(<$t as Tv>::from_v(it.next()?)?),*);
                if it.next().is_some() {
                    return None;
                }
                Some(r)
            }
            fn generate(rng: &mut Rng, depth: u32) -> Self {
                Self($(<$t as Tv>::generate(rng, depth + 1)),*)
            }
            fn same(&self, other: &Self) -> bool {
                true $(&& self.$idx.same(&other.$idx))*
            }
        }
    };
}

/// `tv_enum!(Name { 0 A [], 1 B (a: u64, b: String), 2 C {x: Vec<i64>} })`
/// shape `[]` = unit variant, `( .. )` = tuple variant (binding names are arbitrary),
/// `{ .. }` = struct variant (real field names). Tags must be the declaration indices.
macro_rules! tv_enum {
    (@pat $n:ident $v:ident []) => { $n::$v };
    (@pat $n:ident $v:ident ( $($f:ident : $t:ty),* )) => { $n::$v($($f),*) };
    (@pat $n:ident $v:ident { $($f:ident : $t:ty),* }) => { $n::$v { $($f),* } };
    (@tov []) => { Vec::<V>::new() };
    (@tov ( $($f:ident : $t:ty),* )) => { vec![$(<$t as Tv>::to_v($f)),*] };
    (@tov { $($f:ident : $t:ty),* }) => { vec![$(<$t as Tv>::to_v($f)),*] };
    (@schema $k:ident []) => { String::new() };
    (@schema $k:ident ( $($f:ident : $t:ty),* )) => { { let fs: Vec<String> = vec![$(<$t as Tv>::schema_at($k)),*]; fs.join(",") } };
    (@schema $k:ident { $($f:ident : $t:ty),* }) => { { let fs: Vec<String> = vec![$(<$t as Tv>::schema_at($k)),*]; fs.join(",") } };
    (@depth []) => { 0u32 };
    (@depth ( $($f:ident : $t:ty),* )) => { 0u32 $(.max(<$t as Tv>::cond_depth($f)))* };
    (@depth { $($f:ident : $t:ty),* }) => { 0u32 $(.max(<$t as Tv>::cond_depth($f)))* };
    (@ctor $n:ident $v:ident [] $it:ident) => { $n::$v };
    (@ctor $n:ident $v:ident ( $($f:ident : $t:ty),* ) $it:ident) => { $n::$v($(<$t as Tv>::from_v($it.next()?)?),*) };
    (@ctor $n:ident $v:ident { $($f:ident : $t:ty),* } $it:ident) => { $n::$v { $($f: <$t as Tv>::from_v($it.next()?)?),* } };
    (@gen $n:ident $v:ident [] $rng:ident $d:ident) => { $n::$v };
    (@gen $n:ident $v:ident ( $($f:ident : $t:ty),* ) $rng:ident $d:ident) => { $n::$v($(<$t as Tv>::generate($rng, $d + 1)),*) };
    (@gen $n:ident $v:ident { $($f:ident : $t:ty),* } $rng:ident $d:ident) => { $n::$v { $($f: <$t as Tv>::generate($rng, $d + 1)),* } };

    ($name:ident { $($tag:literal $var:ident $shape:tt),* $(,)? }) => {
        impl Tv for $name {
            fn schema() -> String {
                Self::schema_at(0)
            }
            #[allow(unused_variables)]
            fn schema_at(k: u32) -> String {
                let vs: Vec<String> = vec![$(tv_enum!(@schema k $shape)),*];
                format!("e({})", vs.join("|"))
            }
            fn cond_depth(&self) -> u32 {
                match self {
                    $(tv_enum!(@pat $name $var $shape) => tv_enum!(@depth $shape),)*
                }
            }
            fn to_v(&self) -> V {
                match self {
                    $(tv_enum!(@pat $name $var $shape) => V::E($tag, tv_enum!(@tov $shape)),)*
                }
            }
            #[allow(unused_mut, unused_variables)]
            fn from_v(v: &V) -> Option<Self> {
                let V::E(tag, fs) = v else { return None };
                let mut it = fs.iter();
                let r = match *tag {
                    $($tag => tv_enum!(@ctor $name $var $shape it),)*
                    _ => return None,
                };
                if it.next().is_some() {
                    return None;
                }
                Some(r)
            }
            #[allow(unused_variables)]
            fn generate(rng: &mut Rng, depth: u32) -> Self {
                let tags: &[u64] = &[$($tag),*];
                match *rng.pick(tags) {
                    $($tag => tv_enum!(@gen $name $var $shape rng depth),)*
                    _ => unreachable!(),
                }
            }
        }
    };
}

// ---------------------------------------------------------------- agdb types

tv_tuple!(DbId(0: i64));

tv_enum!(DbValue {
    0 Bytes(a: Vec<u8>),
    1 I64(a: i64),
    2 U64(a: u64),
    3 F64(a: DbF64),
    4 String(a: String),
    5 VecI64(a: Vec<i64>),
    6 VecU64(a: Vec<u64>),
    7 VecF64(a: Vec<DbF64>),
    8 VecString(a: Vec<String>),
});

tv_named!(DbKeyValue { key: DbValue, value: DbValue });

tv_enum!(QueryId { 0 Id(a: DbId), 1 Alias(a: String) });

tv_enum!(DbKeyOrder { 0 Asc(a: DbValue), 1 Desc(a: DbValue) });

tv_enum!(SearchQueryAlgorithm { 0 BreadthFirst [], 1 DepthFirst [], 2 Index [], 3 Elements [] });

tv_enum!(QueryConditionLogic { 0 And [], 1 Or [] });

tv_enum!(QueryConditionModifier { 0 None [], 1 Beyond [], 2 Not [], 3 NotBeyond [] });

tv_enum!(CountComparison {
    0 Equal(a: u64),
    1 GreaterThan(a: u64),
    2 GreaterThanOrEqual(a: u64),
    3 LessThan(a: u64),
    4 LessThanOrEqual(a: u64),
    5 NotEqual(a: u64),
});

tv_enum!(Comparison {
    0 Equal(a: DbValue),
    1 GreaterThan(a: DbValue),
    2 GreaterThanOrEqual(a: DbValue),
    3 LessThan(a: DbValue),
    4 LessThanOrEqual(a: DbValue),
    5 NotEqual(a: DbValue),
    6 Contains(a: DbValue),
    7 StartsWith(a: DbValue),
    8 EndsWith(a: DbValue),
});

tv_named!(KeyValueComparison { key: DbValue, value: Comparison });

// ---------------------------------------------------------------- recursive query types (C20 only)
//
// `QueryCondition` is recursive through `QueryConditionData::Where(Vec<QueryCondition>)`. The wire
// schema has no recursion binder, so a value is described by the schema unrolled to the value's
// own nesting depth: S(0) = QueryCondition with `Where` = `v(u64)` (placeholder, such vectors are
// empty), S(k+1) = QueryCondition with `Where` = `v(S(k))`.

fn gen_condition(rng: &mut Rng, budget: u32) -> QueryCondition {
    QueryCondition {
        logic: QueryConditionLogic::generate(rng, 2),
        modifier: QueryConditionModifier::generate(rng, 2),
        data: gen_condition_data(rng, budget),
    }
}

/// `budget` = how many more levels of non-empty `Where` may follow
fn gen_condition_data(rng: &mut Rng, budget: u32) -> QueryConditionData {
    // spend the budget with probability 1/2: a Where with 1..3 children one level down
    if budget > 0 && rng.chance(1, 2) {
        let n = rng.range(1, 3);
        return QueryConditionData::Where((0..n).map(|_| gen_condition(rng, budget - 1)).collect());
    }
    match rng.below(10) {
        0 => QueryConditionData::Distance(CountComparison::generate(rng, 2)),
        1 => QueryConditionData::Edge,
        2 => QueryConditionData::EdgeCount(CountComparison::generate(rng, 2)),
        3 => QueryConditionData::EdgeCountFrom(CountComparison::generate(rng, 2)),
        4 => QueryConditionData::EdgeCountTo(CountComparison::generate(rng, 2)),
        5 => QueryConditionData::Ids(Vec::<QueryId>::generate(rng, 2)),
        6 => QueryConditionData::KeyValue(KeyValueComparison::generate(rng, 2)),
        7 => QueryConditionData::Keys(Vec::<DbValue>::generate(rng, 2)),
        8 => QueryConditionData::Node,
        // Where with 0..3 children (always empty once the budget is used up)
        _ => {
            let n = if budget == 0 { 0 } else { rng.below(4) };
            QueryConditionData::Where((0..n).map(|_| gen_condition(rng, budget - 1)).collect())
        }
    }
}

impl Tv for QueryConditionData {
    fn schema() -> String {
        Self::schema_at(0)
    }
    fn schema_at(k: u32) -> String {
        let cc = CountComparison::schema();
        let wh = if k == 0 { "v(u64)".to_string() } else { format!("v({})", QueryCondition::schema_at(k - 1)) };
        format!(
            "e({cc}||{cc}|{cc}|{cc}|{}|{}|{}||{wh})",
            Vec::<QueryId>::schema(),
            KeyValueComparison::schema(),
            Vec::<DbValue>::schema()
        )
    }
    fn cond_depth(&self) -> u32 {
        match self {
            QueryConditionData::Where(c) if !c.is_empty() => 1 + c.cond_depth(),
            _ => 0,
        }
    }
    fn to_v(&self) -> V {
        match self {
            QueryConditionData::Distance(c) => V::E(0, vec![c.to_v()]),
            QueryConditionData::Edge => V::E(1, vec![]),
            QueryConditionData::EdgeCount(c) => V::E(2, vec![c.to_v()]),
            QueryConditionData::EdgeCountFrom(c) => V::E(3, vec![c.to_v()]),
            QueryConditionData::EdgeCountTo(c) => V::E(4, vec![c.to_v()]),
            QueryConditionData::Ids(x) => V::E(5, vec![x.to_v()]),
            QueryConditionData::KeyValue(x) => V::E(6, vec![x.to_v()]),
            QueryConditionData::Keys(x) => V::E(7, vec![x.to_v()]),
            QueryConditionData::Node => V::E(8, vec![]),
            QueryConditionData::Where(x) => V::E(9, vec![x.to_v()]),
        }
    }
    fn from_v(v: &V) -> Option<Self> {
        let V::E(tag, fs) = v else { return None };
        let one = || if fs.len() == 1 { Some(&fs[0]) } else { None };
        Some(match *tag {
            0 => QueryConditionData::Distance(CountComparison::from_v(one()?)?),
            1 if fs.is_empty() => QueryConditionData::Edge,
            2 => QueryConditionData::EdgeCount(CountComparison::from_v(one()?)?),
            3 => QueryConditionData::EdgeCountFrom(CountComparison::from_v(one()?)?),
            4 => QueryConditionData::EdgeCountTo(CountComparison::from_v(one()?)?),
            5 => QueryConditionData::Ids(Vec::<QueryId>::from_v(one()?)?),
            6 => QueryConditionData::KeyValue(KeyValueComparison::from_v(one()?)?),
            7 => QueryConditionData::Keys(Vec::<DbValue>::from_v(one()?)?),
            8 if fs.is_empty() => QueryConditionData::Node,
            9 => QueryConditionData::Where(Vec::<QueryCondition>::from_v(one()?)?),
            _ => return None,
        })
    }
    fn generate(rng: &mut Rng, _depth: u32) -> Self {
        // nesting budget 0..4, mostly 0..2
        let budget = match rng.below(100) {
            0..30 => 0,
            30..60 => 1,
            60..82 => 2,
            82..93 => 3,
            _ => 4,
        };
        gen_condition_data(rng, budget)
    }
}

tv_named!(QueryCondition { logic: QueryConditionLogic, modifier: QueryConditionModifier, data: QueryConditionData });

tv_named!(SearchQuery {
    algorithm: SearchQueryAlgorithm,
    origin: QueryId,
    destination: QueryId,
    limit: u64,
    offset: u64,
    order_by: Vec<DbKeyOrder>,
    conditions: Vec<QueryCondition>,
});

tv_enum!(QueryIds { 0 Ids(a: Vec<QueryId>), 1 Search(a: SearchQuery) });
tv_enum!(QueryValues { 0 Single(a: Vec<DbKeyValue>), 1 Multi(a: Vec<Vec<DbKeyValue>>) });

tv_named!(InsertAliasesQuery { ids: QueryIds, aliases: Vec<String> });
tv_named!(InsertEdgesQuery { from: QueryIds, to: QueryIds, ids: QueryIds, values: QueryValues, each: bool });
tv_tuple!(InsertIndexQuery(0: DbValue));
tv_named!(InsertNodesQuery { count: u64, values: QueryValues, aliases: Vec<String>, ids: QueryIds });
tv_named!(InsertValuesQuery { ids: QueryIds, values: QueryValues });
tv_tuple!(RemoveAliasesQuery(0: Vec<String>));
tv_tuple!(RemoveIndexQuery(0: DbValue));
tv_tuple!(RemoveQuery(0: QueryIds));
tv_tuple!(RemoveValuesQuery(0: SelectValuesQuery));
tv_tuple!(SelectAliasesQuery(0: QueryIds));
tv_named!(SelectAllAliasesQuery {});
tv_named!(SelectEdgeCountQuery { ids: QueryIds, from: bool, to: bool });
tv_named!(SelectIndexesQuery {});
tv_tuple!(SelectKeyCountQuery(0: QueryIds));
tv_tuple!(SelectKeysQuery(0: QueryIds));
tv_named!(SelectNodeCountQuery {});
tv_named!(SelectValuesQuery { keys: Vec<DbValue>, ids: QueryIds });

tv_enum!(QueryType {
    0 InsertAlias(a: InsertAliasesQuery),
    1 InsertEdges(a: InsertEdgesQuery),
    2 InsertIndex(a: InsertIndexQuery),
    3 InsertNodes(a: InsertNodesQuery),
    4 InsertValues(a: InsertValuesQuery),
    5 Remove(a: RemoveQuery),
    6 RemoveAliases(a: RemoveAliasesQuery),
    7 RemoveIndex(a: RemoveIndexQuery),
    8 RemoveValues(a: RemoveValuesQuery),
    9 Search(a: SearchQuery),
    10 SelectAliases(a: SelectAliasesQuery),
    11 SelectAllAliases(a: SelectAllAliasesQuery),
    12 SelectEdgeCount(a: SelectEdgeCountQuery),
    13 SelectIndexes(a: SelectIndexesQuery),
    14 SelectKeys(a: SelectKeysQuery),
    15 SelectKeyCount(a: SelectKeyCountQuery),
    16 SelectNodeCount(a: SelectNodeCountQuery),
    17 SelectValues(a: SelectValuesQuery),
});

// ---------------------------------------------------------------- harness-defined derived types

#[derive(Debug, Clone, PartialEq, agdb::DbSerialize)]
pub struct Unit;

impl Tv for Unit {
    fn schema() -> String {
        "s()".into()
    }
    fn to_v(&self) -> V {
        V::S(vec![])
    }
    fn from_v(v: &V) -> Option<Self> {
        match v {
            V::S(fs) if fs.is_empty() => Some(Unit),
            _ => None,
        }
    }
    fn generate(_rng: &mut Rng, _d: u32) -> Self {
        Unit
    }
}

#[derive(Debug, Clone, PartialEq, agdb::DbSerialize)]
pub struct Named {
    pub a: u64,
    pub b: String,
    pub c: Vec<i64>,
    pub d: bool,
    pub e: f64,
}
tv_named!(Named { a: u64, b: String, c: Vec<i64>, d: bool, e: f64 });

#[derive(Debug, Clone, PartialEq, agdb::DbSerialize)]
pub struct Tup(pub i64, pub String);
tv_tuple!(Tup(0: i64, 1: String));

#[derive(Debug, Clone, PartialEq, agdb::DbSerialize)]
pub struct Single(pub u64);
tv_tuple!(Single(0: u64));

#[derive(Debug, Clone, PartialEq, agdb::DbSerialize)]
pub struct G<T: AgdbSerialize> {
    pub a: T,
    pub b: Vec<T>,
}
tv_named!(G<T> { a: T, b: Vec<T> });

#[derive(Debug, Clone, PartialEq, agdb::DbSerialize)]
pub enum Mixed {
    A,
    B(u64, String),
    C { x: Vec<i64> },
}
tv_enum!(Mixed { 0 A [], 1 B(p: u64, q: String), 2 C { x: Vec<i64> } });

#[derive(Debug, Clone, PartialEq, agdb::DbSerialize)]
pub struct Inner {
    pub id: i64,
    pub name: String,
}
tv_named!(Inner { id: i64, name: String });

#[derive(Debug, Clone, PartialEq, agdb::DbSerialize)]
pub enum Outer {
    S(Inner),
    E(Mixed),
    Both { a: Inner, b: Mixed, f: DbF64 },
    N,
}
tv_enum!(Outer { 0 S(p: Inner), 1 E(p: Mixed), 2 Both { a: Inner, b: Mixed, f: DbF64 }, 3 N [] });

#[derive(Debug, Clone, PartialEq, agdb::DbSerialize)]
pub struct Big {
    pub e: Mixed,
    pub es: Vec<Mixed>,
    pub t: SystemTime,
    pub p: PathBuf,
    pub ip: IpAddr,
    pub sa: SocketAddr,
}
tv_named!(Big { e: Mixed, es: Vec<Mixed>, t: SystemTime, p: PathBuf, ip: IpAddr, sa: SocketAddr });

#[derive(Debug, Clone, PartialEq, agdb::DbSerialize)]
pub struct AddrThen {
    pub a: IpAddr,
    pub b: u64,
}
tv_named!(AddrThen { a: IpAddr, b: u64 });

#[derive(Debug, Clone, PartialEq, agdb::DbSerialize)]
pub struct SockThen(pub SocketAddr, pub String);
tv_tuple!(SockThen(0: SocketAddr, 1: String));

#[derive(Debug, Clone, PartialEq, agdb::DbSerialize)]
pub enum Tri {
    X,
    Y,
    Z,
}
tv_enum!(Tri { 0 X [], 1 Y [], 2 Z [] });

/// unit struct nested in a struct (never inside a Vec: zero-sized elements would make
/// `Vec<T>::deserialize` iterate an attacker-chosen count without consuming input)
#[derive(Debug, Clone, PartialEq, agdb::DbSerialize)]
pub struct WithUnit {
    pub u: Unit,
    pub n: u64,
    pub t: Tri,
}
tv_named!(WithUnit { u: Unit, n: u64, t: Tri });

#[derive(Debug, Clone, PartialEq, agdb::DbSerialize)]
pub enum TimeOrAddr {
    T(SystemTime),
    A { ip: IpAddr, port: u64 },
    S(SocketAddr, bool),
}
tv_enum!(TimeOrAddr { 0 T(p: SystemTime), 1 A { ip: IpAddr, port: u64 }, 2 S(p: SocketAddr, q: bool) });

// ---------------------------------------------------------------- type-erased drivers

pub enum Outcome {
    /// canonical text of the decoded value, its serialized_size()
    Ok(String, u64),
    /// `{:?}` of DbError.ty
    Err(String),
    Fail(Fail),
}

impl Outcome {
    pub fn line(&self) -> String {
        match self {
            Outcome::Ok(v, adv) => format!("ok {v} {adv}"),
            Outcome::Err(k) => format!("err:{k}"),
            Outcome::Fail(f) => f.line(),
        }
    }

    /// histogram class: ok / err:Kind / panic:site / hugealloc:site
    pub fn class(&self) -> String {
        match self {
            Outcome::Ok(..) => "ok".to_string(),
            other => other.line(),
        }
    }
}

pub struct RoundTrip {
    /// `deserialize(serialize(v))`: Ok(Ok((same, text))) | Ok(Err(kind)) | Err(fail)
    pub back: Result<Result<(bool, String), String>, Fail>,
}

pub struct EncOut {
    pub bytes: Vec<u8>,
    pub size: u64,
    pub rt: RoundTrip,
}

pub struct Driver {
    pub name: &'static str,
    pub schema: String,
    pub sch: Sch,
    /// Some(key suffix) for the wrappers whose encoding is known to lose information
    pub lossy: Option<&'static str>,
    /// None = the value text does not denote a value of this type
    pub enc: fn(&V) -> Option<Result<EncOut, Fail>>,
    pub dec: fn(&[u8]) -> Outcome,
    pub generate: fn(&mut Rng) -> V,
    /// query types: only picked by the C20 generator (never by the C21 mutation generator)
    pub query: bool,
    /// the schema depends on the value (contains the recursive `QueryCondition`)
    pub recursive: bool,
    /// schema with `QueryCondition` unrolled k times (== `schema` unless `recursive`)
    pub schema_at: fn(u32) -> String,
    /// condition nesting depth of a value of this type (None: the text is not such a value)
    pub depth_of: fn(&V) -> Option<u32>,
}

fn depth_impl<T: Tv>(v: &V) -> Option<u32> {
    Some(T::from_v(v)?.cond_depth())
}

fn enc_impl<T: Tv>(v: &V) -> Option<Result<EncOut, Fail>> {
    let value = T::from_v(v)?;
    let ser = guarded(|| {
        let bytes = value.serialize();
        let size = value.serialized_size();
        (bytes, size)
    });
    let (bytes, size) = match ser {
        Ok(x) => x,
        Err(f) => return Some(Err(f)),
    };
    let back = guarded(|| match T::deserialize(&bytes) {
        Ok(d) => Ok((d.same(&value), d.to_v().text())),
        Err(e) => Err(format!("{:?}", e.ty)),
    });
    Some(Ok(EncOut { bytes, size, rt: RoundTrip { back } }))
}

fn dec_impl<T: Tv>(bytes: &[u8]) -> Outcome {
    match guarded(|| T::deserialize(bytes).map(|d| (d.to_v().text(), d.serialized_size()))) {
        Ok(Ok((text, adv))) => Outcome::Ok(text, adv),
        Ok(Err(e)) => Outcome::Err(format!("{:?}", e.ty)),
        Err(f) => Outcome::Fail(f),
    }
}

fn gen_impl<T: Tv>(rng: &mut Rng) -> V {
    T::generate(rng, 0).to_v()
}

fn driver<T: Tv>(name: &'static str, lossy: Option<&'static str>) -> Driver {
    let schema = T::schema();
    let sch = Sch::parse(&schema).unwrap_or_else(|| panic!("harness bug: schema of {name} does not parse: {schema}"));
    let recursive = T::schema_at(1) != schema;
    Driver {
        name,
        schema,
        sch,
        lossy,
        enc: enc_impl::<T>,
        dec: dec_impl::<T>,
        generate: gen_impl::<T>,
        query: false,
        recursive,
        schema_at: T::schema_at,
        depth_of: depth_impl::<T>,
    }
}

fn qdriver<T: Tv>(name: &'static str) -> Driver {
    Driver { query: true, ..driver::<T>(name, None) }
}

pub fn registry() -> Vec<Driver> {
    vec![
        // builtins
        driver::<u64>("U64", None),
        driver::<i64>("I64", None),
        driver::<f64>("F64", None),
        driver::<usize>("Usize", None),
        driver::<bool>("Bool", None),
        driver::<String>("String", None),
        driver::<Vec<u8>>("Bytes", None),
        driver::<SystemTime>("SystemTime", None),
        driver::<PathBuf>("PathBuf", None),
        driver::<SocketAddr>("SocketAddr", None),
        driver::<IpAddr>("IpAddr", None),
        driver::<DbF64>("DbF64", None),
        driver::<Vec<u64>>("VecU64", None),
        driver::<Vec<i64>>("VecI64", None),
        driver::<Vec<f64>>("VecF64", None),
        driver::<Vec<DbF64>>("VecDbF64", None),
        driver::<Vec<String>>("VecString", None),
        driver::<Vec<bool>>("VecBool", None),
        driver::<Vec<Vec<u64>>>("VecVecU64", None),
        driver::<Vec<Vec<String>>>("VecVecString", None),
        driver::<Vec<Vec<u8>>>("VecBytes", None),
        driver::<Vec<SystemTime>>("VecTime", None),
        driver::<Vec<IpAddr>>("VecIp", None),
        driver::<Vec<SocketAddr>>("VecSock", None),
        driver::<Vec<PathBuf>>("VecPath", None),
        // agdb types
        driver::<DbId>("DbId", None),
        driver::<DbValue>("DbValue", None),
        driver::<DbKeyValue>("DbKeyValue", None),
        driver::<Vec<DbValue>>("VecDbValue", None),
        driver::<Vec<DbKeyValue>>("VecDbKeyValue", None),
        driver::<QueryId>("QueryId", None),
        driver::<Vec<QueryId>>("VecQueryId", None),
        driver::<DbKeyOrder>("DbKeyOrder", None),
        driver::<Vec<DbKeyOrder>>("VecDbKeyOrder", None),
        driver::<SearchQueryAlgorithm>("SearchQueryAlgorithm", None),
        driver::<QueryConditionLogic>("QueryConditionLogic", None),
        driver::<QueryConditionModifier>("QueryConditionModifier", None),
        driver::<CountComparison>("CountComparison", None),
        driver::<Comparison>("Comparison", None),
        driver::<KeyValueComparison>("KeyValueComparison", None),
        // harness-defined #[derive(agdb::DbSerialize)] types
        driver::<Unit>("Unit", None),
        driver::<Named>("Named", None),
        driver::<Tup>("Tup", None),
        driver::<Single>("Single", None),
        driver::<G<u64>>("GU64", None),
        driver::<G<String>>("GString", None),
        driver::<Mixed>("Mixed", None),
        driver::<Inner>("Inner", None),
        driver::<Outer>("Outer", None),
        driver::<Big>("Big", None),
        driver::<AddrThen>("AddrThen", None),
        driver::<SockThen>("SockThen", None),
        driver::<Tri>("Tri", None),
        driver::<WithUnit>("WithUnit", None),
        driver::<TimeOrAddr>("TimeOrAddr", None),
        driver::<Vec<Named>>("VecNamed", None),
        driver::<Vec<Mixed>>("VecMixed", None),
        driver::<Vec<Outer>>("VecOuter", None),
        driver::<Vec<AddrThen>>("VecAddrThen", None),
        driver::<Vec<SockThen>>("VecSockThen", None),
        driver::<Vec<Tri>>("VecTri", None),
        driver::<Vec<G<String>>>("VecGString", None),
        // query types incl. the recursive QueryCondition (C20 generator only; schema unrolled per value)
        qdriver::<QueryConditionData>("QueryConditionData"),
        qdriver::<QueryCondition>("QueryCondition"),
        qdriver::<Vec<QueryCondition>>("VecQueryCondition"),
        qdriver::<SearchQuery>("SearchQuery"),
        qdriver::<QueryIds>("QueryIds"),
        qdriver::<QueryValues>("QueryValues"),
        qdriver::<InsertAliasesQuery>("InsertAliasesQuery"),
        qdriver::<InsertEdgesQuery>("InsertEdgesQuery"),
        qdriver::<InsertIndexQuery>("InsertIndexQuery"),
        qdriver::<InsertNodesQuery>("InsertNodesQuery"),
        qdriver::<InsertValuesQuery>("InsertValuesQuery"),
        qdriver::<RemoveAliasesQuery>("RemoveAliasesQuery"),
        qdriver::<RemoveIndexQuery>("RemoveIndexQuery"),
        qdriver::<RemoveQuery>("RemoveQuery"),
        qdriver::<RemoveValuesQuery>("RemoveValuesQuery"),
        qdriver::<SelectAliasesQuery>("SelectAliasesQuery"),
        qdriver::<SelectAllAliasesQuery>("SelectAllAliasesQuery"),
        qdriver::<SelectEdgeCountQuery>("SelectEdgeCountQuery"),
        qdriver::<SelectIndexesQuery>("SelectIndexesQuery"),
        qdriver::<SelectKeyCountQuery>("SelectKeyCountQuery"),
        qdriver::<SelectKeysQuery>("SelectKeysQuery"),
        qdriver::<SelectNodeCountQuery>("SelectNodeCountQuery"),
        qdriver::<SelectValuesQuery>("SelectValuesQuery"),
        qdriver::<QueryType>("QueryType"),
        // known lossy encodings (only ever chosen with ~1% probability in place of PathBuf / SocketAddr)
        driver::<LossyPath>("PathBufLossy", Some("PathBuf::serialize")),
        driver::<FlowSock>("SocketAddrFlow", Some("SocketAddr::serialize")),
    ]
}

// ---------------------------------------------------------------- tovec

fn tovec_impl<T: TryFrom<DbValue, Error = agdb::DbError>>(bytes: Vec<u8>, show: fn(&T) -> V) -> Result<Result<String, String>, Fail> {
    guarded(move || match Vec::<T>::try_from(DbValue::Bytes(bytes)) {
        Ok(v) => Ok(V::L(v.iter().map(show).collect()).text()),
        Err(e) => Err(format!("{:?}", e.ty)),
    })
}

/// `Vec::<T>::try_from(DbValue::Bytes(bytes))`; None = unknown kind
pub fn tovec(kind: &str, bytes: Vec<u8>) -> Option<Result<Result<String, String>, Fail>> {
    Some(match kind {
        "u64" => tovec_impl::<u64>(bytes, |x| V::N(*x)),
        "i64" => tovec_impl::<i64>(bytes, |x| V::N(*x as u64)),
        "f64" => tovec_impl::<f64>(bytes, |x| V::N(x.to_bits())),
        "str" => tovec_impl::<String>(bytes, |x| V::X(x.as_bytes().to_vec())),
        "time" => tovec_impl::<SystemTime>(bytes, time_to_v),
        _ => return None,
    })
}

// ---------------------------------------------------------------- custom value types of the C22 corpus
// (`#[derive(DbValue)]` stores them as `DbValue::Bytes(serialize())`)

#[derive(Debug, Clone, PartialEq, Default, agdb::DbValue, agdb::DbSerialize, agdb::DbTypeMarker)]
pub enum Status {
    #[default]
    Active,
    Inactive(u64),
    Named {
        s: String,
    },
}
tv_enum!(Status { 0 Active [], 1 Inactive(p: u64), 2 Named { s: String } });

#[derive(Debug, Clone, PartialEq, Default, agdb::DbValue, agdb::DbSerialize, agdb::DbTypeMarker)]
pub struct Point {
    pub x: i64,
    pub y: i64,
}
tv_named!(Point { x: i64, y: i64 });
