//! Allocation-limiting global allocator + silent panic hook that records a stable *site*.
//!
//! A request above `ALLOC_LIMIT` records its size in a thread-local and panics out of the
//! allocator (verified on rustc 1.95 / dev profile: `catch_unwind` catches it).

use std::alloc::GlobalAlloc;
use std::alloc::Layout;
use std::alloc::System;
use std::cell::Cell;
use std::cell::RefCell;
use std::collections::HashMap;
use std::panic::AssertUnwindSafe;

pub const ALLOC_LIMIT: usize = 256 * 1024 * 1024;

pub struct LimitAlloc;

thread_local! {
    static IN_HOOK: Cell<bool> = const { Cell::new(false) };
    /// the limit only applies to code running under `guarded` (never to the harness' own I/O)
    static ACTIVE: Cell<bool> = const { Cell::new(false) };
    static HUGE: Cell<usize> = const { Cell::new(0) };
    static LAST: RefCell<Option<(String, String)>> = const { RefCell::new(None) };
    static SITE_CACHE: RefCell<Option<HashMap<(String, u32, u32), String>>> = const { RefCell::new(None) };
}

#[inline]
fn check(size: usize) {
    if size > ALLOC_LIMIT {
        // never refuse while the panic machinery / hook is running (re-entrancy)
        let busy = IN_HOOK.try_with(|h| h.get()).unwrap_or(true) || std::thread::panicking();
        let active = ACTIVE.try_with(|a| a.get()).unwrap_or(false);
        if active && !busy {
            let _ = HUGE.try_with(|h| h.set(size));
            panic!("hugealloc");
        }
    }
}

unsafe impl GlobalAlloc for LimitAlloc {
    unsafe fn alloc(&self, layout: Layout) -> *mut u8 {
        check(layout.size());
        unsafe { System.alloc(layout) }
    }

    unsafe fn alloc_zeroed(&self, layout: Layout) -> *mut u8 {
        check(layout.size());
        unsafe { System.alloc_zeroed(layout) }
    }

    unsafe fn dealloc(&self, ptr: *mut u8, layout: Layout) {
        unsafe { System.dealloc(ptr, layout) }
    }

    unsafe fn realloc(&self, ptr: *mut u8, layout: Layout, new_size: usize) -> *mut u8 {
        check(new_size);
        unsafe { System.realloc(ptr, layout, new_size) }
    }
}

const TRAIT_MARK: &str = " as agdb::utilities::serialize::Serialize>::";

fn norm_type(ty: &str) -> &'static str {
    match ty {
        "alloc::string::String" => "String",
        "alloc::vec::Vec<u8>" => "Vec<u8>",
        "std::time::SystemTime" => "SystemTime",
        "std::path::PathBuf" => "PathBuf",
        "agdb::db::db_f64::DbF64" => "DbF64",
        "u64" => "u64",
        "i64" => "i64",
        "f64" => "f64",
        "usize" => "usize",
        "bool" => "bool",
        t if t.starts_with("alloc::vec::Vec<") => "Vec<T>",
        t if t.ends_with("::SocketAddr") => "SocketAddr",
        t if t.ends_with("::IpAddr") => "IpAddr",
        // everything else implements the trait through #[derive(DbSerialize)]
        _ => "derive",
    }
}

/// innermost frame that is a method of an `agdb::utilities::serialize::Serialize` impl
pub fn site_from_backtrace(bt: &str, loc_file: &str) -> String {
    for line in bt.lines() {
        let l = line.trim_start();
        // frame lines look like "12: <alloc::vec::Vec<T> as agdb::utilities::serialize::Serialize>::deserialize"
        let Some(p) = l.find(": ") else { continue };
        if !l[..p].bytes().all(|c| c.is_ascii_digit()) || p == 0 {
            continue;
        }
        let sym = &l[p + 2..];
        if !sym.starts_with('<') {
            continue;
        }
        if let Some(m) = sym.find(TRAIT_MARK) {
            let ty = &sym[1..m];
            let rest = &sym[m + TRAIT_MARK.len()..];
            let method: String =
                rest.chars().take_while(|c| c.is_ascii_alphanumeric() || *c == '_').collect();
            if std::env::var_os("HARNESS_CODEC_TRACE").is_some() {
                eprintln!("harness_codec: site frame: {sym}");
            }
            return format!("{}::{}", norm_type(ty), method);
        }
    }
    let base = loc_file.rsplit(['/', '\\']).next().unwrap_or(loc_file);
    format!("{base}:?")
}

pub fn install() {
    std::panic::set_hook(Box::new(|info| {
        let reentrant = IN_HOOK.with(|h| h.replace(true));
        if reentrant {
            return;
        }
        let msg = if let Some(s) = info.payload().downcast_ref::<&str>() {
            (*s).to_string()
        } else if let Some(s) = info.payload().downcast_ref::<String>() {
            s.clone()
        } else {
            "<non-string panic>".to_string()
        };
        let (file, line, col) = match info.location() {
            Some(l) => (l.file().to_string(), l.line(), l.column()),
            None => ("<unknown>".to_string(), 0, 0),
        };
        let is_huge = msg == "hugealloc" && HUGE.with(|h| h.get()) != 0;
        // A panic raised at a source location inside agdb / the harness (derive expansions)
        // always has the same innermost Serialize frame; locations inside std (track_caller
        // absent, e.g. Duration::new) and allocator refusals depend on the caller.
        let cacheable = !is_huge && !file.starts_with("/rustc/") && !file.starts_with("library/");
        let key = (file.clone(), line, col);
        let cached = if cacheable {
            SITE_CACHE.with(|c| c.borrow().as_ref().and_then(|m| m.get(&key).cloned()))
        } else {
            None
        };
        let site = match cached {
            Some(s) => s,
            None => {
                let bt = std::backtrace::Backtrace::force_capture().to_string();
                let s = site_from_backtrace(&bt, &file);
                if cacheable {
                    SITE_CACHE.with(|c| {
                        c.borrow_mut().get_or_insert_with(HashMap::new).insert(key, s.clone());
                    });
                }
                s
            }
        };
        LAST.with(|l| *l.borrow_mut() = Some((site, msg)));
        IN_HOOK.with(|h| h.set(false));
    }));
}

#[derive(Clone, Debug)]
pub enum Fail {
    Panic { site: String, msg: String },
    Huge { site: String, size: usize },
}

impl Fail {
    /// `panic:<site>` / `hugealloc:<site>`
    pub fn line(&self) -> String {
        match self {
            Fail::Panic { site, .. } => format!("panic:{site}"),
            Fail::Huge { site, .. } => format!("hugealloc:{site}"),
        }
    }

    pub fn detail(&self) -> String {
        match self {
            Fail::Panic { msg, .. } => msg.clone(),
            Fail::Huge { size, .. } => format!("allocation request of {size} bytes"),
        }
    }
}

/// Runs `f` under `catch_unwind`; a panic or an over-limit allocation becomes `Err(Fail)`.
pub fn guarded<R>(f: impl FnOnce() -> R) -> Result<R, Fail> {
    HUGE.with(|h| h.set(0));
    LAST.with(|l| *l.borrow_mut() = None);
    let was = ACTIVE.with(|a| a.replace(true));
    let res = std::panic::catch_unwind(AssertUnwindSafe(f));
    ACTIVE.with(|a| a.set(was));
    match res {
        Ok(r) => Ok(r),
        Err(_) => {
            let (site, msg) = LAST
                .with(|l| l.borrow_mut().take())
                .unwrap_or_else(|| ("unknown:?".to_string(), "<no panic info>".to_string()));
            let size = HUGE.with(|h| h.replace(0));
            if size != 0 && msg == "hugealloc" {
                Err(Fail::Huge { site, size })
            } else {
                Err(Fail::Panic { site, msg })
            }
        }
    }
}
