//! harness_codec: drives agdb's real serialization code (`agdb::AgdbSerialize`, `#[derive(DbSerialize)]`,
//! `Vec<T>: TryFrom<DbValue>`) in-process over the line protocol of /verif/tools/INTERFACE.md.
//!
//!   harness_codec gen    --prop <ID> --seed <u64> --tier quick|thorough --out <dir> [--corpus <dir>]
//!   harness_codec replay --prop <ID> --ops <file> --out <dir>
//!
//! `gen` only produces op lines; every line (corpus, generated, replayed) goes through the same
//! `Stream::exec`, so `replay` of a produced ops.txt reproduces impl.txt by construction.
#![allow(unexpected_cfgs)]

mod c12;
mod c22;
mod codec;
mod guard;
mod raw;
mod rng;
mod types;
mod val;
mod vidx;

use rng::Rng;
use std::collections::BTreeMap;
use std::collections::HashSet;
use std::fs::File;
use std::hash::Hash;
use std::hash::Hasher;
use std::io::BufWriter;
use std::io::Write;
use std::path::Path;
use std::path::PathBuf;
use val::json_str;

#[global_allocator]
static GLOBAL: guard::LimitAlloc = guard::LimitAlloc;

/// `line` in oracle.jsonl is the 0-based index into ops.txt (what tools/vlib.py `case_of` expects)
const LINE_BASE: usize = 0;

#[derive(Clone, Copy, PartialEq, Debug)]
pub enum Tier {
    Quick,
    Thorough,
}

/// Per-run bookkeeping shared with the streams.
pub struct Ctx {
    /// number of the current `case <n>` line (0 before the first one)
    pub case: u64,
    /// index (0-based) of the op line being executed in ops.txt
    pub line_idx: usize,
    pub evaluations: u64,
    pub violations: u64,
    pub hist: BTreeMap<String, u64>,
    pub nontrivial: HashSet<u64>,
    oracle: BufWriter<File>,
}

impl Ctx {
    pub fn bump(&mut self, key: &str) {
        *self.hist.entry(key.to_string()).or_insert(0) += 1;
    }

    pub fn mark_nontrivial(&mut self, op_line: &str) {
        let mut h = std::collections::hash_map::DefaultHasher::new();
        op_line.hash(&mut h);
        self.nontrivial.insert(h.finish());
    }

    pub fn violation(&mut self, key: &str, rule: &str, expected: &str, observed: &str) {
        self.violations += 1;
        let _ = writeln!(
            self.oracle,
            "{{\"case\":{},\"line\":{},\"key\":{},\"rule\":{},\"expected\":{},\"observed\":{}}}",
            self.case,
            self.line_idx + LINE_BASE,
            json_str(key),
            json_str(rule),
            json_str(expected),
            json_str(observed)
        );
    }
}

/// One property stream. To add a property: implement this trait and register it in `make_stream`.
pub trait Stream {
    /// a `case <n>` line was read: forget all per-case state
    fn reset(&mut self);
    /// number of generated cases for the tier
    fn cases(&self, tier: Tier) -> u64;
    /// op lines of one generated case (without the `case <n>` line); must not execute oracles
    fn gen_case(&mut self, rng: &mut Rng, tier: Tier, ctx: &mut Ctx) -> Vec<String>;
    /// execute one op line, return exactly one output line (`bad-op` if unknown / malformed)
    fn exec(&mut self, op_line: &str, ctx: &mut Ctx) -> String;
    /// text for stats.json `rule`
    fn rule(&self) -> String;
}

fn make_stream(prop: &str, out: &Path) -> Result<Box<dyn Stream>, String> {
    match prop {
        "C20" => Ok(Box::new(codec::CodecStream::new(codec::Prop::C20))),
        "C21" => Ok(Box::new(codec::CodecStream::new(codec::Prop::C21))),
        "C12" => Ok(Box::new(c12::C12Stream::new(out))),
        "C22" => Ok(Box::new(c22::C22Stream::new())),
        other => Err(format!("unknown property {other}")),
    }
}

struct Runner {
    stream: Box<dyn Stream>,
    ctx: Ctx,
    ops: BufWriter<File>,
    imp: BufWriter<File>,
    samples: Vec<Vec<String>>,
    n_cases: u64,
}

impl Runner {
    fn new(stream: Box<dyn Stream>, out: &Path) -> std::io::Result<Self> {
        std::fs::create_dir_all(out)?;
        let ctx = Ctx {
            case: 0,
            line_idx: 0,
            evaluations: 0,
            violations: 0,
            hist: BTreeMap::new(),
            nontrivial: HashSet::new(),
            oracle: BufWriter::new(File::create(out.join("oracle.jsonl"))?),
        };
        Ok(Runner {
            stream,
            ctx,
            ops: BufWriter::new(File::create(out.join("ops.txt"))?),
            imp: BufWriter::new(File::create(out.join("impl.txt"))?),
            samples: vec![],
            n_cases: 0,
        })
    }

    /// the single execution path of gen (corpus + generated) and replay
    fn feed(&mut self, line: &str) -> std::io::Result<()> {
        writeln!(self.ops, "{line}")?;
        let out = if let Some(rest) = line.strip_prefix("case ") {
            self.ctx.case = rest.trim().parse().unwrap_or(0);
            self.n_cases += 1;
            self.stream.reset();
            if self.samples.len() < 5 {
                self.samples.push(vec![]);
            }
            line.to_string()
        } else {
            self.ctx.evaluations += 1;
            self.stream.exec(line, &mut self.ctx)
        };
        if self.n_cases <= 5
            && let Some(s) = self.samples.last_mut()
        {
            s.push(line.to_string());
        }
        writeln!(self.imp, "{out}")?;
        self.ctx.line_idx += 1;
        Ok(())
    }

    fn finish(mut self, out: &Path, extra: &[(&str, String)], elapsed: std::time::Duration) -> std::io::Result<()> {
        self.ops.flush()?;
        self.imp.flush()?;
        self.ctx.oracle.flush()?;
        let mut s = String::new();
        s.push_str("{\n");
        s.push_str(&format!("  \"evaluations\": {},\n", self.ctx.evaluations));
        s.push_str(&format!("  \"distinct_nontrivial\": {},\n", self.ctx.nontrivial.len()));
        s.push_str(&format!("  \"rule\": {},\n", json_str(&normalize_ws(&self.stream.rule()))));
        s.push_str("  \"samples\": [");
        for (i, c) in self.samples.iter().enumerate() {
            if i > 0 {
                s.push_str(", ");
            }
            s.push('[');
            for (j, l) in c.iter().enumerate() {
                if j > 0 {
                    s.push_str(", ");
                }
                s.push_str(&json_str(l));
            }
            s.push(']');
        }
        s.push_str("],\n");
        s.push_str("  \"histogram\": {");
        for (i, (k, v)) in self.ctx.hist.iter().enumerate() {
            if i > 0 {
                s.push_str(", ");
            }
            s.push_str(&format!("{}: {}", json_str(k), v));
        }
        s.push_str("},\n");
        s.push_str(&format!("  \"cases\": {},\n", self.n_cases));
        s.push_str(&format!("  \"oracle_violations\": {},\n", self.ctx.violations));
        for (k, v) in extra {
            s.push_str(&format!("  {}: {},\n", json_str(k), v));
        }
        let secs = elapsed.as_secs_f64();
        s.push_str(&format!("  \"elapsed_ms\": {},\n", elapsed.as_millis()));
        s.push_str(&format!(
            "  \"ops_per_sec\": {}\n",
            if secs > 0.0 { (self.ctx.evaluations as f64 / secs) as u64 } else { 0 }
        ));
        s.push_str("}\n");
        std::fs::write(out.join("stats.json"), s)
    }
}

fn normalize_ws(s: &str) -> String {
    s.split_whitespace().collect::<Vec<_>>().join(" ")
}

struct Args {
    cmd: String,
    prop: String,
    seed: u64,
    tier: Tier,
    out: PathBuf,
    corpus: Option<PathBuf>,
    ops: Option<PathBuf>,
}

fn usage() -> ! {
    eprintln!(
        "usage: harness_codec gen --prop <ID> --seed <u64> --tier quick|thorough --out <dir> [--corpus <dir>]\n       harness_codec replay --prop <ID> --ops <file> --out <dir>"
    );
    std::process::exit(2)
}

fn parse_args() -> Args {
    let argv: Vec<String> = std::env::args().skip(1).collect();
    if argv.is_empty() {
        usage();
    }
    let mut a = Args {
        cmd: argv[0].clone(),
        prop: String::new(),
        seed: std::env::var("VERIF_SEED").ok().and_then(|s| s.parse().ok()).unwrap_or(0),
        tier: Tier::Quick,
        out: PathBuf::new(),
        corpus: None,
        ops: None,
    };
    let mut i = 1;
    while i < argv.len() {
        let val = |i: usize| -> String { argv.get(i + 1).cloned().unwrap_or_else(|| usage()) };
        match argv[i].as_str() {
            "--prop" => a.prop = val(i),
            "--seed" => a.seed = val(i).parse().unwrap_or_else(|_| usage()),
            "--tier" => {
                a.tier = match val(i).as_str() {
                    "quick" => Tier::Quick,
                    "thorough" => Tier::Thorough,
                    _ => usage(),
                }
            }
            "--out" => a.out = PathBuf::from(val(i)),
            "--corpus" => a.corpus = Some(PathBuf::from(val(i))),
            "--ops" => a.ops = Some(PathBuf::from(val(i))),
            _ => usage(),
        }
        i += 2;
    }
    if a.prop.is_empty() || a.out.as_os_str().is_empty() {
        usage();
    }
    a
}

fn corpus_lines(dir: &Path) -> Vec<String> {
    let mut files: Vec<PathBuf> = match std::fs::read_dir(dir) {
        Ok(rd) => rd.filter_map(|e| e.ok().map(|e| e.path())).filter(|p| p.extension().is_some_and(|x| x == "ops")).collect(),
        Err(_) => vec![],
    };
    files.sort();
    let mut lines = vec![];
    for f in files {
        if let Ok(s) = std::fs::read_to_string(&f) {
            lines.extend(s.lines().map(|l| l.to_string()));
        }
    }
    lines
}

fn run() -> Result<(), String> {
    let args = parse_args();
    let stream = match make_stream(&args.prop, &args.out) {
        Ok(s) => s,
        Err(e) => {
            eprintln!("harness_codec: {e}");
            std::process::exit(2);
        }
    };
    guard::install();
    let t0 = std::time::Instant::now();
    let io = |e: std::io::Error| format!("io error: {e}");
    // read the replay input before the output files are created (it may live in --out)
    let replay_text = match (args.cmd.as_str(), &args.ops) {
        ("replay", Some(f)) => Some(std::fs::read_to_string(f).map_err(io)?),
        ("replay", None) => usage(),
        _ => None,
    };
    let mut r = Runner::new(stream, &args.out).map_err(io)?;
    match args.cmd.as_str() {
        "gen" => {
            let mut n_corpus = 0;
            if let Some(dir) = &args.corpus {
                for l in corpus_lines(dir) {
                    n_corpus += 1;
                    r.feed(&l).map_err(io)?;
                }
            }
            let mut rng = Rng::new(args.seed);
            let n = r.stream.cases(args.tier);
            for c in 1..=n {
                let lines = r.stream.gen_case(&mut rng, args.tier, &mut r.ctx);
                r.feed(&format!("case {c}")).map_err(io)?;
                for l in &lines {
                    r.feed(l).map_err(io)?;
                }
            }
            let extra = [
                ("prop", json_str(&args.prop)),
                ("seed", args.seed.to_string()),
                ("tier", json_str(if args.tier == Tier::Quick { "quick" } else { "thorough" })),
                ("corpus_lines", n_corpus.to_string()),
            ];
            r.finish(&args.out, &extra, t0.elapsed()).map_err(io)?;
        }
        "replay" => {
            let (Some(f), Some(text)) = (&args.ops, &replay_text) else { usage() };
            for l in text.lines() {
                r.feed(l).map_err(io)?;
            }
            let extra = [("prop", json_str(&args.prop)), ("replay_of", json_str(&f.to_string_lossy()))];
            r.finish(&args.out, &extra, t0.elapsed()).map_err(io)?;
        }
        _ => usage(),
    }
    Ok(())
}

/// Child-process mode for the `deep` op: deserialize a `QueryCondition` nested `depth` levels
/// (`Where(vec![Where(vec![…])])`) on a thread with an 8 MiB stack. A stack overflow aborts this
/// process only; the parent reports it.
fn deep_child(depth: usize) {
    use agdb::AgdbSerialize;
    use agdb::{QueryCondition, QueryConditionData, QueryConditionLogic, QueryConditionModifier};
    let leaf = QueryCondition {
        logic: QueryConditionLogic::And,
        modifier: QueryConditionModifier::None,
        data: QueryConditionData::Where(vec![]),
    };
    let one = QueryCondition {
        logic: QueryConditionLogic::And,
        modifier: QueryConditionModifier::None,
        data: QueryConditionData::Where(vec![leaf.clone()]),
    };
    let b0 = leaf.serialize();
    let b1 = one.serialize();
    let prefix = b1[..b1.len() - b0.len()].to_vec();
    let mut bytes = Vec::with_capacity(prefix.len() * depth + b0.len());
    for _ in 0..depth {
        bytes.extend_from_slice(&prefix);
    }
    bytes.extend_from_slice(&b0);
    let h = std::thread::Builder::new()
        .stack_size(8 << 20)
        .spawn(move || {
            let r = QueryCondition::deserialize(&bytes);
            let out = match &r {
                Ok(_) => "ok".to_string(),
                Err(e) => format!("err:{:?}", e.ty),
            };
            std::mem::forget(r); // dropping a deeply nested value recurses as well
            out
        })
        .expect("spawn");
    match h.join() {
        Ok(s) => println!("{s}"),
        Err(_) => println!("panic:derive::deserialize"),
    }
}

fn main() {
    let argv: Vec<String> = std::env::args().collect();
    if argv.len() == 3 && argv[1] == "deep-child" {
        deep_child(argv[2].parse().unwrap_or(0));
        return;
    }
    if let Err(e) = run() {
        eprintln!("harness_codec: {e}");
        std::process::exit(1);
    }
}
