//! C12: every stored `DbValue` (as property key or value) reads back bit-for-bit from DbMemory,
//! DbFile and Db (memory mapped), also after the files are reopened. Public agdb API only.
//!
//! Ops: `kv <key> <value>` and `reopen` (DbValue text = C20 value syntax of the derived enum).

use crate::Ctx;
use crate::raw::{Raw, KIND_NAMES};
use crate::Stream;
use crate::Tier;
use crate::guard::Fail;
use crate::guard::guarded;
use crate::rng::Rng;
use crate::types::Tv;
use crate::types::gen_f64;
use agdb::Db;
use agdb::DbError;
use agdb::DbFile;
use agdb::DbId;
use agdb::DbImpl;
use agdb::DbKeyValue;
use agdb::DbMemory;
use agdb::DbValue;
use agdb::QueryBuilder;
use agdb::StorageData;
use std::path::PathBuf;

const VARIANTS: [&str; 3] = ["DbMemory", "DbFile", "Db"];
const VALUE_KINDS: [&str; 9] = ["Bytes", "I64", "U64", "F64", "String", "VecI64", "VecU64", "VecF64", "VecString"];

/// thorough tier: number of random float bit patterns swept as values, and batch size per case
const FLOAT_SWEEP: u64 = 1 << 16;
const FLOAT_BATCH: u64 = 64;
const MAX_LEN: u64 = 40;

struct Entry {
    /// what the op line said (conversion-free) …
    key_raw: Raw,
    value_raw: Raw,
    /// … and the key `DbValue` built from it through the public conversion (for select-by-key)
    key: DbValue,
    /// node id in each database (None if the insert failed there)
    ids: [Option<DbId>; 3],
}

/// what one database answered for one node: (plain select, select by key)
type Answer = (Vec<DbKeyValue>, Vec<DbKeyValue>);

enum Bad {
    Err(String),
    Fail(Fail),
}

pub struct C12Stream {
    dir: PathBuf,
    mem: Option<DbMemory>,
    file: Option<DbFile>,
    mapped: Option<Db>,
    entries: Vec<Entry>,
    gen_idx: u64,
    /// hook-level `DbValueIndex` ops (no-ops unless the tree has the hook)
    vidx: crate::vidx::VidxState,
}

fn kind_of(v: &DbValue) -> usize {
    match v {
        DbValue::Bytes(_) => 0,
        DbValue::I64(_) => 1,
        DbValue::U64(_) => 2,
        DbValue::F64(_) => 3,
        DbValue::String(_) => 4,
        DbValue::VecI64(_) => 5,
        DbValue::VecU64(_) => 6,
        DbValue::VecF64(_) => 7,
        DbValue::VecString(_) => 8,
    }
}

/// (stored out of line, inline payload length)
fn storage_class(v: &DbValue) -> (bool, usize) {
    match v {
        DbValue::Bytes(b) => (b.len() > 15, b.len().min(15)),
        DbValue::String(s) => (s.len() > 15, s.len().min(15)),
        DbValue::I64(_) | DbValue::U64(_) | DbValue::F64(_) => (false, 8),
        _ => (true, 0),
    }
}

fn text(v: &DbValue) -> String {
    v.to_v().text()
}

fn kvs_text(kvs: &[DbKeyValue]) -> String {
    if kvs.is_empty() {
        return "<no values>".to_string();
    }
    kvs.iter().map(|kv| format!("{}={}", text(&kv.key), text(&kv.value))).collect::<Vec<_>>().join(" ")
}

fn kind_err(e: DbError) -> Bad {
    Bad::Err(format!("{:?}", e.ty))
}

fn select_both<S: StorageData>(db: &DbImpl<S>, id: DbId, key: &DbValue) -> Result<Answer, DbError> {
    let plain = db.exec(QueryBuilder::select().ids(id).query())?;
    let by_key = db.exec(QueryBuilder::select().values([key.clone()]).ids(id).query())?;
    Ok((
        plain.elements.into_iter().next().map(|e| e.values).unwrap_or_default(),
        by_key.elements.into_iter().next().map(|e| e.values).unwrap_or_default(),
    ))
}

fn insert_and_read<S: StorageData>(db: &mut DbImpl<S>, key: &DbValue, value: &DbValue) -> Result<(Option<DbId>, Answer), DbError> {
    let r = db.exec_mut(QueryBuilder::insert().nodes().values([[DbKeyValue::from((key.clone(), value.clone()))]]).query())?;
    let Some(id) = r.ids().first().copied() else {
        return Ok((None, (vec![], vec![])));
    };
    Ok((Some(id), select_both(db, id, key)?))
}

fn flatten<T>(r: Result<Result<T, DbError>, Fail>) -> Result<T, Bad> {
    match r {
        Ok(Ok(x)) => Ok(x),
        Ok(Err(e)) => Err(kind_err(e)),
        Err(f) => Err(Bad::Fail(f)),
    }
}

impl C12Stream {
    pub fn new(out: &std::path::Path) -> Self {
        let dir = out.join(format!("dbs.{}", std::process::id()));
        C12Stream { dir, mem: None, file: None, mapped: None, entries: vec![], gen_idx: 0, vidx: Default::default() }
    }

    fn path(&self, name: &str) -> String {
        self.dir.join(name).to_string_lossy().to_string()
    }

    fn close_all(&mut self) {
        // dropping a database runs its storage optimisation: keep it inside the guard
        let (m, f, mm) = (self.mem.take(), self.file.take(), self.mapped.take());
        let _ = guarded(move || drop((m, f, mm)));
        let _ = std::fs::remove_dir_all(&self.dir);
        self.entries.clear();
        self.vidx.reset();
    }

    /// opens whatever is not open; returns the first failure as (variant, problem)
    fn ensure_open(&mut self) -> Result<(), (usize, Bad)> {
        let _ = std::fs::create_dir_all(&self.dir);
        if self.mem.is_none() {
            // the name never exists as a file, so DbMemory starts empty
            let p = self.path("case_mem");
            self.mem = Some(flatten(guarded(|| DbMemory::new(&p))).map_err(|b| (0, b))?);
        }
        if self.file.is_none() {
            let p = self.path("case.agdb");
            self.file = Some(flatten(guarded(|| DbFile::new(&p))).map_err(|b| (1, b))?);
        }
        if self.mapped.is_none() {
            let p = self.path("case_mm.agdb");
            self.mapped = Some(flatten(guarded(|| Db::new(&p))).map_err(|b| (2, b))?);
        }
        Ok(())
    }

    fn report_bad(&self, variant: usize, what: &str, bad: &Bad, ctx: &mut Ctx) -> String {
        match bad {
            Bad::Err(k) => {
                ctx.violation(
                    &format!("C12/error/{}", VARIANTS[variant]),
                    "insert / select / open of a stored value must succeed",
                    "ok",
                    &format!("err:{k} during {what} on {}", VARIANTS[variant]),
                );
                format!("err:{k}")
            }
            Bad::Fail(f) => {
                let line = f.line();
                let site = line.split_once(':').map(|x| x.1).unwrap_or(&line).to_string();
                ctx.violation(
                    &format!("C12/panic/{site}"),
                    "insert / select / open of a stored value must not panic",
                    "ok",
                    &format!("{line} during {what} on {} ({})", VARIANTS[variant], f.detail()),
                );
                line
            }
        }
    }

    /// the read-back oracle for one node in one database, END TO END: what comes back (taken apart
    /// with the public accessors) is compared with the ORIGINAL raw data of the op line, not with
    /// the already converted `DbValue` that was inserted. `after_reopen` selects the key family.
    fn check_answer(&self, variant: usize, k_raw: &Raw, v_raw: &Raw, ans: &Answer, after_reopen: bool, ctx: &mut Ctx) {
        let expected = format!("{}={}", k_raw.text(), v_raw.text());
        for (form, got) in [("readback", &ans.0), ("select-by-key", &ans.1)] {
            let when = if after_reopen { " after reopen" } else { "" };
            let observed = format!("{} ({form} on {}{when})", kvs_text(got), VARIANTS[variant]);
            if got.len() != 1 {
                let key = if after_reopen && variant != 0 {
                    format!("C12/reopen/{}", VARIANTS[variant])
                } else {
                    format!("C12/{form}/{}", VARIANTS[variant])
                };
                ctx.violation(&key, "exactly the inserted property is returned", &expected, &observed);
                continue;
            }
            for (pos, orig, back) in [("key", k_raw, &got[0].key), ("value", v_raw, &got[0].value)] {
                match orig.diff(&Raw::read(back)) {
                    None => {}
                    Some(true) => ctx.violation(
                        &format!("C12/float-bits-changed/{}", KIND_NAMES[orig.kind()]),
                        "an f64 given to the database (DbValue::from(f64) / DbF64::from / Vec<f64>) reads back with the same 64 bits",
                        &expected,
                        &format!("{observed}: {pos} bits differ"),
                    ),
                    Some(false) => {
                        let key = if after_reopen && variant != 0 {
                            format!("C12/reopen/{}", VARIANTS[variant])
                        } else {
                            format!("C12/{form}/{}", VARIANTS[variant])
                        };
                        let rule = if form == "readback" {
                            "select().ids(id) returns exactly the original (key, value), bit for bit"
                        } else {
                            "select().values([key]).ids(id) returns exactly the original (key, value), bit for bit"
                        };
                        ctx.violation(&key, rule, &expected, &format!("{observed}: {pos} differs"));
                    }
                }
            }
        }
    }

    /// the public conversion itself must not change the data (checked before the database is involved)
    fn check_conversion(&self, orig: &Raw, built: &DbValue, ctx: &mut Ctx) {
        match orig.diff(&Raw::read(built)) {
            None => {}
            Some(true) => ctx.violation(
                &format!("C12/float-bits-changed/{}", KIND_NAMES[orig.kind()]),
                "an f64 given to the database (DbValue::from(f64) / DbF64::from / Vec<f64>) keeps its 64 bits",
                &orig.text(),
                &format!("{} (right after the From conversion)", text(built)),
            ),
            Some(false) => ctx.violation(
                &format!("C12/conversion/{}", KIND_NAMES[orig.kind()]),
                "DbValue::from(x) holds exactly x",
                &orig.text(),
                &format!("{} (right after the From conversion)", text(built)),
            ),
        }
    }

    fn op_kv(&mut self, line: &str, key: &str, value: &str, ctx: &mut Ctx) -> String {
        let (Some(k_raw), Some(v_raw)) = (Raw::parse(key), Raw::parse(value)) else { return bad_op(ctx) };
        // enter through the public conversions, alternating between the two routes of each kind
        let alt = self.entries.len() % 2 == 1;
        let (k, v) = (k_raw.build(alt), v_raw.build(!alt));
        self.check_conversion(&k_raw, &k, ctx);
        self.check_conversion(&v_raw, &v, ctx);
        ctx.bump(&format!("key:{}", VALUE_KINDS[kind_of(&k)]));
        ctx.bump(&format!("value:{}", VALUE_KINDS[kind_of(&v)]));
        let mut nontrivial = false;
        for x in [&k, &v] {
            let (out_of_line, inline_len) = storage_class(x);
            nontrivial |= out_of_line || inline_len >= 1;
            let len = match x {
                DbValue::Bytes(b) => Some(b.len()),
                DbValue::String(s) => Some(s.len()),
                _ => None,
            };
            if let Some(len) = len {
                ctx.bump(if out_of_line { "store:out-of-line" } else { "store:inline" });
                if (14..=17).contains(&len) {
                    ctx.bump(&format!("len:{len}"));
                }
            }
        }
        if nontrivial {
            ctx.mark_nontrivial(line);
        }
        if let Err((variant, b)) = self.ensure_open() {
            let out = self.report_bad(variant, "open", &b, ctx);
            ctx.bump(&format!("outcome:{out}"));
            return out;
        }
        let results: [Result<(Option<DbId>, Answer), Bad>; 3] = [
            flatten(guarded(|| insert_and_read(self.mem.as_mut().unwrap(), &k, &v))),
            flatten(guarded(|| insert_and_read(self.file.as_mut().unwrap(), &k, &v))),
            flatten(guarded(|| insert_and_read(self.mapped.as_mut().unwrap(), &k, &v))),
        ];
        let mut ids = [None; 3];
        let mut first_bad: Option<String> = None;
        let mut first_panic: Option<String> = None;
        for (i, r) in results.iter().enumerate() {
            match r {
                Ok((id, ans)) => {
                    ids[i] = *id;
                    self.check_answer(i, &k_raw, &v_raw, ans, false, ctx);
                }
                Err(b) => {
                    let out = self.report_bad(i, "kv", b, ctx);
                    match b {
                        Bad::Fail(_) => first_panic = first_panic.or(Some(out)),
                        Bad::Err(_) => first_bad = first_bad.or(Some(out)),
                    }
                }
            }
        }
        self.entries.push(Entry { key_raw: k_raw, value_raw: v_raw, key: k, ids });
        let out = if let Some(p) = first_panic {
            p
        } else if let Some(e) = first_bad {
            e
        } else {
            match &results[0] {
                Ok((_, (plain, _))) if plain.len() == 1 => format!("ok {} {}", text(&plain[0].key), text(&plain[0].value)),
                // a plain select that does not return exactly one property (already an oracle violation)
                Ok((_, (plain, _))) => format!("ok ?{}", plain.len()),
                Err(_) => unreachable!(),
            }
        };
        ctx.bump(&format!("outcome:{}", if out.starts_with("ok ") { "ok" } else { &out }));
        out
    }

    fn op_reopen(&mut self, ctx: &mut Ctx) -> String {
        ctx.bump("reopen");
        // drop the two file backed databases (inside the guard: Drop optimises the storage) ...
        let (f, mm) = (self.file.take(), self.mapped.take());
        if let Err(fail) = guarded(move || drop((f, mm))) {
            let out = self.report_bad(1, "close", &Bad::Fail(fail), ctx);
            ctx.bump(&format!("outcome:{out}"));
            return out;
        }
        // ... and open them again from the same paths
        if let Err((variant, b)) = self.ensure_open() {
            let out = self.report_bad(variant, "reopen", &b, ctx);
            ctx.bump(&format!("outcome:{out}"));
            return out;
        }
        let mut parts = vec!["ok".to_string()];
        let mut first_bad: Option<String> = None;
        let mut first_panic: Option<String> = None;
        for idx in 0..self.entries.len() {
            let e = &self.entries[idx];
            let answers: [Option<Result<Answer, Bad>>; 3] = [
                e.ids[0].map(|id| flatten(guarded(|| select_both(self.mem.as_ref().unwrap(), id, &e.key)))),
                e.ids[1].map(|id| flatten(guarded(|| select_both(self.file.as_ref().unwrap(), id, &e.key)))),
                e.ids[2].map(|id| flatten(guarded(|| select_both(self.mapped.as_ref().unwrap(), id, &e.key)))),
            ];
            for (i, a) in answers.iter().enumerate() {
                match a {
                    // the insert already failed (and was reported) in this database
                    None => {}
                    Some(Ok(ans)) => self.check_answer(i, &e.key_raw, &e.value_raw, ans, true, ctx),
                    Some(Err(b)) => {
                        let out = self.report_bad(i, "read back after reopen", b, ctx);
                        match b {
                            Bad::Fail(_) => first_panic = first_panic.or(Some(out)),
                            Bad::Err(_) => first_bad = first_bad.or(Some(out)),
                        }
                    }
                }
            }
            match &answers[0] {
                Some(Ok((plain, _))) if plain.len() == 1 => parts.push(format!("{}={}", text(&plain[0].key), text(&plain[0].value))),
                Some(Ok((plain, _))) => parts.push(format!("?{}", plain.len())),
                _ => parts.push("?".to_string()),
            }
        }
        let out = first_panic.or(first_bad).unwrap_or_else(|| parts.join(" "));
        ctx.bump(&format!("outcome:{}", if out.starts_with("ok") { "ok" } else { &out }));
        out
    }

    // ------------------------------------------------------------ generator

    fn gen_random_case(&mut self, rng: &mut Rng) -> Vec<String> {
        let n = rng.range(1, 6) as usize;
        let mid = rng.usize_below(n + 1);
        let mut lines = vec![];
        for i in 0..n {
            if i == mid && i > 0 {
                lines.push("reopen".to_string());
            }
            let k = gen_value(rng, true);
            let v = gen_value(rng, false);
            lines.push(format!("kv {} {}", k.text(), v.text()));
        }
        lines.push("reopen".to_string());
        if crate::vidx::ENABLED {
            // hook level: the 16-byte DbValueIndex itself (store + load), then damaged indexes
            let mut stored = vec![];
            for _ in 0..rng.range(1, 4) {
                let v = gen_value(rng, false);
                lines.push(format!("vrt {}", v.text()));
                stored.push(v);
            }
            for _ in 0..rng.range(0, 3) {
                lines.push(format!("vld {}", crate::val::hex(&gen_damaged_index(rng))));
            }
        }
        lines
    }

    /// thorough tier, first part: every byte length 0..=40 for Bytes / ascii String / multi-byte String,
    /// once as key and once as value
    fn gen_len_sweep_case(&mut self, len: usize) -> Vec<String> {
        let small = Raw::U64(len as u64);
        let bytes = Raw::Bytes((0..len).map(|i| [0x00, 0xff, 0x80, 0x7f, i as u8][i % 5]).collect());
        let ascii = Raw::Str((0..len).map(|i| b'a' + (i % 26) as u8).collect());
        let multi = Raw::Str(multibyte_exact(len).into_bytes());
        let mut lines = vec![];
        for x in [&bytes, &ascii, &multi] {
            lines.push(format!("kv {} {}", x.text(), small.text()));
        }
        lines.push("reopen".to_string());
        for x in [&bytes, &ascii, &multi] {
            lines.push(format!("kv {} {}", small.text(), x.text()));
        }
        lines.push("reopen".to_string());
        lines
    }

    fn gen_float_sweep_case(&mut self, rng: &mut Rng) -> Vec<String> {
        let mut lines = vec![];
        for i in 0..FLOAT_BATCH {
            // original bit patterns, never passed through f64 arithmetic or DbF64 before printing;
            // every 8th one is a special (signed zero / NaN / subnormal / infinity)
            let bits = if i % 8 == 0 { gen_float_bits(rng) } else { rng.next() };
            let (k, f) = (Raw::U64(i), Raw::F64(bits));
            // floats as values, and every 4th time as the key as well
            if i % 4 == 1 {
                lines.push(format!("kv {} {}", f.text(), k.text()));
            } else {
                lines.push(format!("kv {} {}", k.text(), f.text()));
            }
        }
        lines.push("reopen".to_string());
        lines
    }
}

impl Drop for C12Stream {
    fn drop(&mut self) {
        self.close_all();
    }
}

/// a 16-byte `DbValueIndex` that `store_db_value` may or may not be able to produce: random type
/// nibble (0..15), random size nibble, index 0 / small (existing or not) / random, random payload
fn gen_damaged_index(rng: &mut Rng) -> [u8; 16] {
    let mut b = [0u8; 16];
    let ty = if rng.chance(3, 4) { rng.range(1, 9) as u8 } else { rng.below(16) as u8 };
    let size = match rng.below(6) {
        0 => 0,
        1 => 8,
        2 => 15,
        _ => rng.below(16) as u8,
    };
    match rng.below(4) {
        0 => {}
        1 => b[0] = rng.range(1, 6) as u8,
        2 => {
            for x in b.iter_mut().take(15) {
                *x = rng.below(256) as u8;
            }
        }
        _ => {
            // valid UTF-8 / ascii payload
            for x in b.iter_mut().take(15) {
                *x = b'a' + rng.below(26) as u8;
            }
        }
    }
    b[15] = (ty << 4) | size;
    b
}

fn bad_op(ctx: &mut Ctx) -> String {
    ctx.bump("outcome:bad-op");
    "bad-op".to_string()
}

/// a string of multi-byte characters whose UTF-8 length is exactly `len` (len 1 is impossible: "a")
fn multibyte_exact(len: usize) -> String {
    if len == 1 {
        return "a".to_string();
    }
    let mut s = String::new();
    let mut left = len;
    // 4-byte characters while the remainder stays expressible with 2- and 3-byte characters
    while left >= 4 && left - 4 != 1 {
        s.push('😀');
        left -= 4;
    }
    while left > 0 {
        if left == 3 {
            s.push('€');
            left -= 3;
        } else {
            s.push('é');
            left -= 2;
        }
    }
    s
}

fn gen_len(rng: &mut Rng) -> usize {
    const HOT: &[usize] = &[0, 1, 7, 8, 9, 14, 15, 16, 17, 31, 32];
    if rng.chance(3, 5) { *rng.pick(HOT) } else { rng.below(MAX_LEN + 1) as usize }
}

fn gen_bytes(rng: &mut Rng) -> Vec<u8> {
    let n = gen_len(rng);
    match rng.below(5) {
        0 => vec![0x00; n],
        1 => vec![0xff; n],
        2 => (0..n).map(|_| *rng.pick(&[0x00u8, 0xff, 0x01, 0x80, 0x7f])).collect(),
        _ => rng.bytes(n),
    }
}

/// string whose UTF-8 byte length is exactly the drawn length (multi-byte chars straddle 15/16)
fn gen_string_len(rng: &mut Rng) -> String {
    const W2: &[char] = &['é', 'ß', 'Ω', 'ж', '\u{80}', '\u{7ff}'];
    const W3: &[char] = &['€', '中', 'あ', '\u{800}', '\u{ffff}', '\u{fffd}'];
    const W4: &[char] = &['😀', '𝄞', '\u{10000}', '\u{10ffff}'];
    let n = gen_len(rng);
    match rng.below(6) {
        0 => (0..n).map(|_| (b' ' + rng.below(95) as u8) as char).collect(),
        1 => multibyte_exact(n),
        // 'a' * (n-2) + 'é' and friends: a multi-byte char ends exactly at the length
        2 if n >= 2 => {
            let w = if n >= 4 { rng.range(2, 4) as usize } else if n == 3 { rng.range(2, 3) as usize } else { 2 };
            let mut s: String = "a".repeat(n - w);
            s.push(match w {
                2 => *rng.pick(W2),
                3 => *rng.pick(W3),
                _ => *rng.pick(W4),
            });
            s
        }
        _ => {
            let mut s = String::new();
            let mut left = n;
            while left > 0 {
                let w = (rng.range(1, 4) as usize).min(left);
                s.push(match w {
                    1 => *rng.pick(&['a', 'Z', '0', ' ', '\0', '\u{7f}', '"', '\\']),
                    2 => *rng.pick(W2),
                    3 => *rng.pick(W3),
                    _ => *rng.pick(W4),
                });
                left -= w;
            }
            s
        }
    }
}

fn gen_int_i(rng: &mut Rng) -> i64 {
    match rng.below(3) {
        0 => *rng.pick(&[0, 1, -1, i64::MIN, i64::MAX, i64::MIN + 1, 255, -256]),
        1 => rng.below(1000) as i64 - 500,
        _ => rng.next() as i64,
    }
}

fn gen_int_u(rng: &mut Rng) -> u64 {
    match rng.below(3) {
        0 => *rng.pick(&[0, 1, u64::MAX, 1 << 63, i64::MAX as u64, u64::MAX - 1, 255, 1 << 32]),
        1 => rng.below(1000),
        _ => rng.next(),
    }
}

fn gen_float(rng: &mut Rng) -> f64 {
    if rng.chance(1, 8) { f64::MIN_POSITIVE } else { gen_f64(rng) }
}

fn gen_vec_len(rng: &mut Rng) -> usize {
    if rng.chance(1, 4) { 0 } else { rng.range(1, 5) as usize }
}

fn gen_value(rng: &mut Rng, _is_key: bool) -> Raw {
    match rng.below(14) {
        0 | 1 => Raw::Bytes(gen_bytes(rng)),
        2 => Raw::I64(gen_int_i(rng)),
        3 => Raw::U64(gen_int_u(rng)),
        4 | 5 => Raw::F64(gen_float_bits(rng)),
        6..=8 => Raw::Str(gen_string_len(rng).into_bytes()),
        9 => Raw::VecI64((0..gen_vec_len(rng)).map(|_| gen_int_i(rng)).collect()),
        10 => Raw::VecU64((0..gen_vec_len(rng)).map(|_| gen_int_u(rng)).collect()),
        11 | 12 => Raw::VecF64((0..gen_vec_len(rng)).map(|_| gen_float_bits(rng)).collect()),
        _ => Raw::VecStr(
            (0..gen_vec_len(rng)).map(|_| if rng.chance(1, 4) { vec![] } else { gen_string_len(rng).into_bytes() }).collect(),
        ),
    }
}

/// f64 BIT PATTERNS (never passed through f64 arithmetic): signed zeros, quiet and signalling NaNs
/// with payloads (both signs), subnormals, infinities, extremes, random patterns
fn gen_float_bits(rng: &mut Rng) -> u64 {
    const SIGN: u64 = 1 << 63;
    const EXP: u64 = 0x7ff << 52;
    const QUIET: u64 = 1 << 51;
    let sign = if rng.chance(1, 2) { SIGN } else { 0 };
    match rng.below(12) {
        0 => sign,                                                     // +0.0 / -0.0
        1 => SIGN,                                                     // -0.0
        2 => sign | EXP,                                               // infinities
        3 => sign | EXP | QUIET | (rng.next() & (QUIET - 1)),          // quiet NaN + payload
        4 | 5 => sign | EXP | ((rng.next() & (QUIET - 1)).max(1)),     // signalling NaN + payload
        6 => sign | (rng.next() & ((1 << 52) - 1)).max(1),             // subnormal
        7 => sign | 1,                                                 // smallest subnormal
        8 => sign | (1 << 52),                                         // MIN_POSITIVE
        9 => sign | (EXP - 1),                                         // MAX
        10 => gen_float(rng).to_bits(),
        _ => rng.next(),
    }
}

impl Stream for C12Stream {
    fn reset(&mut self) {
        self.close_all();
    }

    fn cases(&self, tier: Tier) -> u64 {
        match tier {
            Tier::Quick => 400,
            Tier::Thorough => (MAX_LEN + 1) + FLOAT_SWEEP / FLOAT_BATCH + 6000,
        }
    }

    fn gen_case(&mut self, rng: &mut Rng, tier: Tier, ctx: &mut Ctx) -> Vec<String> {
        let i = self.gen_idx;
        self.gen_idx += 1;
        if tier == Tier::Thorough {
            if i <= MAX_LEN {
                ctx.bump("gen:len-sweep-case");
                return self.gen_len_sweep_case(i as usize);
            }
            if i <= MAX_LEN + FLOAT_SWEEP / FLOAT_BATCH {
                ctx.bump("gen:float-sweep-case");
                return self.gen_float_sweep_case(rng);
            }
        }
        ctx.bump("gen:random-case");
        self.gen_random_case(rng)
    }

    fn exec(&mut self, line: &str, ctx: &mut Ctx) -> String {
        let t: Vec<&str> = line.split(' ').collect();
        match (t[0], t.len()) {
            ("kv", 3) => {
                ctx.bump("op:kv");
                self.op_kv(line, t[1], t[2], ctx)
            }
            ("reopen", 1) => {
                ctx.bump("op:reopen");
                self.op_reopen(ctx)
            }
            ("vrt", 2) => {
                ctx.bump("op:vrt");
                match self.vidx.op_vrt(t[1], ctx) {
                    Some(o) => o,
                    None => bad_op(ctx),
                }
            }
            ("vld", 2) => {
                ctx.bump("op:vld");
                match self.vidx.op_vld(t[1], ctx) {
                    Some(o) => {
                        ctx.bump(&format!("vld:{}", o.split([' ', ':']).next().unwrap_or("?")));
                        o
                    }
                    None => bad_op(ctx),
                }
            }
            _ => {
                ctx.bump("op:unknown");
                bad_op(ctx)
            }
        }
    }

    fn rule(&self) -> String {
        "each case = fresh DbMemory + DbFile + Db (memory mapped); 1..6 `kv <key> <value>` ops (one new node with exactly that property in \
         each database, read back with select().ids(id) and select().values([key]).ids(id)), a `reopen` (drop + reopen both files, re-read \
         every node from all three) after a random prefix and one at the end; keys and values of all nine DbValue variants, byte/string \
         lengths biased to 0,1,7,8,9,14,15,16,17,31,32; thorough additionally sweeps every length 0..=40 (Bytes / ascii / multi-byte \
         String, as key and as value) and 2^16 random float bit patterns first; evaluations = op lines executed; distinct_nontrivial = \
         distinct (hash of op line) `kv` ops whose key or value is stored out of line (bytes/string longer than 15 bytes, any vector) or \
         has an inline payload of at least 1 byte (numbers, 1..15 byte bytes/strings), i.e. not (empty, empty)"
            .to_string()
    }
}
