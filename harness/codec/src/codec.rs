//! Stream shared by C20 (round trip / size) and C21 (decoding of malformed input never panics).
//!
//! Ops (wire protocol: /verif/notes/codec.md, section Harness): `enc <ty> <schema> <val>`, `dec <ty> <schema> <hex>`,
//! `tovec <kind> <hex>`.

use crate::Ctx;
use crate::Stream;
use crate::Tier;
use crate::guard::guarded;
use crate::rng::Rng;
use crate::types::Driver;
use crate::types::Outcome;
use crate::types::Tv;
use crate::types::gen_f64;
use crate::types::gen_i64;
use crate::types::gen_string;
use crate::types::gen_time;
use crate::types::gen_u64;
use crate::types::registry;
use crate::types::tovec;
use crate::val::Span;
use crate::val::SpanKind;
use crate::val::V;
use crate::val::hex;
use crate::val::spans;
use crate::val::unhex;
use agdb::AgdbSerialize;
use agdb::DbF64;
use agdb::DbValue;
use std::cell::RefCell;
use std::collections::HashMap;

#[derive(Clone, Copy, PartialEq)]
pub enum Prop {
    C20,
    C21,
}

struct LastEnc {
    ty: String,
    val: String,
    bytes: Vec<u8>,
}

pub struct CodecStream {
    prop: Prop,
    reg: Vec<Driver>,
    by_name: HashMap<&'static str, usize>,
    /// drivers that may be picked by the generators (everything but the lossy wrappers)
    regular: Vec<usize>,
    /// query types (incl. the recursive ones): picked by the C20 generator only
    query: Vec<usize>,
    /// cache of `schema_at(k)` per (driver, k)
    unrolled: RefCell<HashMap<(usize, u32), String>>,
    with_addr: Vec<usize>,
    with_time: Vec<usize>,
    last_enc: Option<LastEnc>,
}

const TOVEC_KINDS: &[&str] = &["u64", "i64", "f64", "str", "time"];

const IP_SPELLINGS: &[&str] = &[
    "::ffff:0:0",
    "0:0:0:0:0:0:0:1",
    "0000:0000::1",
    "::FFFF:1.2.3.4",
    "1.2.3.04",
    "1.2.3.256",
    "01.2.3.4",
    "::ffff:102:304",
    "1:0:0:0:0:0:0:1",
    "0:0:0:0:0:ffff:0102:0304",
    "0:0:0:0:0:0:0:0",
    "::0.0.0.1",
    "::ffff:0.0.0.0",
    "fe80::1%5",
    "1::2::3",
    "::",
    "",
    "1.2.3.4 ",
    "not-an-address",
];

const SOCK_SPELLINGS: &[&str] = &[
    "[::1%05]:0080",
    "[::ffff:0:0]:1",
    "1.2.3.4:00080",
    "[0:0:0:0:0:0:0:1]:80",
    "[::FFFF:1.2.3.4]:443",
    "[0000:0000::1]:8080",
    "[::1%0]:1",
    "[::1]:080",
    "[::1%4294967295]:65535",
    "[::ffff:102:304%1]:9",
    "1.2.3.4:65536",
    "1.2.3.4:",
    "1.2.3.4",
    "[::1]",
    "::1:80",
    "",
    "garbage:80",
];

impl CodecStream {
    pub fn new(prop: Prop) -> Self {
        let reg = registry();
        let mut by_name = HashMap::new();
        let mut regular = vec![];
        let mut query = vec![];
        let mut with_addr = vec![];
        let mut with_time = vec![];
        for (i, d) in reg.iter().enumerate() {
            if by_name.insert(d.name, i).is_some() {
                panic!("harness bug: duplicate type name {}", d.name);
            }
            if d.query {
                query.push(i);
            } else if d.lossy.is_none() {
                regular.push(i);
                if d.schema.contains("ip") || d.schema.contains("sock") {
                    with_addr.push(i);
                }
                if d.schema.contains("time") {
                    with_time.push(i);
                }
            }
        }
        CodecStream { prop, reg, by_name, regular, query, with_addr, with_time, last_enc: None, unrolled: RefCell::new(HashMap::new()) }
    }

    /// schema of driver `i` with `QueryCondition` unrolled `k` times
    fn schema_at(&self, i: usize, k: u32) -> String {
        let d = &self.reg[i];
        if !d.recursive {
            return d.schema.clone();
        }
        self.unrolled.borrow_mut().entry((i, k)).or_insert_with(|| (d.schema_at)(k)).clone()
    }

    /// the driver named `ty` if `schema` is its schema; for the recursive query types: if it is
    /// the schema unrolled k times for some k <= 64 (returned; 0 for all other types)
    fn driver(&self, ty: &str, schema: &str) -> Option<(&Driver, u32)> {
        let i = *self.by_name.get(ty)?;
        let d = &self.reg[i];
        if !d.recursive {
            return if d.schema == schema { Some((d, 0)) } else { None };
        }
        for k in 0..=64 {
            let s = self.schema_at(i, k);
            if s == schema {
                return Some((d, k));
            }
            if s.len() > schema.len() {
                break;
            }
        }
        None
    }

    // ------------------------------------------------------------ ops

    fn op_enc(&mut self, line: &str, ty: &str, schema: &str, val: &str, ctx: &mut Ctx) -> String {
        let Some((d, k)) = self.driver(ty, schema) else { return bad(ctx) };
        let Some(v) = V::parse(val) else { return bad(ctx) };
        // a value nested deeper than the unrolled schema is not a value of that schema
        if d.recursive {
            match (d.depth_of)(&v) {
                Some(depth) if depth <= k => ctx.bump(&format!("cond-depth:{depth}")),
                _ => return bad(ctx),
            }
        }
        let Some(res) = (d.enc)(&v) else { return bad(ctx) };
        ctx.bump(&format!("ty:{ty}"));
        let c20 = self.prop == Prop::C20;
        if c20 && !v.is_trivial() {
            ctx.mark_nontrivial(line);
        }
        let e = match res {
            Err(f) => {
                let out = f.line();
                ctx.bump(&format!("outcome:{out}"));
                if c20 {
                    ctx.violation(
                        &format!("C20/panic/{}", site_of(&out)),
                        "serialize / serialized_size of a valid value must not panic",
                        "<hex> <size>",
                        &format!("{out} ({})", f.detail()),
                    );
                }
                self.last_enc = None;
                return out;
            }
            Ok(e) => e,
        };
        ctx.bump("outcome:enc-ok");
        let out = format!("{} {}", hex(&e.bytes), e.size);
        if c20 {
            if e.size != e.bytes.len() as u64 {
                ctx.violation(
                    &format!("C20/size/{ty}"),
                    "serialized_size() == serialize().len()",
                    &e.bytes.len().to_string(),
                    &e.size.to_string(),
                );
            }
            let rt_key = match d.lossy {
                Some(site) => format!("C20/lossy/{site}"),
                None => format!("C20/roundtrip/{ty}"),
            };
            let rule = "deserialize(serialize(v)) == v";
            match &e.rt.back {
                Err(f) => ctx.violation(
                    &format!("C20/panic/{}", site_of(&f.line())),
                    "deserialize of a valid serialization must not panic",
                    &format!("ok {val}"),
                    &format!("{} ({})", f.line(), f.detail()),
                ),
                Ok(Err(kind)) => ctx.violation(&rt_key, rule, &format!("ok {val}"), &format!("err:{kind}")),
                Ok(Ok((same, text))) => {
                    if !*same || text != val {
                        let how = if text != val { "different canonical text" } else { "equal canonical text but PartialEq says different" };
                        ctx.violation(&rt_key, rule, &format!("ok {val}"), &format!("ok {text} ({how})"));
                    }
                }
            }
        }
        self.last_enc = Some(LastEnc { ty: ty.to_string(), val: val.to_string(), bytes: e.bytes });
        out
    }

    fn op_dec(&mut self, line: &str, ty: &str, schema: &str, hx: &str, ctx: &mut Ctx) -> String {
        let Some((d, _)) = self.driver(ty, schema) else { return bad(ctx) };
        let Some(bytes) = unhex(hx) else { return bad(ctx) };
        ctx.bump(&format!("ty:{ty}"));
        let outcome = (d.dec)(&bytes);
        let out = outcome.line();
        ctx.bump(&format!("outcome:{}", outcome.class()));
        match self.prop {
            Prop::C21 => {
                if bytes.len() >= d.sch.first_read() {
                    ctx.mark_nontrivial(line);
                }
                c21_oracle(&outcome, &out, ctx);
            }
            Prop::C20 => {
                if let Some(last) = &self.last_enc
                    && last.ty == ty
                    && bytes.starts_with(&last.bytes)
                {
                    let expected = format!("ok {} {}", last.val, last.bytes.len());
                    if out != expected {
                        let key = match &outcome {
                            Outcome::Fail(_) => format!("C20/panic/{}", site_of(&out)),
                            _ => match d.lossy {
                                Some(site) => format!("C20/lossy/{site}"),
                                None => format!("C20/roundtrip/{ty}"),
                            },
                        };
                        ctx.violation(&key, "deserialize(serialize(v) ++ tail) == v and consumes exactly serialize(v).len() bytes", &expected, &out);
                    }
                }
            }
        }
        out
    }

    /// `deep QueryCondition <depth>`: recursion depth of a recursive derived deserializer is bounded
    /// only by the input; run it in a child process because a stack overflow aborts.
    fn op_deep(&mut self, depth: &str, ctx: &mut Ctx) -> String {
        let Ok(d) = depth.parse::<usize>() else { return bad(ctx) };
        if d > 4_000_000 || (depth.len() > 1 && depth.starts_with('0')) {
            return bad(ctx);
        }
        let exe = match std::env::current_exe() {
            Ok(e) => e,
            Err(_) => return bad(ctx),
        };
        let out = std::process::Command::new(exe)
            .arg("deep-child")
            .arg(depth)
            .stderr(std::process::Stdio::null())
            .output();
        let line = match out {
            Ok(o) if o.status.success() => String::from_utf8_lossy(&o.stdout).trim().to_string(),
            Ok(_) => "abort:stack-overflow".to_string(),
            Err(_) => return bad(ctx),
        };
        ctx.bump(&format!("outcome:{}", line.split(':').next().unwrap_or("?")));
        if self.prop == Prop::C21 && !(line == "ok" || line.starts_with("err:")) {
            ctx.violation(
                "C21/abort/derive::deserialize-recursion",
                "deserialize of arbitrary bytes must return Ok or Err (no panic, no abort)",
                "ok | err:*",
                &format!("{line} (QueryCondition nested {d} levels: one stack frame per level, no depth limit)"),
            );
        }
        line
    }

    fn op_tovec(&mut self, line: &str, kind: &str, hx: &str, ctx: &mut Ctx) -> String {
        let Some(bytes) = unhex(hx) else { return bad(ctx) };
        let n = bytes.len();
        let Some(res) = tovec(kind, bytes) else { return bad(ctx) };
        ctx.bump(&format!("ty:tovec-{kind}"));
        let outcome = match res {
            Ok(Ok(text)) => Outcome::Ok(text, 0),
            Ok(Err(k)) => Outcome::Err(k),
            Err(f) => Outcome::Fail(f),
        };
        let out = match &outcome {
            Outcome::Ok(text, _) => format!("ok {text}"),
            o => o.line(),
        };
        ctx.bump(&format!("outcome:{}", outcome.class()));
        if self.prop == Prop::C21 {
            if n >= 8 {
                ctx.mark_nontrivial(line);
            }
            c21_oracle(&outcome, &out, ctx);
        }
        out
    }

    // ------------------------------------------------------------ generators

    fn pick_regular(&self, rng: &mut Rng) -> &Driver {
        &self.reg[*rng.pick(&self.regular)]
    }

    fn gen_case_c20(&mut self, rng: &mut Rng, _ctx: &mut Ctx) -> Vec<String> {
        // 15% of the cases: a query type (their schema is unrolled to the value's condition depth)
        let mut di = if rng.chance(15, 100) { *rng.pick(&self.query) } else { *rng.pick(&self.regular) };
        // ~1% of path / socket values are of the known-lossy kind
        if self.reg[di].name == "PathBuf" && rng.chance(1, 100) {
            di = self.by_name["PathBufLossy"];
        } else if self.reg[di].name == "SocketAddr" && rng.chance(1, 100) {
            di = self.by_name["SocketAddrFlow"];
        }
        let d = &self.reg[di];
        let v = (d.generate)(rng);
        let schema = if d.recursive { self.schema_at(di, (d.depth_of)(&v).unwrap_or(0)) } else { d.schema.clone() };
        let mut lines = vec![format!("enc {} {} {}", d.name, schema, v.text())];
        if let Some(Ok(e)) = (d.enc)(&v) {
            let mut b = e.bytes;
            let tail = rng.below(9) as usize;
            b.extend(rng.bytes(tail));
            lines.push(format!("dec {} {} {}", d.name, schema, hex(&b)));
        }
        lines
    }

    fn gen_case_c21(&mut self, rng: &mut Rng, ctx: &mut Ctx) -> Vec<String> {
        let n_ops = rng.range(1, 4);
        let mut lines = vec![];
        let family = rng.below(100);
        if family < 62 {
            // (a) mutations of a valid serialization
            let d = match rng.below(100) {
                0..25 => &self.reg[*rng.pick(&self.with_addr)],
                25..37 => &self.reg[*rng.pick(&self.with_time)],
                _ => self.pick_regular(rng),
            };
            let v = (d.generate)(rng);
            let Some(Ok(e)) = (d.enc)(&v) else {
                // cannot happen for valid values on sound code; let C20 report it
                return vec![format!("enc {} {} {}", d.name, d.schema, v.text())];
            };
            let mut sp = vec![];
            let mut off = 0;
            if spans(&d.sch, &v, &mut off, &mut sp).is_none() || off != e.bytes.len() {
                sp.clear(); // layout unknown (should not happen): only blind mutations
            }
            for _ in 0..n_ops {
                let (kind, b) = mutate(rng, &e.bytes, &sp);
                ctx.bump(&format!("mut:{kind}"));
                lines.push(format!("dec {} {} {}", d.name, d.schema, hex(&b)));
            }
        } else if family < 75 {
            // (b) uniformly random bytes
            for _ in 0..n_ops {
                let n = rng.below(41) as usize;
                let b = rng.bytes(n);
                if rng.chance(1, 6) {
                    ctx.bump("mut:random-tovec");
                    lines.push(format!("tovec {} {}", rng.pick(TOVEC_KINDS), hex(&b)));
                } else {
                    let d = self.pick_regular(rng);
                    ctx.bump("mut:random");
                    lines.push(format!("dec {} {} {}", d.name, d.schema, hex(&b)));
                }
            }
        } else {
            // (c) Vec<T>::try_from(DbValue::Bytes(..)) on serializations of Vec<DbValue>
            let (mode, natural, vals) = gen_dbvalues(rng);
            let v = vals.to_v();
            let bytes = guarded(|| vals.serialize()).unwrap_or_default();
            let d = &self.reg[self.by_name["VecDbValue"]];
            let mut sp = vec![];
            let mut off = 0;
            if spans(&d.sch, &v, &mut off, &mut sp).is_none() || off != bytes.len() {
                sp.clear();
            }
            for i in 0..n_ops {
                let kind = if rng.chance(7, 10) { natural } else { *rng.pick(TOVEC_KINDS) };
                ctx.bump(&format!("mut:tovec-{mode}"));
                if i == 0 || rng.chance(1, 3) {
                    ctx.bump("mut:tovec+none");
                    lines.push(format!("tovec {kind} {}", hex(&bytes)));
                } else {
                    let (mk, b) = mutate(rng, &bytes, &sp);
                    ctx.bump(&format!("mut:tovec+{mk}"));
                    lines.push(format!("tovec {kind} {}", hex(&b)));
                }
            }
        }
        lines
    }
}

fn bad(ctx: &mut Ctx) -> String {
    ctx.bump("outcome:bad-op");
    "bad-op".to_string()
}

/// `panic:<site>` / `hugealloc:<site>` -> `<site>`
fn site_of(out: &str) -> &str {
    out.split_once(':').map(|x| x.1).unwrap_or(out)
}

fn c21_oracle(outcome: &Outcome, out: &str, ctx: &mut Ctx) {
    if let Outcome::Fail(f) = outcome {
        let (class, site) = out.split_once(':').unwrap_or(("panic", out));
        ctx.violation(
            &format!("C21/{class}/{site}"),
            "deserialize of arbitrary bytes must return Ok or Err (no panic, no allocation sized by an untrusted length)",
            "ok | err:*",
            &format!("{out} ({})", f.detail()),
        );
    }
}

// ---------------------------------------------------------------- mutations

fn put_u64(b: &mut [u8], off: usize, x: u64) {
    b[off..off + 8].copy_from_slice(&x.to_le_bytes());
}

/// one mutation of a valid serialization; returns (mutation kind, bytes)
fn mutate(rng: &mut Rng, bytes: &[u8], sp: &[Span]) -> (&'static str, Vec<u8>) {
    let lens: Vec<&Span> = sp.iter().filter(|s| matches!(s.kind, SpanKind::Len(_))).collect();
    let tags: Vec<&Span> = sp.iter().filter(|s| matches!(s.kind, SpanKind::Tag(_))).collect();
    let times: Vec<&Span> = sp.iter().filter(|s| matches!(s.kind, SpanKind::Time)).collect();
    let addrs: Vec<&Span> = sp.iter().filter(|s| matches!(s.kind, SpanKind::Addr(..))).collect();
    let mut menu: Vec<(&'static str, u64)> = vec![("splice", 1), ("extend", 1)];
    if !bytes.is_empty() {
        menu.push(("trunc", 5));
        menu.push(("bitflip", 2));
    }
    if !lens.is_empty() {
        menu.push(("len", 5));
    }
    if !tags.is_empty() {
        menu.push(("tag", 2));
    }
    if !times.is_empty() {
        menu.push(("time", 5));
    }
    if !addrs.is_empty() {
        menu.push(("addr", 8));
    }
    let total: u64 = menu.iter().map(|m| m.1).sum();
    let mut r = rng.below(total);
    let mut kind = menu[0].0;
    for (k, w) in &menu {
        if r < *w {
            kind = k;
            break;
        }
        r -= w;
    }
    let mut b = bytes.to_vec();
    match kind {
        "trunc" => {
            // any proper prefix; half of the time right at / next to a field boundary
            let pos = if !sp.is_empty() && rng.chance(1, 2) {
                let s = rng.pick(sp);
                let around = [s.off, s.off + 1, s.off + 7, s.off + 8, s.off + 12, s.off.saturating_sub(1)];
                (*rng.pick(&around)).min(bytes.len() - 1)
            } else {
                rng.usize_below(bytes.len())
            };
            b.truncate(pos);
        }
        "bitflip" => {
            for _ in 0..rng.range(1, 3) {
                let i = rng.usize_below(b.len());
                b[i] ^= 1 << rng.below(8);
            }
        }
        "len" => {
            let s = *rng.pick(&lens);
            let SpanKind::Len(orig) = s.kind else { unreachable!() };
            let remaining = (bytes.len() - s.off - 8) as u64;
            let choices = [
                orig.wrapping_add(1),
                orig.wrapping_sub(1),
                1 << 27,
                1 << 32,
                1 << 40,
                1 << 63,
                u64::MAX,
                u64::MAX - 7,
                u64::MAX - 8,
                remaining,
                remaining + 1,
                rng.below(remaining + 2),
                (1 << 28) / 8 + 1,
                (1 << 28) + 1,
            ];
            put_u64(&mut b, s.off, *rng.pick(&choices));
            if rng.chance(1, 4) {
                // the prefix becomes the last thing in the buffer
                b.truncate(s.off + 8);
            }
        }
        "tag" => {
            let s = *rng.pick(&tags);
            let SpanKind::Tag(n) = s.kind else { unreachable!() };
            b[s.off] = match rng.below(4) {
                0 => 255,
                1 => n as u8,
                2 => rng.below(n as u64) as u8,
                _ => rng.byte(),
            };
        }
        "time" => {
            let s = *rng.pick(&times);
            for _ in 0..rng.range(1, 2) {
                match rng.below(3) {
                    0 => {
                        let n: u32 = *rng.pick(&[1_000_000_000, u32::MAX, 999_999_999, 1_000_000_001, 0]);
                        b[s.off + 8..s.off + 12].copy_from_slice(&n.to_le_bytes());
                    }
                    1 => {
                        let x: u64 = *rng.pick(&[i64::MAX as u64, 1 << 63, u64::MAX, (1 << 63) + 1, u64::MAX - 4]);
                        put_u64(&mut b, s.off, x);
                    }
                    _ => b[s.off + 12] = *rng.pick(&[0, 1, 7, 255]),
                }
            }
        }
        "addr" => {
            let s = *rng.pick(&addrs);
            let SpanKind::Addr(is_sock, old_len) = s.kind else { unreachable!() };
            let text: String = match rng.below(12) {
                0 => gen_string(rng),
                // spelling of the other address family's type
                1 => (*rng.pick(if is_sock { IP_SPELLINGS } else { SOCK_SPELLINGS })).to_string(),
                _ => (*rng.pick(if is_sock { SOCK_SPELLINGS } else { IP_SPELLINGS })).to_string(),
            };
            let mut nb = bytes[..s.off].to_vec();
            nb.extend_from_slice(&(text.len() as u64).to_le_bytes());
            nb.extend_from_slice(text.as_bytes());
            // mostly: the respelled address is the LAST thing in the buffer, so that a longer
            // canonical re-serialization makes the decoder's running offset overrun the input
            if rng.chance(1, 3) {
                nb.extend_from_slice(&bytes[s.off + 8 + old_len..]);
                b = nb;
                return ("addr-keep-tail", b);
            }
            b = nb;
        }
        "splice" => {
            let at = rng.usize_below(b.len() + 1);
            let n = rng.range(1, 9) as usize;
            let ins = rng.bytes(n);
            b.splice(at..at, ins);
        }
        _ => {
            let n = rng.range(1, 16) as usize;
            b.extend(rng.bytes(n));
        }
    }
    (kind, b)
}

fn time_bytes(rng: &mut Rng, valid: bool) -> Vec<u8> {
    if valid {
        return gen_time(rng).serialize();
    }
    let (r1, r2) = (rng.next(), (rng.next() >> 32) as u32);
    let secs: u64 = *rng.pick(&[i64::MAX as u64, 1 << 63, u64::MAX, 0, 1, r1]);
    let nanos: u32 = *rng.pick(&[1_000_000_000, u32::MAX, 0, 999_999_999, r2]);
    let flag: u8 = *rng.pick(&[0, 1, 7]);
    let mut b = secs.to_le_bytes().to_vec();
    b.extend_from_slice(&nanos.to_le_bytes());
    b.push(flag);
    if rng.chance(1, 8) {
        b.truncate(rng.usize_below(13));
    }
    b
}

/// (mode label, the tovec kind that fits, values)
fn gen_dbvalues(rng: &mut Rng) -> (&'static str, &'static str, Vec<DbValue>) {
    let n = if rng.chance(1, 10) { 0 } else { rng.range(1, 6) as usize };
    match rng.below(8) {
        0 => ("u64", "u64", (0..n).map(|_| DbValue::U64(gen_u64(rng))).collect()),
        1 => ("i64", "i64", (0..n).map(|_| DbValue::I64(gen_i64(rng))).collect()),
        2 => ("f64", "f64", (0..n).map(|_| DbValue::F64(DbF64::from(gen_f64(rng)))).collect()),
        3 => ("str", "str", (0..n).map(|_| DbValue::String(gen_string(rng))).collect()),
        4 => ("time-valid", "time", (0..n).map(|_| DbValue::Bytes(time_bytes(rng, true))).collect()),
        5 => (
            "time-mixed",
            "time",
            (0..n)
                .map(|_| {
                    let valid = rng.chance(1, 2);
                    DbValue::Bytes(time_bytes(rng, valid))
                })
                .collect(),
        ),
        6 => {
            // small integers: every numeric conversion (u64 <-> i64 -> f64) succeeds
            let vals = (0..n)
                .map(|_| if rng.chance(1, 2) { DbValue::U64(rng.below(1000)) } else { DbValue::I64(rng.below(1000) as i64 - 500) })
                .collect();
            ("small-int", *rng.pick(&["u64", "i64", "f64"]), vals)
        }
        _ => ("hetero", *rng.pick(TOVEC_KINDS), (0..n).map(|_| DbValue::generate(rng, 1)).collect()),
    }
}

impl Stream for CodecStream {
    fn reset(&mut self) {
        self.last_enc = None;
    }

    fn cases(&self, tier: Tier) -> u64 {
        match (self.prop, tier) {
            (Prop::C20, Tier::Quick) => 3000,
            (Prop::C20, Tier::Thorough) => 100_000,
            (Prop::C21, Tier::Quick) => 6000,
            (Prop::C21, Tier::Thorough) => 200_000,
        }
    }

    fn gen_case(&mut self, rng: &mut Rng, _tier: Tier, ctx: &mut Ctx) -> Vec<String> {
        match self.prop {
            Prop::C20 => self.gen_case_c20(rng, ctx),
            Prop::C21 => self.gen_case_c21(rng, ctx),
        }
    }

    fn exec(&mut self, line: &str, ctx: &mut Ctx) -> String {
        let t: Vec<&str> = line.split(' ').collect();
        match (t[0], t.len()) {
            ("enc", 4) => {
                ctx.bump("op:enc");
                self.op_enc(line, t[1], t[2], t[3], ctx)
            }
            ("dec", 4) => {
                ctx.bump("op:dec");
                self.op_dec(line, t[1], t[2], t[3], ctx)
            }
            ("tovec", 3) => {
                ctx.bump("op:tovec");
                self.op_tovec(line, t[1], t[2], ctx)
            }
            ("deep", 3) if t[1] == "QueryCondition" => {
                ctx.bump("op:deep");
                self.op_deep(t[2], ctx)
            }
            _ => {
                ctx.bump("op:unknown");
                bad(ctx)
            }
        }
    }

    fn rule(&self) -> String {
        match self.prop {
            Prop::C20 => "each case = one generated value of a random corpus type (edge-biased): `enc` (serialize, serialized_size, \
                          in-process round trip) then `dec` of the serialization + 0..8 random tail bytes; evaluations = op lines executed; \
                          distinct_nontrivial = distinct (hash of op line) `enc` ops whose value is not the type's default/empty value \
                          (0, false, empty string/bytes/vec, epoch, variant 0 with default fields)"
                .to_string(),
            Prop::C21 => "each case = 1..4 `dec`/`tovec` ops on malformed input for one corpus type: structure-aware mutations of a valid \
                          serialization (truncation, bit flips, length-prefix / enum-tag / time-field overwrites, non-canonical address \
                          spellings placed last in the buffer), uniformly random bytes, and Vec<T>::try_from(DbValue::Bytes) on (mutated) \
                          Vec<DbValue> serializations; evaluations = op lines executed; distinct_nontrivial = distinct (hash of op line) \
                          dec/tovec ops whose input is long enough for the decoder's first read (8-byte length / 1-byte tag / 13-byte time) \
                          to succeed, i.e. whose outcome is not produced by the very first read failing"
                .to_string(),
        }
    }
}
