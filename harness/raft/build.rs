// Compiles the CURRENT `<repo>/agdb_server/src/raft.rs` into the simulator:
//  * everything from the `#[cfg(test)]` test module on is cut,
//  * `use std::time::Instant;` is rewritten to the simulator's virtual clock,
//  * `src/raft_obs.rs` (read-only observers, harness-side) is appended so the harness can
//    print the private state. No other change: the protocol code is byte-for-byte the repo's.
use std::{env, fs, path::PathBuf};

fn main() {
    let manifest_dir = PathBuf::from(env::var("CARGO_MANIFEST_DIR").unwrap());
    let manifest = fs::read_to_string(manifest_dir.join("Cargo.toml")).expect("Cargo.toml");
    let mut repo = None;
    let mut in_table = false;
    for line in manifest.lines() {
        let l = line.trim();
        if l.starts_with('[') {
            in_table = l == "[package.metadata.verif]";
            continue;
        }
        if in_table && l.starts_with("repo") {
            if let Some(v) = l.split('=').nth(1) {
                repo = Some(v.trim().trim_matches('"').to_string());
            }
        }
    }
    let repo = repo.expect("[package.metadata.verif] repo missing in Cargo.toml");
    let src = PathBuf::from(&repo).join("agdb_server/src/raft.rs");
    println!("cargo:rerun-if-changed={}", src.display());
    println!("cargo:rerun-if-changed=src/raft_obs.rs");
    println!("cargo:rerun-if-changed=Cargo.toml");
    println!("cargo:rerun-if-changed=build.rs");
    let text = fs::read_to_string(&src).unwrap_or_else(|e| panic!("{}: {e}", src.display()));
    let cut = text.find("#[cfg(test)]").unwrap_or(text.len());
    let body = &text[..cut];
    assert!(
        body.contains("use std::time::Instant;"),
        "raft.rs no longer imports std::time::Instant: adapt the harness clock substitution"
    );
    let body = body.replace("use std::time::Instant;", "use crate::simclock::Instant;");
    let obs = fs::read_to_string(manifest_dir.join("src/raft_obs.rs")).expect("raft_obs.rs");
    let out = PathBuf::from(env::var("OUT_DIR").unwrap()).join("raft.rs");
    fs::write(&out, format!("{body}\n{obs}\n")).unwrap();
}
