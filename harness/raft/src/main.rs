// harness_raft: drives the real agdb_server raft.rs (compiled by build.rs) in a deterministic
// simulator. See /verif/tools/INTERFACE.md for the binary contract.
mod generator;
mod oracle;
#[allow(dead_code, unused_imports, unused_variables, clippy::all)]
mod raft {
    include!(concat!(env!("OUT_DIR"), "/raft.rs"));
}
mod server_error;
mod sim;
mod simclock;

use oracle::Oracle;
use serde_json::{Value, json};
use sim::{Msg, Op, Sim};
use std::collections::BTreeMap;
use std::panic::{AssertUnwindSafe, catch_unwind};
use std::sync::Mutex;

static PANIC_SITE: Mutex<Option<String>> = Mutex::new(None);

/// Applies op lines to the real code, producing impl.txt lines and oracle verdicts.
pub(crate) struct Runner {
    pub(crate) prop: String,
    pub(crate) variant: String,
    pub(crate) sim: Option<Sim>,
    pub(crate) oracle: Option<Oracle>,
    pub(crate) dead: bool,
    pub(crate) case: u64,
    pub(crate) ops: Vec<String>,
    pub(crate) out: Vec<String>,
    pub(crate) violations: Vec<Value>,
    pub(crate) hist: BTreeMap<String, u64>,
    pub(crate) leaders_elected: u64,
}

impl Runner {
    pub(crate) fn new(prop: &str, variant: &str) -> Runner {
        Runner {
            prop: prop.to_string(),
            variant: variant.to_string(),
            sim: None,
            oracle: None,
            dead: false,
            case: 0,
            ops: Vec::new(),
            out: Vec::new(),
            violations: Vec::new(),
            hist: BTreeMap::new(),
            leaders_elected: 0,
        }
    }

    pub(crate) fn bump(&mut self, k: &str) {
        *self.hist.entry(k.to_string()).or_insert(0) += 1;
    }

    fn finish_case(&mut self) {
        if let Some(o) = self.oracle.take() {
            self.leaders_elected += o.leaders_elected;
            self.violations.extend(o.violations);
        }
        self.sim = None;
        self.dead = false;
    }

    pub(crate) fn finish(&mut self) {
        self.finish_case();
    }

    /// Feed one op line; returns the impl output line.
    pub(crate) fn feed(&mut self, raw: &str) -> String {
        let line_no = self.ops.len();
        let mut text = raw.trim().to_string();
        let out = if let Some(rest) = text.strip_prefix("case ") {
            self.finish_case();
            self.case = rest.trim().parse().unwrap_or(0);
            format!("case {}", rest.trim())
        } else {
            // the variant token of `init` names the code under test, not the input: normalise it
            let toks: Vec<&str> = text.split(' ').collect();
            if (toks.len() == 5 || toks.len() == 6) && toks[0] == "init" {
                text = format!("{} {}", toks[..5].join(" "), self.variant);
            }
            match sim::parse_op(&text) {
                None => "bad-op".to_string(),
                Some(Op::Init { size, ef, hb, tt, .. }) => {
                    self.finish_case();
                    self.bump("op:init");
                    let sim = Sim::new(size, ef, hb, tt);
                    let l = sim.line("init", 0);
                    self.oracle = Some(Oracle::new(&self.prop, self.case, &sim, (ef, hb, tt)));
                    self.sim = Some(sim);
                    l
                }
                Some(op) => self.apply(&op, line_no),
            }
        };
        self.ops.push(text);
        self.out.push(out.clone());
        out
    }

    fn apply(&mut self, op: &Op, line_no: usize) -> String {
        if self.dead {
            return "dead".to_string();
        }
        let Some(sim) = self.sim.as_mut() else {
            return "noinit".to_string();
        };
        // who acts, and was it leader (for the call-site part of finding keys)
        let was_leader = match op {
            Op::Deliver(k) => match sim.msgs.get(*k as usize) {
                Some(Msg::Resp { resp, .. }) => sim.is_leader(resp.target as usize),
                _ => false,
            },
            _ => false,
        };
        let site = oracle::site(sim, op, was_leader);
        let kind = match op {
            Op::Deliver(k) => match sim.msgs.get(*k as usize) {
                Some(Msg::Req(r)) => format!("deliver:req:{}", raft::verif_obs::request_kind(r)),
                Some(Msg::Resp { resp, .. }) => {
                    format!("deliver:resp:{}", raft::verif_obs::response_kind(resp))
                }
                None => "deliver:nomsg".to_string(),
            },
            Op::Tick(_) => "op:tick".to_string(),
            Op::Adv(_) => "op:adv".to_string(),
            Op::Append(..) => "op:append".to_string(),
            Op::Ff => "op:ff".to_string(),
            Op::Goal => "op:goal".to_string(),
            Op::Init { .. } => unreachable!(),
        };
        if let Some(orc) = self.oracle.as_mut() {
            orc.pre_op(sim, op);
        }
        let res = catch_unwind(AssertUnwindSafe(|| sim.apply(op)));
        self.bump(&kind);
        match res {
            Ok(o) => {
                if o.status != "ok" {
                    self.bump(&format!("status:{}", o.status));
                }
                let sim = self.sim.as_ref().unwrap();
                let line = sim.line(o.status, o.first_new_msg);
                if let Some(orc) = self.oracle.as_mut() {
                    orc.observe(sim, line_no, site, op, o.status);
                }
                line
            }
            Err(_) => {
                self.dead = true;
                let s = PANIC_SITE.lock().unwrap().take().unwrap_or_else(|| "unknown".into());
                let key = format!("{}/panic/{}", self.prop, site);
                self.violations.push(json!({
                    "case": self.case, "line": line_no, "key": key,
                    "rule": "the consensus code does not panic", "expected": "no panic",
                    "observed": format!("panic at {s}")
                }));
                format!("panic:{s}")
            }
        }
    }
}

fn arg(args: &[String], name: &str) -> Option<String> {
    args.iter().position(|a| a == name).and_then(|i| args.get(i + 1).cloned())
}

fn write_outputs(dir: &str, r: &Runner, stats: Value) {
    std::fs::create_dir_all(dir).expect("out dir");
    let join = |v: &Vec<String>| {
        let mut s = v.join("\n");
        s.push('\n');
        s
    };
    std::fs::write(format!("{dir}/ops.txt"), join(&r.ops)).unwrap();
    std::fs::write(format!("{dir}/impl.txt"), join(&r.out)).unwrap();
    let mut o = String::new();
    for v in &r.violations {
        o.push_str(&v.to_string());
        o.push('\n');
    }
    std::fs::write(format!("{dir}/oracle.jsonl"), o).unwrap();
    std::fs::write(format!("{dir}/stats.json"), serde_json::to_string_pretty(&stats).unwrap()).unwrap();
}

fn main() {
    std::panic::set_hook(Box::new(|info| {
        let site = info
            .location()
            .map(|l| {
                let f = l.file();
                // file only (never a line number): OUT_DIR/raft.rs is the repo's raft.rs
                let f = f.rsplit('/').next().unwrap_or(f);
                f.to_string()
            })
            .unwrap_or_else(|| "unknown".to_string());
        *PANIC_SITE.lock().unwrap() = Some(site);
    }));
    let args: Vec<String> = std::env::args().collect();
    let mode = args.get(1).map(|s| s.as_str()).unwrap_or("");
    let prop = arg(&args, "--prop").unwrap_or_else(|| "C27".to_string());
    let out = arg(&args, "--out").unwrap_or_else(|| ".".to_string());
    let variant = sim::probe_variant();
    match mode {
        "gen" => {
            let seed: u64 = arg(&args, "--seed")
                .or_else(|| std::env::var("VERIF_SEED").ok())
                .and_then(|s| s.parse().ok())
                .unwrap_or(1);
            let tier = arg(&args, "--tier").unwrap_or_else(|| "quick".to_string());
            let corpus = arg(&args, "--corpus");
            let mut r = Runner::new(&prop, &variant);
            let stats = generator::generate(&mut r, seed, &tier, corpus.as_deref());
            r.finish();
            write_outputs(&out, &r, stats);
        }
        "replay" => {
            let ops = arg(&args, "--ops").expect("--ops <file>");
            let text = std::fs::read_to_string(&ops).expect("ops file");
            let mut r = Runner::new(&prop, &variant);
            for l in text.lines() {
                r.feed(l);
            }
            r.finish();
            let n = r.ops.len();
            let stats = json!({
                "evaluations": n, "distinct_nontrivial": 0,
                "rule": "replay of a given op file (no generation)",
                "samples": [], "histogram": r.hist, "variant": variant,
            });
            write_outputs(&out, &r, stats);
        }
        "variant" => println!("{variant}"),
        _ => {
            eprintln!("usage: harness_raft gen|replay --prop <ID> [--seed N --tier quick|thorough | --ops FILE] --out DIR");
            std::process::exit(2);
        }
    }
}
