// Deterministic simulator around the REAL `raft::Cluster` (compiled from the repo by build.rs).
// N nodes, one virtual clock, network = append-only pool of every request/response ever sent;
// `deliver k` hands message k to its addressee and leaves it in the pool, so loss (never deliver),
// duplication (deliver again) and reordering (any order) are all schedules of `deliver`.
use crate::raft::verif_obs as obs;
use crate::raft::verif_obs::{NodeDump, StateDump};
use crate::raft::{Cluster, ClusterSettings, Log, Request, Response, Storage};
use crate::server_error::ServerResult;
use crate::simclock;
use std::future::Future;
use std::pin::pin;
use std::task::{Context, Poll, Waker};
use std::time::Duration;

pub(crate) const HASH: u64 = 123;
pub(crate) const MAX_NODES: u64 = 7;
pub(crate) const MAX_ADV: u64 = 1_000_000_000;
pub(crate) const MAX_DATA: u64 = 1 << 32;

/// The async methods of raft.rs only await the in-memory storage below, which never pends.
pub(crate) fn block_on<F: Future>(f: F) -> F::Output {
    let mut f = pin!(f);
    let mut cx = Context::from_waker(Waker::noop());
    match f.as_mut().poll(&mut cx) {
        Poll::Ready(v) => v,
        Poll::Pending => panic!("raft future pended on in-memory storage"),
    }
}

#[derive(Debug, Clone, PartialEq, Eq, Hash)]
pub(crate) struct SEntry {
    pub(crate) index: u64,
    pub(crate) term: u64,
    pub(crate) data: u64,
    pub(crate) committed: bool,
}

/// In-memory log storage mirroring `agdb_server::cluster::ClusterStorage` + `ClusterLog`:
/// `append` first removes every *uncommitted* entry with `index >= log.index`
/// (`remove_uncommitted_logs`), `commit(i)` flags every uncommitted entry with `index <= i` and sets
/// `commit = i` only if there was one (`logs_uncommitted` loop), `logs(from)` returns the newest
/// `count - from` entries oldest-first (`logs_since`).
#[derive(Debug, Default, Clone)]
pub(crate) struct SimStorage {
    pub(crate) logs: Vec<SEntry>,
    pub(crate) index: u64,
    pub(crate) term: u64,
    pub(crate) commit: u64,
}

impl Storage<u64, ()> for SimStorage {
    async fn append(&mut self, log: Log<u64>, _notifier: Option<()>) -> ServerResult<()> {
        self.logs.retain(|e| e.committed || e.index < log.index);
        self.logs.push(SEntry { index: log.index, term: log.term, data: log.data, committed: false });
        self.index = log.index;
        self.term = log.term;
        Ok(())
    }

    async fn commit(&mut self, index: u64) -> ServerResult<()> {
        for e in self.logs.iter_mut() {
            if !e.committed && e.index <= index {
                self.commit = index;
                e.committed = true;
            }
        }
        Ok(())
    }

    fn log_index(&self) -> u64 {
        self.index
    }

    fn log_term(&self) -> u64 {
        self.term
    }

    fn log_commit(&self) -> u64 {
        self.commit
    }

    async fn logs(&self, from_index: u64) -> ServerResult<Vec<Log<u64>>> {
        let count = self.logs.len() as u64;
        let take = count.saturating_sub(from_index) as usize;
        Ok(self.logs[self.logs.len() - take..]
            .iter()
            .map(|e| Log { db_id: None, index: e.index, term: e.term, data: e.data })
            .collect())
    }
}

pub(crate) type Node = Cluster<u64, (), SimStorage>;

pub(crate) enum Msg {
    Req(Request<u64>),
    Resp { req_id: usize, resp: Response },
}

pub(crate) struct Sim {
    pub(crate) nodes: Vec<Node>,
    pub(crate) msgs: Vec<Msg>,
    pub(crate) now: u64,
}

#[derive(Debug, Clone, PartialEq, Eq)]
pub(crate) enum Op {
    Init { size: u64, ef: u64, hb: u64, tt: u64, variant: String },
    Tick(u64),
    Adv(u64),
    Deliver(u64),
    Append(u64, u64),
    /// marker: start of a fault-free phase (no effect on the cluster)
    Ff,
    /// marker: the C30 goal is evaluated on the state printed by this line (no effect on the cluster)
    Goal,
}

pub(crate) fn parse_op(line: &str) -> Option<Op> {
    let t: Vec<&str> = line.trim().split(' ').collect();
    let num = |s: &str| -> Option<u64> {
        if s.is_empty() || s.len() > 18 || !s.bytes().all(|b| b.is_ascii_digit()) {
            None
        } else {
            s.parse().ok()
        }
    };
    match t.as_slice() {
        ["init", s, ef, hb, tt, v] => {
            let (s, ef, hb, tt) = (num(s)?, num(ef)?, num(hb)?, num(tt)?);
            if s == 0 || s > MAX_NODES || ef > MAX_ADV || hb > MAX_ADV || tt > MAX_ADV {
                return None;
            }
            if !matches!(*v, "fixed" | "legacy" | "fixgrant" | "fixstale") {
                return None;
            }
            Some(Op::Init { size: s, ef, hb, tt, variant: v.to_string() })
        }
        ["ff"] => Some(Op::Ff),
        ["goal"] => Some(Op::Goal),
        ["tick", n] => Some(Op::Tick(num(n)?)),
        ["adv", d] => {
            let d = num(d)?;
            if d > MAX_ADV { None } else { Some(Op::Adv(d)) }
        }
        ["deliver", k] => Some(Op::Deliver(num(k)?)),
        ["append", n, d] => {
            let d = num(d)?;
            if d >= MAX_DATA { None } else { Some(Op::Append(num(n)?, d)) }
        }
        _ => None,
    }
}

pub(crate) fn op_text(op: &Op) -> String {
    match op {
        Op::Init { size, ef, hb, tt, variant } => format!("init {size} {ef} {hb} {tt} {variant}"),
        Op::Tick(n) => format!("tick {n}"),
        Op::Adv(d) => format!("adv {d}"),
        Op::Deliver(k) => format!("deliver {k}"),
        Op::Append(n, d) => format!("append {n} {d}"),
        Op::Ff => "ff".to_string(),
        Op::Goal => "goal".to_string(),
    }
}

/// What one event did, for the oracles and the generator.
pub(crate) struct Outcome {
    pub(crate) status: &'static str,
    pub(crate) first_new_msg: usize,
    /// node that executed code in this event (None for adv / rejected ops)
    pub(crate) actor: Option<usize>,
}

impl Sim {
    pub(crate) fn new(size: u64, ef: u64, hb: u64, tt: u64) -> Sim {
        simclock::set_now(0);
        let nodes = (0..size)
            .map(|index| {
                Cluster::new(
                    SimStorage::default(),
                    ClusterSettings {
                        index,
                        size,
                        hash: HASH,
                        election_factor_ms: ef,
                        heartbeat_timeout: Duration::from_millis(hb),
                        term_timeout: Duration::from_millis(tt),
                    },
                )
            })
            .collect();
        Sim { nodes, msgs: Vec::new(), now: 0 }
    }

    pub(crate) fn dump(&self, i: usize) -> NodeDump {
        obs::dump(&self.nodes[i])
    }

    pub(crate) fn is_leader(&self, i: usize) -> bool {
        self.dump(i).state == StateDump::Leader
    }

    fn push_requests(&mut self, reqs: Vec<Request<u64>>) {
        for r in reqs {
            self.msgs.push(Msg::Req(r));
        }
    }

    pub(crate) fn apply(&mut self, op: &Op) -> Outcome {
        simclock::set_now(self.now);
        let first_new_msg = self.msgs.len();
        let mut out = Outcome { status: "ok", first_new_msg, actor: None };
        match op {
            Op::Init { .. } => unreachable!("init handled by the caller"),
            Op::Ff => out.status = "ff",
            Op::Goal => out.status = "goal",
            Op::Adv(d) => {
                self.now += d;
                simclock::set_now(self.now);
            }
            Op::Tick(n) => {
                if *n >= self.nodes.len() as u64 {
                    out.status = "nonode";
                    return out;
                }
                out.actor = Some(*n as usize);
                if let Some(reqs) = self.nodes[*n as usize].process() {
                    self.push_requests(reqs);
                }
            }
            Op::Append(n, data) => {
                if *n >= self.nodes.len() as u64 {
                    out.status = "nonode";
                    return out;
                }
                // the server only appends where `leader() == Some(own index)` (forward.rs)
                if self.nodes[*n as usize].leader() != Some(*n) {
                    out.status = "notleader";
                    return out;
                }
                out.actor = Some(*n as usize);
                let reqs = block_on(self.nodes[*n as usize].append(*data, None))
                    .expect("in-memory storage never fails");
                self.push_requests(reqs);
            }
            Op::Deliver(k) => {
                if *k >= self.msgs.len() as u64 {
                    out.status = "nomsg";
                    return out;
                }
                let k = *k as usize;
                match &self.msgs[k] {
                    Msg::Req(r) => {
                        let (_, target) = obs::request_endpoints(r);
                        out.actor = Some(target as usize);
                        let resp = block_on(self.nodes[target as usize].request(r));
                        self.msgs.push(Msg::Resp { req_id: k, resp });
                    }
                    Msg::Resp { req_id, resp } => {
                        let Msg::Req(r) = &self.msgs[*req_id] else { unreachable!() };
                        let origin = resp.target as usize;
                        out.actor = Some(origin);
                        let reqs = block_on(self.nodes[origin].response(r, resp))
                            .expect("in-memory storage never fails");
                        if let Some(reqs) = reqs {
                            self.push_requests(reqs);
                        }
                    }
                }
            }
        }
        out
    }

    pub(crate) fn msg_text(&self, k: usize) -> String {
        match &self.msgs[k] {
            Msg::Req(r) => format!("{k}={}", obs::request_text(r)),
            Msg::Resp { req_id, resp } => format!("{k}=R{req_id}>{}", obs::response_text(resp)),
        }
    }

    pub(crate) fn node_text(&self, i: usize) -> String {
        let d = self.dump(i);
        let st = &self.nodes[i].storage;
        let state = match d.state {
            StateDump::Candidate => "C".to_string(),
            StateDump::Election => "E".to_string(),
            StateDump::Follower(l) => format!("F{l}"),
            StateDump::Leader => "L".to_string(),
            StateDump::Voted(t) => format!("V{t}"),
        };
        let logs = st
            .logs
            .iter()
            .map(|e| format!("{}/{}/{}/{}", e.index, e.term, e.data, if e.committed { 'c' } else { 'u' }))
            .collect::<Vec<_>>()
            .join(",");
        let peers = d
            .peers
            .iter()
            .map(|p| {
                format!("{}/{}/{}/{}/{}", p.log_index, p.log_term, p.log_commit, p.timer, p.voted as u8)
            })
            .collect::<Vec<_>>()
            .join(",");
        format!(
            "{}:{}:t{}:e{}:L[{}]:S{}/{}/{}:P[{}]",
            d.index, state, d.term, d.election_timeout, logs, st.index, st.term, st.commit, peers
        )
    }

    pub(crate) fn line(&self, status: &str, first_new_msg: usize) -> String {
        let mut s = format!("T{} {}", self.now, status);
        for i in 0..self.nodes.len() {
            s.push('|');
            s.push_str(&self.node_text(i));
        }
        s.push_str("|M[");
        s.push_str(
            &(first_new_msg..self.msgs.len()).map(|k| self.msg_text(k)).collect::<Vec<_>>().join(";"),
        );
        s.push(']');
        s
    }
}

/// Which of the two C27 repairs the compiled raft.rs contains, observed by behaviour:
/// (a) does a voter's term rise when it grants a vote, (b) is an OK answer to a vote request of an
/// earlier term ignored by a candidate of a later term.
pub(crate) fn probe_variant() -> String {
    let find = |s: &Sim, from: usize, kind: &str, a: u64, b: u64| -> usize {
        (from..s.msgs.len())
            .find(|k| match &s.msgs[*k] {
                Msg::Req(r) => obs::request_kind(r) == kind && obs::request_endpoints(r) == (a, b),
                Msg::Resp { req_id, resp } => {
                    let Msg::Req(r) = &s.msgs[*req_id] else { unreachable!() };
                    kind == "resp" && obs::request_endpoints(r) == (b, a) && resp.target == b
                }
            })
            .expect("probe message")
    };
    let mut s = Sim::new(3, 100, 100, 300);
    s.apply(&Op::Tick(0));
    let pv1 = find(&s, 0, "prevote", 0, 1);
    s.apply(&Op::Deliver(pv1 as u64));
    let r = find(&s, 0, "resp", 1, 0);
    s.apply(&Op::Deliver(r as u64)); // node 0: candidate term 1
    let v1 = find(&s, 0, "vote", 0, 1);
    let v2 = find(&s, 0, "vote", 0, 2);
    let m = s.msgs.len();
    s.apply(&Op::Deliver(v2 as u64)); // node 2 grants
    let grant_raises = s.dump(2).term == 1;
    let stale_ok = m; // response of node 2 to the term-1 vote request
    let _ = v1;
    s.apply(&Op::Adv(301));
    s.apply(&Op::Tick(0)); // candidate -> election
    let m2 = s.msgs.len();
    s.apply(&Op::Tick(0)); // pre-election for term 2
    let pv = find(&s, m2, "prevote", 0, 1);
    let m3 = s.msgs.len();
    s.apply(&Op::Deliver(pv as u64));
    s.apply(&Op::Deliver(m3 as u64)); // pre-vote ok -> candidate term 2
    let before = s.dump(0);
    s.apply(&Op::Deliver(stale_ok as u64));
    let after = s.dump(0);
    let stale_ignored = before.state == StateDump::Candidate && after == before;
    match (grant_raises, stale_ignored) {
        (true, true) => "fixed",
        (false, false) => "legacy",
        (true, false) => "fixgrant",
        (false, true) => "fixstale",
    }
    .to_string()
}
