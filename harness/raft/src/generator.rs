// Schedule generators. Every random choice derives from the seed (one PRNG).
// The generator runs the real code while it writes the schedule, because `deliver k` refers to
// the k-th message the code has sent; the resulting op lines replay deterministically.
use crate::raft::verif_obs as obs;
use crate::raft::verif_obs::StateDump;
use crate::sim::Msg;
use crate::{Runner, oracle::Oracle};
use serde_json::{Value, json};
use std::collections::{BTreeMap, HashSet};
use std::hash::{Hash, Hasher};

pub(crate) struct Rng(u64);

impl Rng {
    pub(crate) fn new(seed: u64) -> Rng {
        Rng(seed ^ 0x9E37_79B9_7F4A_7C15)
    }
    pub(crate) fn next(&mut self) -> u64 {
        // splitmix64
        self.0 = self.0.wrapping_add(0x9E37_79B9_7F4A_7C15);
        let mut z = self.0;
        z = (z ^ (z >> 30)).wrapping_mul(0xBF58_476D_1CE4_E5B9);
        z = (z ^ (z >> 27)).wrapping_mul(0x94D0_49BB_1331_11EB);
        z ^ (z >> 31)
    }
    pub(crate) fn below(&mut self, n: u64) -> u64 {
        if n == 0 { 0 } else { self.next() % n }
    }
    pub(crate) fn chance(&mut self, per_mille: u64) -> bool {
        self.below(1000) < per_mille
    }
    pub(crate) fn pick<'a, T>(&mut self, v: &'a [T]) -> &'a T {
        &v[self.below(v.len() as u64) as usize]
    }
}

/// Adversary parameters of one case (all per mille).
#[derive(Debug, Clone)]
struct Profile {
    name: &'static str,
    lose: u64,
    hold: u64,
    hold_vote: u64,
    lose_heartbeat: u64,
    dup: u64,
    append: u64,
    repartition: u64,
    tick_skip: u64,
}

const PROFILES: &[Profile] = &[
    Profile { name: "healthy", lose: 0, hold: 0, hold_vote: 0, lose_heartbeat: 0, dup: 0, append: 60, repartition: 0, tick_skip: 0 },
    Profile { name: "chaos", lose: 120, hold: 200, hold_vote: 300, lose_heartbeat: 150, dup: 120, append: 60, repartition: 15, tick_skip: 150 },
    Profile { name: "late-votes", lose: 30, hold: 100, hold_vote: 650, lose_heartbeat: 600, dup: 60, append: 20, repartition: 0, tick_skip: 50 },
    Profile { name: "partitions", lose: 20, hold: 60, hold_vote: 100, lose_heartbeat: 30, dup: 40, append: 90, repartition: 40, tick_skip: 30 },
    Profile { name: "stale-leader", lose: 10, hold: 250, hold_vote: 150, lose_heartbeat: 50, dup: 80, append: 140, repartition: 30, tick_skip: 30 },
    // scripted: builds the Figure-8 shape of the Raft paper directly (see `figure8_phase`), then a light random tail
    Profile { name: "figure8", lose: 20, hold: 80, hold_vote: 80, lose_heartbeat: 30, dup: 60, append: 80, repartition: 20, tick_skip: 30 },
];

struct Engine<'a> {
    r: &'a mut Runner,
    rng: &'a mut Rng,
    p: Profile,
    size: u64,
    cfg: (u64, u64, u64),
    seen: usize,
    pending: Vec<usize>,
    held: Vec<(u64, usize)>,
    delivered: Vec<usize>,
    isolated: HashSet<u64>,
    next_data: u64,
    hist: BTreeMap<String, u64>,
}

impl<'a> Engine<'a> {
    fn sim(&self) -> &crate::sim::Sim {
        self.r.sim.as_ref().expect("sim")
    }

    fn endpoints(&self, k: usize) -> (u64, u64) {
        match &self.sim().msgs[k] {
            Msg::Req(r) => obs::request_endpoints(r),
            Msg::Resp { req_id, .. } => {
                let Msg::Req(r) = &self.sim().msgs[*req_id] else { unreachable!() };
                let (from, to) = obs::request_endpoints(r);
                (to, from)
            }
        }
    }

    fn kind(&self, k: usize) -> &'static str {
        match &self.sim().msgs[k] {
            Msg::Req(r) => obs::request_kind(r),
            Msg::Resp { req_id, .. } => {
                let Msg::Req(r) = &self.sim().msgs[*req_id] else { unreachable!() };
                match obs::request_kind(r) {
                    "vote" => "vote-resp",
                    "prevote" => "prevote-resp",
                    "append" => "append-resp",
                    _ => "heartbeat-resp",
                }
            }
        }
    }

    /// feed an op and decide the fate of every message the code sent in it
    fn emit(&mut self, op: String, adversarial: bool) {
        self.r.feed(&op);
        let n = self.sim().msgs.len();
        let now = self.sim().now;
        let (_, _, tt) = self.cfg;
        for k in self.seen..n {
            if !adversarial {
                self.pending.push(k);
                continue;
            }
            let kind = self.kind(k);
            let lose = if kind == "heartbeat" { self.p.lose_heartbeat.max(self.p.lose) } else { self.p.lose };
            let hold = if kind.starts_with("vote") { self.p.hold_vote } else { self.p.hold };
            if self.rng.chance(lose) {
                *self.hist.entry("fate:lost".into()).or_insert(0) += 1;
            } else if self.rng.chance(hold) {
                let delay = tt / 2 + self.rng.below(2 * tt + 1);
                self.held.push((now + delay, k));
                *self.hist.entry("fate:held".into()).or_insert(0) += 1;
            } else {
                self.pending.push(k);
            }
        }
        self.seen = n;
    }

    fn release_held(&mut self) {
        let now = self.sim().now;
        let mut keep = Vec::new();
        for (t, k) in std::mem::take(&mut self.held) {
            if t <= now { self.pending.push(k) } else { keep.push((t, k)) }
        }
        self.held = keep;
    }

    fn deliverable(&self, k: usize) -> bool {
        let (a, b) = self.endpoints(k);
        !self.isolated.contains(&a) && !self.isolated.contains(&b)
    }

    fn time_step(&mut self, dt: u64, adversarial: bool) {
        self.emit(format!("adv {dt}"), adversarial);
        for n in 0..self.size {
            if adversarial && self.rng.chance(self.p.tick_skip) {
                continue;
            }
            self.emit(format!("tick {n}"), adversarial);
        }
        self.release_held();
    }

    fn leaders(&self) -> Vec<u64> {
        (0..self.size).filter(|i| self.sim().is_leader(*i as usize)).collect()
    }

    fn adversarial_phase(&mut self, steps: u64) {
        let (_, hb, tt) = self.cfg;
        let dts = [hb / 4 + 1, hb / 2 + 1, hb / 2 + 1, hb + 1, tt / 2, tt + 1];
        for _ in 0..steps {
            let deliverable: Vec<usize> =
                self.pending.iter().cloned().filter(|k| self.deliverable(*k)).collect();
            let x = self.rng.below(1000);
            if self.rng.chance(self.p.repartition) {
                self.isolated.clear();
                match self.rng.below(10) {
                    0..=3 => {}
                    4..=6 => {
                        let l = self.leaders();
                        if let Some(l) = l.first() {
                            self.isolated.insert(*l);
                        } else {
                            self.isolated.insert(self.rng.below(self.size));
                        }
                    }
                    _ => {
                        self.isolated.insert(self.rng.below(self.size));
                    }
                }
                *self.hist.entry("adv:repartition".into()).or_insert(0) += 1;
            }
            if !deliverable.is_empty() && x < 620 {
                // mostly oldest-first, sometimes any (reordering)
                let k = if self.rng.chance(600) { deliverable[0] } else { *self.rng.pick(&deliverable) };
                self.pending.retain(|j| *j != k);
                self.delivered.push(k);
                self.emit(format!("deliver {k}"), true);
            } else if !self.delivered.is_empty() && x < 620 + self.p.dup {
                let k = *self.rng.pick(&self.delivered);
                if self.deliverable(k) {
                    *self.hist.entry("adv:duplicate".into()).or_insert(0) += 1;
                    self.emit(format!("deliver {k}"), true);
                }
            } else if x < 620 + self.p.dup + self.p.append {
                // client appends go to a node that believes it is leader (a stale leader counts);
                // only 1 in 50 is aimed at an arbitrary node to keep the `notleader` path exercised
                let l = self.leaders();
                let stray = self.rng.chance(20);
                if l.is_empty() && !stray {
                    let dt = *self.rng.pick(&dts);
                    self.time_step(dt.max(1), true);
                } else {
                    let n = if l.is_empty() || stray { self.rng.below(self.size) } else { *self.rng.pick(&l) };
                    self.next_data += 1;
                    self.emit(format!("append {n} {}", self.next_data), true);
                }
            } else {
                let dt = *self.rng.pick(&dts);
                self.time_step(dt.max(1), true);
            }
        }
    }

    fn connect(&mut self, set: &[u64]) {
        self.isolated = (0..self.size).filter(|i| !set.contains(i)).collect();
    }

    /// deliver what can be delivered (oldest first), let time pass, until `pred` holds
    fn run_until(&mut self, limit: u64, pred: &dyn Fn(&crate::sim::Sim) -> bool) -> bool {
        let (_, hb, _) = self.cfg;
        for _ in 0..limit {
            for _ in 0..40 {
                let next = self.pending.iter().cloned().find(|k| self.deliverable(*k));
                let Some(k) = next else { break };
                self.pending.retain(|j| *j != k);
                self.delivered.push(k);
                self.emit(format!("deliver {k}"), false);
                if pred(self.sim()) {
                    return true;
                }
            }
            if pred(self.sim()) {
                return true;
            }
            let dt = hb / 2 + 1 + self.rng.below(hb / 2 + 1);
            self.time_step(dt, false);
        }
        pred(self.sim())
    }

    fn term_of(&self, i: u64) -> u64 {
        self.sim().dump(i as usize).term
    }

    /// The Figure-8 shape of the Raft paper on three nodes, built directly:
    /// 1. A wins a term and appends `a` that reaches nobody, A is cut off;
    /// 2. B wins a later term with C's vote and appends `b` that reaches nobody, B is cut off;
    /// 3. A comes back with C only, wins a still later term and replicates its OLD-term entry `a`
    ///    to C (a majority) - `Cluster::commit` counts replicas regardless of the entry's term;
    /// 4. A is cut off, B comes back with C only: its last term is newer, it wins and overwrites `a`.
    /// Messages across a cut stay pending and are delivered after the heal (stale traffic).
    fn figure8_phase(&mut self) {
        let all: Vec<u64> = (0..self.size).collect();
        self.connect(&all);
        if !self.run_until(60, &|s| (0..s.nodes.len()).any(|i| s.is_leader(i))) {
            return;
        }
        let a = self.leaders()[0];
        let others: Vec<u64> = all.iter().cloned().filter(|i| *i != a).collect();
        let (b, c) = (others[0], others[1]);
        self.connect(&[]);
        self.next_data += 1;
        self.emit(format!("append {a} {}", self.next_data), false);
        *self.hist.entry("figure8:step1".into()).or_insert(0) += 1;
        // 2. B and C only
        self.connect(&[b, c]);
        let ta = self.term_of(a);
        if !self.run_until(120, &|s| s.is_leader(b as usize) && s.dump(b as usize).term > ta) {
            return;
        }
        self.connect(&[]);
        self.next_data += 1;
        self.emit(format!("append {b} {}", self.next_data), false);
        *self.hist.entry("figure8:step2".into()).or_insert(0) += 1;
        // 3. A and C only: A wins a later term and pushes its old entry to C
        self.connect(&[a, c]);
        let tb = self.term_of(b);
        if !self.run_until(160, &|s| s.is_leader(a as usize) && s.dump(a as usize).term > tb) {
            return;
        }
        *self.hist.entry("figure8:step3".into()).or_insert(0) += 1;
        let committed = self.run_until(40, &|s| s.nodes[a as usize].storage.logs.iter().any(|e| e.committed));
        if committed {
            *self.hist.entry("figure8:old-term-entry-committed".into()).or_insert(0) += 1;
        }
        // 4. B and C only: B's last term is newer than C's
        self.connect(&[b, c]);
        let ta = self.term_of(a);
        if !self.run_until(160, &|s| s.is_leader(b as usize) && s.dump(b as usize).term > ta) {
            return;
        }
        *self.hist.entry("figure8:step4".into()).or_insert(0) += 1;
        self.run_until(40, &|s| s.nodes[c as usize].storage.logs.iter().filter(|e| e.committed).count() >= 1
            && s.nodes[b as usize].storage.logs.iter().any(|e| e.committed));
        // 5. heal: everything held across the cuts may now arrive
        self.connect(&all);
    }

    /// every message sent from now on is delivered exactly once (random order), time advances by
    /// `q` only at quiescence, every node ticks after every advance
    fn fault_free_phase(&mut self, appends: u64) {
        let (_, hb, _) = self.cfg;
        let q = (hb / 4).max(1);
        self.pending.clear();
        self.held.clear();
        self.isolated.clear();
        self.emit("ff".to_string(), false);
        let bound = Oracle::liveness_bound(self.size, self.cfg);
        let mut appends_left = appends;
        let mut deadline = self.sim().now + bound + q;
        let mut guard = 0;
        loop {
            guard += 1;
            let mut burst = 0;
            while !self.pending.is_empty() && burst < 400 {
                burst += 1;
                let i = self.rng.below(self.pending.len() as u64) as usize;
                let k = self.pending.swap_remove(i);
                self.emit(format!("deliver {k}"), false);
            }
            if burst >= 400 {
                // the cluster keeps sending without time passing (message livelock)
                *self.hist.entry("ff:no-quiescence".into()).or_insert(0) += 1;
                break;
            }
            if appends_left > 0 && self.rng.chance(150) {
                if let Some(l) = self.leaders().first().cloned() {
                    appends_left -= 1;
                    self.next_data += 1;
                    self.emit(format!("append {l} {}", self.next_data), false);
                    deadline = self.sim().now + bound + q;
                    continue;
                }
            }
            if self.sim().now >= deadline || guard > 5000 {
                break;
            }
            self.time_step(q, false);
        }
        self.emit("goal".to_string(), false);
    }
}

fn case_hash(lines: &[String]) -> u64 {
    let mut h = std::collections::hash_map::DefaultHasher::new();
    for l in lines {
        l.hash(&mut h);
    }
    h.finish()
}

pub(crate) fn generate(r: &mut Runner, seed: u64, tier: &str, corpus: Option<&str>) -> Value {
    let mut rng = Rng::new(seed);
    let mut hist: BTreeMap<String, u64> = BTreeMap::new();
    let mut samples: Vec<Value> = Vec::new();
    let mut distinct: HashSet<u64> = HashSet::new();
    let mut corpus_cases = 0u64;

    // 1. corpus first
    if let Some(dir) = corpus {
        let mut files: Vec<_> = std::fs::read_dir(dir)
            .map(|d| d.filter_map(|e| e.ok()).map(|e| e.path()).collect())
            .unwrap_or_default();
        files.sort();
        for f in files {
            if f.extension().and_then(|e| e.to_str()) != Some("ops") {
                continue;
            }
            if let Ok(text) = std::fs::read_to_string(&f) {
                for l in text.lines() {
                    if l.starts_with("case ") {
                        corpus_cases += 1;
                    }
                    r.feed(l);
                }
            }
        }
    }

    let prop = r.prop.clone();
    let (cases, steps) = match (prop.as_str(), tier) {
        ("C30", "thorough") => (400u64, 120u64),
        ("C30", _) => (40, 80),
        (_, "thorough") => (4000, 320),
        _ => (260, 240),
    };
    let variant = r.variant.clone();

    for c in 0..cases {
        let case_no = 1000 + c;
        let first_line = r.ops.len();
        r.feed(&format!("case {case_no}"));
        let size = *rng.pick(&[1u64, 2, 3, 3, 3, 3, 3, 3, 4, 5, 5]);
        let cfg = *rng.pick(&[(40u64, 40u64, 120u64), (40, 40, 120), (100, 100, 300), (20, 40, 120), (60, 20, 100), (0, 10, 30)]);
        let cfg = if prop == "C30" { (40, 40, 120) } else { cfg };
        let profile = if prop == "C30" {
            PROFILES[if rng.chance(500) { 0 } else { 3 }].clone()
        } else {
            let w: &[usize] = match prop.as_str() {
                "C27" => &[0, 1, 1, 2, 2, 2, 2, 3, 4],
                _ => &[0, 1, 1, 2, 3, 3, 3, 4, 4, 4, 5, 5],
            };
            PROFILES[*rng.pick(w)].clone()
        };
        let size = if profile.name == "figure8" { 3 } else { size };
        *hist.entry(format!("profile:{}", profile.name)).or_insert(0) += 1;
        *hist.entry(format!("size:{size}")).or_insert(0) += 1;
        *hist.entry(format!("timing:{}/{}/{}", cfg.0, cfg.1, cfg.2)).or_insert(0) += 1;
        r.feed(&format!("init {size} {} {} {} {variant}", cfg.0, cfg.1, cfg.2));
        let mut e = Engine {
            r: &mut *r,
            rng: &mut rng,
            p: profile.clone(),
            size,
            cfg,
            seen: 0,
            pending: Vec::new(),
            held: Vec::new(),
            delivered: Vec::new(),
            isolated: HashSet::new(),
            next_data: 0,
            hist: BTreeMap::new(),
        };
        if prop == "C30" {
            if profile.name != "healthy" {
                let n = 20 + e.rng.below(steps);
                e.adversarial_phase(n);
            }
            let appends = e.rng.below(4);
            e.fault_free_phase(appends);
        } else {
            if profile.name == "figure8" {
                e.figure8_phase();
                e.adversarial_phase(steps / 4);
            } else {
                e.adversarial_phase(steps);
            }
            // a third of the cases end with a healed, fault-free tail (late commits, re-elections)
            if e.rng.chance(330) {
                e.fault_free_phase(2);
            }
        }
        for (k, v) in std::mem::take(&mut e.hist) {
            *hist.entry(k).or_insert(0) += v;
        }
        // per-case measurements from the oracle's view of the real code
        let (elected, max_term, lc) = r
            .oracle
            .as_ref()
            .map(|o| (o.leaders_elected, o.max_term, o.leader_committed.len()))
            .unwrap_or((0, 0, 0));
        let two_leader_states = r
            .sim
            .as_ref()
            .map(|s| (0..s.nodes.len()).filter(|i| s.dump(*i).state == StateDump::Leader).count())
            .unwrap_or(0);
        *hist.entry(format!("case:leaders-elected:{}", elected.min(4))).or_insert(0) += 1;
        *hist.entry(format!("case:max-term:{}", max_term.min(6))).or_insert(0) += 1;
        *hist.entry(format!("case:leader-commits:{}", (lc as u64).min(4))).or_insert(0) += 1;
        *hist.entry(format!("case:leaders-at-end:{two_leader_states}")).or_insert(0) += 1;
        if elected >= 1 && size > 1 {
            distinct.insert(case_hash(&r.ops[first_line..]));
        }
        if samples.len() < 5 {
            samples.push(json!({
                "case": case_no, "size": size, "timing": [cfg.0, cfg.1, cfg.2], "profile": profile.name,
                "events": r.ops.len() - first_line - 2, "leaders_elected": elected, "max_term": max_term,
                "first_ops": r.ops[first_line..(first_line + 12).min(r.ops.len())].to_vec(),
            }));
        }
    }
    r.finish();
    for (k, v) in r.hist.iter() {
        *hist.entry(k.clone()).or_insert(0) += v;
    }
    let evaluations = r.ops.iter().filter(|l| !l.starts_with("case ")).count();
    json!({
        "evaluations": evaluations,
        "cases": cases + corpus_cases,
        "corpus_cases": corpus_cases,
        "distinct_nontrivial": distinct.len(),
        "rule": "evaluations = events executed on the real raft.rs; a case is non-trivial when the cluster has more than one node and at least one node was elected leader; distinctness by hash of the case's op lines",
        "samples": samples,
        "histogram": hist,
        "variant": variant,
        "seed": seed,
        "tier": tier,
    })
}
