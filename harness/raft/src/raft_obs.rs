// ---- appended by harness/raft/build.rs: read-only observers (harness side, not part of /repo) ----
// A child module sees the private fields of `Cluster`, `Request`, `Response`; nothing here mutates.
pub(crate) mod verif_obs {
    use super::*;

    #[derive(Debug, Clone, PartialEq, Eq)]
    pub(crate) enum StateDump {
        Candidate,
        Election,
        Follower(u64),
        Leader,
        Voted(u64),
    }

    #[derive(Debug, Clone, PartialEq, Eq)]
    pub(crate) struct PeerDump {
        pub(crate) index: u64,
        pub(crate) log_index: u64,
        pub(crate) log_term: u64,
        pub(crate) log_commit: u64,
        pub(crate) timer: u64,
        pub(crate) voted: bool,
    }

    #[derive(Debug, Clone, PartialEq, Eq)]
    pub(crate) struct NodeDump {
        pub(crate) state: StateDump,
        pub(crate) index: u64,
        pub(crate) term: u64,
        pub(crate) election_timeout: u64,
        pub(crate) peers: Vec<PeerDump>,
    }

    pub(crate) fn dump<T: Clone, N, S: Storage<T, N>>(c: &Cluster<T, N, S>) -> NodeDump {
        NodeDump {
            state: match c.state {
                ClusterState::Candidate => StateDump::Candidate,
                ClusterState::Election => StateDump::Election,
                ClusterState::Follower(l) => StateDump::Follower(l),
                ClusterState::Leader => StateDump::Leader,
                ClusterState::Voted(t) => StateDump::Voted(t),
            },
            index: c.index,
            term: c.term,
            election_timeout: c.election_timeout.as_millis() as u64,
            peers: c
                .nodes
                .iter()
                .map(|n| PeerDump {
                    index: n.index,
                    log_index: n.log_index,
                    log_term: n.log_term,
                    log_commit: n.log_commit,
                    timer: n.timer.ms(),
                    voted: n.voted,
                })
                .collect(),
        }
    }

    fn opt(v: &Option<u64>) -> String {
        match v {
            Some(x) => x.to_string(),
            None => "-".to_string(),
        }
    }

    fn mv(m: &MismatchedValues) -> String {
        format!("{},{}", opt(&m.local), opt(&m.requested))
    }

    /// `Q<from>><to>/t<term>/<li>/<lt>/<lc>/<kind>`
    pub(crate) fn request_text(r: &Request<u64>) -> String {
        let kind = match &r.data {
            RequestType::Append(logs) => format!(
                "A[{}]",
                logs.iter()
                    .map(|l| format!("{}/{}/{}", l.index, l.term, l.data))
                    .collect::<Vec<_>>()
                    .join(",")
            ),
            RequestType::Heartbeat => "H".to_string(),
            RequestType::PreVote => "P".to_string(),
            RequestType::Vote => "V".to_string(),
        };
        format!(
            "Q{}>{}/h{}/t{}/{}/{}/{}/{}",
            r.index, r.target, r.hash, r.term, r.log_index, r.log_term, r.log_commit, kind
        )
    }

    pub(crate) fn request_endpoints<T>(r: &Request<T>) -> (u64, u64) {
        (r.index, r.target)
    }

    pub(crate) fn request_kind<T>(r: &Request<T>) -> &'static str {
        match &r.data {
            RequestType::Append(_) => "append",
            RequestType::Heartbeat => "heartbeat",
            RequestType::PreVote => "prevote",
            RequestType::Vote => "vote",
        }
    }

    pub(crate) fn request_term<T>(r: &Request<T>) -> u64 {
        r.term
    }

    pub(crate) fn response_kind(r: &Response) -> &'static str {
        match &r.result {
            ResponseType::Ok => "ok",
            ResponseType::CommitError(_) => "commit-error",
            ResponseType::ClusterMismatch(_) => "cluster-mismatch",
            ResponseType::LeaderMismatch(_) => "leader-mismatch",
            ResponseType::TermMismatch(_) => "term-mismatch",
            ResponseType::LogMismatch(_) => "log-mismatch",
            ResponseType::AlreadyVoted(_) => "already-voted",
        }
    }

    /// `<target>/<result>`
    pub(crate) fn response_text(r: &Response) -> String {
        let res = match &r.result {
            ResponseType::Ok => "OK".to_string(),
            ResponseType::CommitError(_) => "CE".to_string(),
            ResponseType::ClusterMismatch(m) => format!("CM({})", mv(m)),
            ResponseType::LeaderMismatch(m) => format!("LM({})", mv(m)),
            ResponseType::TermMismatch(m) => format!("TM({})", mv(m)),
            ResponseType::LogMismatch(m) => {
                format!("LG({},{},{})", mv(&m.index), mv(&m.term), mv(&m.commit))
            }
            ResponseType::AlreadyVoted(m) => format!("AV({})", mv(m)),
        };
        format!("{}/{}", r.target, res)
    }
}
