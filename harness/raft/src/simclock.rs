// Virtual clock (milliseconds) substituted for std::time::Instant inside raft.rs.
use std::cell::Cell;
use std::time::Duration;

thread_local! { static NOW: Cell<u64> = const { Cell::new(0) }; }

pub(crate) fn set_now(ms: u64) {
    NOW.with(|n| n.set(ms));
}

#[derive(Debug, Clone, Copy, PartialEq, Eq)]
pub(crate) struct Instant(u64);

impl Instant {
    pub(crate) fn now() -> Self {
        Instant(NOW.with(|n| n.get()))
    }
    pub(crate) fn elapsed(&self) -> Duration {
        Duration::from_millis(NOW.with(|n| n.get()).saturating_sub(self.0))
    }
    pub(crate) fn ms(&self) -> u64 {
        self.0
    }
}
