// Shim for `crate::server_error` as imported by raft.rs (the real one pulls in axum).
#[derive(Debug)]
pub(crate) struct ServerError {
    pub(crate) description: String,
}

pub(crate) type ServerResult<T = ()> = Result<T, ServerError>;

impl<E: ToString> From<E> for ServerError {
    fn from(value: E) -> Self {
        Self { description: value.to_string() }
    }
}
