// The properties' own oracles, evaluated on the real code's observable state after every event.
// Nothing here knows the Lean model.
use crate::raft::verif_obs::StateDump;
use crate::sim::{Msg, Op, SEntry, Sim};
use serde_json::{Value, json};
use std::collections::{BTreeMap, HashSet};

#[derive(Clone)]
struct Snap {
    state: StateDump,
    term: u64,
    commit: u64,         // raft-level local().log_commit
    storage_commit: u64, // Storage::log_commit()
    log: Vec<SEntry>,
}

pub(crate) struct Oracle {
    prop: String,
    case: u64,
    prev: Vec<Snap>,
    /// first committed entry seen anywhere at an index: index -> (term, data, node)
    global_committed: BTreeMap<u64, (u64, u64, usize)>,
    /// entries committed by a node while it was leader: (index, term, data, leader, leader term)
    pub(crate) leader_committed: Vec<(u64, u64, u64, usize, u64)>,
    reported: HashSet<String>,
    pub(crate) violations: Vec<Value>,
    pub(crate) leaders_elected: u64,
    pub(crate) max_term: u64,
    cfg: (u64, u64, u64),
    ff: Option<FaultFree>,
    pub(crate) goals_checked: u64,
    pub(crate) goals_skipped: u64,
}

/// Fault-free phase tracking for C30 (harness side only; the model just echoes `ff` / `goal`).
/// The phase is *clean* while: every message sent since `ff` is delivered exactly once (older
/// messages never), time advances only at quiescence by at most half a heartbeat period, and
/// every advance is followed by one tick of every node in index order.
struct FaultFree {
    clean: bool,
    start_msg: usize,
    delivered: HashSet<usize>,
    since: u64,
    tick_expect: Option<usize>,
    appended: Vec<(u64, u64, u64)>,
}

fn snap(sim: &Sim, i: usize) -> Snap {
    let d = sim.dump(i);
    let st = &sim.nodes[i].storage;
    Snap {
        commit: d.peers[i].log_commit,
        state: d.state,
        term: d.term,
        storage_commit: st.commit,
        log: st.logs.clone(),
    }
}

/// raft.rs function that ran in this event (stable call-site part of the finding key).
pub(crate) fn site(sim: &Sim, op: &Op, was_leader: bool) -> &'static str {
    use crate::raft::verif_obs as obs;
    match op {
        Op::Init { .. } => "Cluster::new",
        Op::Adv(_) | Op::Ff | Op::Goal => "none",
        Op::Tick(_) => "Cluster::process",
        Op::Append(..) => "Cluster::append",
        Op::Deliver(k) => match sim.msgs.get(*k as usize) {
            None => "none",
            Some(Msg::Req(r)) => match obs::request_kind(r) {
                "append" => "Cluster::append_request",
                "heartbeat" => "Cluster::heartbeat_request",
                "prevote" => "Cluster::pre_vote_request",
                _ => "Cluster::vote_request",
            },
            Some(Msg::Resp { req_id, resp }) => {
                let Msg::Req(r) = &sim.msgs[*req_id] else { unreachable!() };
                match (obs::request_kind(r), obs::response_kind(resp)) {
                    ("vote", "ok") => "Cluster::vote_received",
                    ("prevote", "ok") => "Cluster::pre_vote_received",
                    ("append" | "heartbeat", "ok") if was_leader => "Cluster::commit",
                    ("append" | "heartbeat", "log-mismatch") if was_leader => "Cluster::reconcile",
                    _ => "Cluster::response",
                }
            }
        },
    }
}

impl Oracle {
    pub(crate) fn new(prop: &str, case: u64, sim: &Sim, cfg: (u64, u64, u64)) -> Oracle {
        let mut o = Oracle {
            prop: prop.to_string(),
            case,
            prev: (0..sim.nodes.len()).map(|i| snap(sim, i)).collect(),
            global_committed: BTreeMap::new(),
            leader_committed: Vec::new(),
            reported: HashSet::new(),
            violations: Vec::new(),
            leaders_elected: 0,
            max_term: 0,
            cfg,
            ff: None,
            goals_checked: 0,
            goals_skipped: 0,
        };
        // a single-node cluster starts as leader
        o.leaders_elected += o.prev.iter().filter(|s| s.state == StateDump::Leader).count() as u64;
        o
    }

    fn report(&mut self, prop: &str, line: usize, key: String, rule: &str, expected: Value, observed: Value) {
        if prop != self.prop || !self.reported.insert(key.clone()) {
            return;
        }
        self.violations.push(json!({
            "case": self.case, "line": line, "key": key, "rule": rule,
            "expected": expected, "observed": observed
        }));
    }

    /// Step bound of C30: fault-free virtual time after the last append within which the goal must hold.
    pub(crate) fn liveness_bound(size: u64, cfg: (u64, u64, u64)) -> u64 {
        let (ef, hb, tt) = cfg;
        3 * (tt + size * ef) + 5 * hb
    }

    /// Call before an event is applied (tracks whether the schedule since `ff` is fault-free).
    pub(crate) fn pre_op(&mut self, sim: &Sim, op: &Op) {
        let (_, hb, _) = self.cfg;
        if let Op::Ff = op {
            self.ff = Some(FaultFree {
                clean: true,
                start_msg: sim.msgs.len(),
                delivered: HashSet::new(),
                since: sim.now,
                tick_expect: None,
                appended: Vec::new(),
            });
            return;
        }
        let Some(ff) = self.ff.as_mut() else { return };
        let quiescent = (ff.start_msg..sim.msgs.len()).all(|k| ff.delivered.contains(&k));
        match op {
            Op::Deliver(k) => {
                let k = *k as usize;
                if k < ff.start_msg || k >= sim.msgs.len() || ff.tick_expect.is_some() || !ff.delivered.insert(k) {
                    ff.clean = false;
                }
            }
            Op::Adv(d) => {
                if !quiescent || ff.tick_expect.is_some() || *d == 0 || 2 * *d > hb.max(2) {
                    ff.clean = false;
                }
                ff.tick_expect = Some(0);
            }
            Op::Tick(n) => {
                if ff.tick_expect != Some(*n as usize) {
                    ff.clean = false;
                }
                ff.tick_expect = if (*n as usize) + 1 < sim.nodes.len() { Some(*n as usize + 1) } else { None };
            }
            Op::Append(..) => {
                if ff.tick_expect.is_some() {
                    ff.clean = false;
                }
            }
            _ => {}
        }
    }

    /// Call after every applied event. `line` = 0-based line number in ops.txt.
    pub(crate) fn observe(&mut self, sim: &Sim, line: usize, site: &str, op: &Op, status: &str) {
        if let Some(ff) = self.ff.as_mut() {
            if let (Op::Append(n, _), "ok") = (op, status) {
                if let Some(e) = sim.nodes[*n as usize].storage.logs.last() {
                    ff.appended.push((e.index, e.term, e.data));
                }
                ff.since = sim.now;
            }
        }
        if let Op::Goal = op {
            let bound = Self::liveness_bound(sim.nodes.len() as u64, self.cfg);
            let verdict = match self.ff.as_ref() {
                Some(ff)
                    if ff.clean
                        && ff.tick_expect.is_none()
                        && (ff.start_msg..sim.msgs.len()).all(|k| ff.delivered.contains(&k))
                        && sim.now - ff.since >= bound =>
                {
                    Some(ff.appended.clone())
                }
                _ => None,
            };
            match verdict {
                Some(appended) => {
                    self.goals_checked += 1;
                    self.check_liveness(sim, line, &appended);
                }
                None => self.goals_skipped += 1,
            }
        }
        let now: Vec<Snap> = (0..sim.nodes.len()).map(|i| snap(sim, i)).collect();
        let prev = std::mem::take(&mut self.prev);

        for (i, (p, n)) in prev.iter().zip(now.iter()).enumerate() {
            self.max_term = self.max_term.max(n.term);
            // ---- C28 local: commit index never decreases
            if n.commit < p.commit || n.storage_commit < p.storage_commit {
                self.report(
                    "C28", line, format!("C28/commit-index-decreased/{site}"),
                    "a node's commit index never decreases",
                    json!({"node": i, "commit_at_least": p.commit, "storage_commit_at_least": p.storage_commit}),
                    json!({"node": i, "commit": n.commit, "storage_commit": n.storage_commit}),
                );
            }
            // ---- C28 local: a committed entry is never removed or replaced on its node
            for e in p.log.iter().filter(|e| e.committed) {
                let same: Vec<&SEntry> = n.log.iter().filter(|x| x.index == e.index).collect();
                if same.len() != 1 || same[0] != e {
                    self.report(
                        "C28", line, format!("C28/committed-entry-changed/{site}"),
                        "an entry once committed on a node is never removed or replaced there",
                        json!({"node": i, "entry": [e.index, e.term, e.data]}),
                        json!({"node": i, "entries_at_index": same.iter().map(|x| json!([x.index, x.term, x.data, x.committed])).collect::<Vec<_>>()}),
                    );
                }
            }
            // ---- newly committed entries on node i
            let newly: Vec<SEntry> = n
                .log
                .iter()
                .filter(|e| e.committed && !p.log.iter().any(|x| x.committed && x == *e))
                .cloned()
                .collect();
            for e in &newly {
                // C28 global: no two nodes commit different entries at one index
                match self.global_committed.get(&e.index).cloned() {
                    None => {
                        self.global_committed.insert(e.index, (e.term, e.data, i));
                    }
                    Some((t, d, who)) => {
                        if (t, d) != (e.term, e.data) {
                            self.report(
                                "C28", line, format!("C28/committed-entries-differ/{site}"),
                                "no two nodes ever commit different entries at the same log index",
                                json!({"index": e.index, "first_committed": {"node": who, "term": t, "data": d}}),
                                json!({"node": i, "term": e.term, "data": e.data}),
                            );
                        }
                    }
                }
                // C29 bookkeeping: committed by a node that is leader before and after the event
                if p.state == StateDump::Leader && n.state == StateDump::Leader {
                    self.leader_committed.push((e.index, e.term, e.data, i, n.term));
                }
            }
            // ---- C29: a node that becomes leader holds every entry a leader committed before
            if n.state == StateDump::Leader && p.state != StateDump::Leader {
                self.leaders_elected += 1;
                for (index, term, data, who, wterm) in self.leader_committed.clone() {
                    let has = n.log.iter().any(|e| e.index == index && e.term == term && e.data == data);
                    if !has {
                        self.report(
                            "C29", line, format!("C29/new-leader-missing-committed-entry/{site}"),
                            "every node that later becomes leader has each leader-committed entry at the same index",
                            json!({"entry": [index, term, data], "committed_by": who, "in_term": wterm}),
                            json!({"new_leader": i, "term": n.term, "log": n.log.iter().map(|e| json!([e.index, e.term, e.data])).collect::<Vec<_>>()}),
                        );
                    }
                }
            }
        }
        // ---- C27: at most one leader per term (reported at the event that makes it false)
        for a in 0..now.len() {
            for b in a + 1..now.len() {
                let both = |s: &Vec<Snap>| {
                    s[a].state == StateDump::Leader && s[b].state == StateDump::Leader && s[a].term == s[b].term
                };
                if both(&now) && !both(&prev) {
                    self.report(
                        "C27", line, format!("C27/two-leaders-same-term/{site}"),
                        "no two cluster nodes are ever leaders for the same term",
                        json!("at most one leader per term"),
                        json!({"leaders": [a, b], "term": now[a].term}),
                    );
                }
            }
        }
        self.prev = now;
    }

    /// C30 goal at the end of a fault-free phase.
    pub(crate) fn check_liveness(&mut self, sim: &Sim, line: usize, appended: &[(u64, u64, u64)]) {
        let leaders: Vec<usize> = (0..sim.nodes.len()).filter(|i| sim.is_leader(*i)).collect();
        if leaders.len() != 1 {
            self.report(
                "C30", line, "C30/no-single-leader/Cluster::process".to_string(),
                "a healthy cluster elects exactly one leader",
                json!({"leaders": 1}),
                json!({"leaders": leaders, "states": (0..sim.nodes.len()).map(|i| sim.node_text(i)).collect::<Vec<_>>()}),
            );
            return;
        }
        for (index, term, data) in appended {
            for i in 0..sim.nodes.len() {
                let ok = sim.nodes[i]
                    .storage
                    .logs
                    .iter()
                    .any(|e| e.index == *index && e.term == *term && e.data == *data && e.committed);
                if !ok {
                    self.report(
                        "C30", line, "C30/entry-not-replicated/Cluster::commit".to_string(),
                        "every entry appended at the leader is eventually present and committed on every node",
                        json!({"entry": [index, term, data], "committed_on": "every node"}),
                        json!({"node": i, "state": sim.node_text(i)}),
                    );
                }
            }
        }
    }
}
