//! Executes one case (generation interleaved with execution, or replay of given lines)
//! against a real agdb database and evaluates the oracle selected by `--prop`.

use crate::dump::*;
use crate::exec::*;
use crate::generator::*;
use crate::ops::*;
use crate::refmodel::*;
use agdb::*;
use std::collections::BTreeMap;
use std::collections::BTreeSet;
use std::collections::VecDeque;
use std::sync::Arc;
use std::sync::Mutex;

#[derive(Clone, Debug)]
pub struct Violation {
    pub case: u64,
    pub line: usize,
    pub key: String,
    pub rule: String,
    pub expected: String,
    pub observed: String,
}

/// Shared with the watchdog: everything that must survive an abandoned worker thread.
#[derive(Default)]
pub struct Progress {
    pub lines: Vec<String>,
    pub outs: Vec<String>,
    pub violations: Vec<Violation>,
}

#[derive(Default, Debug, Clone)]
pub struct CaseStats {
    pub hist: BTreeMap<String, u64>,
    pub evaluations: u64,
    pub nontrivial: bool,
}

impl CaseStats {
    pub fn bump(&mut self, k: &str, n: u64) {
        if n > 0 {
            *self.hist.entry(k.to_string()).or_insert(0) += n;
        }
    }
}

/// why `CaseCtx::run` returned
#[derive(PartialEq, Eq, Clone, Copy, Debug)]
pub enum RunExit {
    Done,
    /// a `reopen` line was executed (`ok` already printed); call `run` again with the reopened db
    Reopen,
}

pub enum Source {
    Replay(VecDeque<String>),
    Gen(Box<Generator>),
}

pub struct CaseCtx {
    pub prop: Prop,
    pub case_no: u64,
    /// index in ops.txt of the first line of this case
    pub base_line: usize,
    pub progress: Arc<Mutex<Progress>>,
    pub source: Source,
    pub refm: Ref,
    pub vals: BTreeSet<Val>,
    /// largest |id| seen in any result
    hw: u64,
    /// potential creations of failed / rolled back ops (elements that could have leaked)
    leak: u64,
    /// the B of notes/db.md (minus one)
    bound_total: u64,
    snap_cache: Option<Snapshot>,
    removed_ever: BTreeSet<i64>,
    pub st: CaseStats,
    /// C08: run the element comparison every n-th mutating op
    pub check_every: u64,
    muts_since_check: u64,
    cur_line: usize,
    txn_potential: u64,
    txn_mutations: u64,
    in_txn: bool,
    /// reference state when the open transaction started
    ref_at_txn_start: Option<Ref>,
    /// return from `run` at a `reopen` line (the caller closes and reopens the database)
    pub exit_on_reopen: bool,
}

struct Pre {
    d0: Option<Snapshot>,
    expect_err: Option<(&'static str, String)>,
    partial_work: bool,
}

fn shorten(s: &str) -> String {
    if s.len() > 220 {
        format!("{}...", &s[..220])
    } else {
        s.to_string()
    }
}

/// first differing region of two rendered sections
fn diff_pair(a: &str, b: &str) -> (String, String) {
    let pa: Vec<&str> = a.split('|').collect();
    let pb: Vec<&str> = b.split('|').collect();
    if pa.len() > 3 || pb.len() > 3 {
        let sa: BTreeSet<&str> = pa.iter().copied().collect();
        let sb: BTreeSet<&str> = pb.iter().copied().collect();
        let only_a: Vec<&str> = pa.iter().copied().filter(|x| !sb.contains(x)).collect();
        let only_b: Vec<&str> = pb.iter().copied().filter(|x| !sa.contains(x)).collect();
        return (
            shorten(&format!("only-before: {}", only_a.join("|"))),
            shorten(&format!("only-after: {}", only_b.join("|"))),
        );
    }
    (shorten(a), shorten(b))
}

impl CaseCtx {
    pub fn new(
        prop: Prop,
        case_no: u64,
        base_line: usize,
        progress: Arc<Mutex<Progress>>,
        source: Source,
        check_every: u64,
    ) -> CaseCtx {
        CaseCtx {
            prop,
            case_no,
            base_line,
            progress,
            source,
            refm: Ref::default(),
            vals: BTreeSet::new(),
            hw: 0,
            leak: 0,
            bound_total: 0,
            snap_cache: None,
            removed_ever: BTreeSet::new(),
            st: CaseStats::default(),
            check_every,
            muts_since_check: 0,
            cur_line: 0,
            txn_potential: 0,
            txn_mutations: 0,
            in_txn: false,
            ref_at_txn_start: None,
            exit_on_reopen: false,
        }
    }

    // ----- plumbing ------------------------------------------------------------------------

    pub fn push_case_line(&mut self) {
        let line = format!("case {}", self.case_no);
        let mut p = self.progress.lock().unwrap();
        p.lines.push(line.clone());
        p.outs.push(line);
    }

    /// observable state right before a `reopen` closes the database
    pub fn reopen_before<S: StorageData>(&mut self, db: &DbImpl<S>) -> Snapshot {
        self.st.evaluations += 1;
        self.fresh_snapshot(db)
    }

    /// the database was closed and reopened (or was not persistent): print `ok`, compare the state
    pub fn reopen_done<S: StorageData>(&mut self, before: Option<&Snapshot>, db: &DbImpl<S>) {
        self.emit("ok".to_string());
        self.snap_cache = None;
        if let Some(b) = before {
            let a = self.fresh_snapshot(db);
            let e = (b.render_elems(), a.render_elems());
            let i = (b.render_indexes(), a.render_indexes());
            let al = (b.render_aliases(), a.render_aliases());
            let diff = if e.0 != e.1 {
                Some(("elements", diff_pair(&e.0, &e.1)))
            } else if i.0 != i.1 {
                Some(("indexes", diff_pair(&i.0, &i.1)))
            } else if al.0 != al.1 {
                Some(("aliases", (shorten(&al.0), shorten(&al.1))))
            } else if b.render() != a.render() {
                Some(("node-count", (shorten(&b.render()), shorten(&a.render()))))
            } else {
                None
            };
            if let Some((what, (exp, obs))) = diff {
                let key = format!("{}/state-differs-after-reopen/{what}", self.prop.name());
                self.violate(&key, "closing and reopening the database file preserves the database", exp, obs);
            }
        }
    }

    /// reopening failed (error or panic): print it, report it; the case cannot continue
    pub fn reopen_failed(&mut self, out: String, site: &str, detail: String) {
        self.emit(out);
        self.st.bump("reopen_failures", 1);
        let key = format!("{}/reopen-fails/{site}", self.prop.name());
        self.violate(&key, "closing and reopening the database file preserves the database", "database reopens".to_string(), detail);
    }

    fn next_op(&mut self, mode: Mode) -> Option<Op> {
        let op = match &mut self.source {
            Source::Replay(q) => parse_line(&q.pop_front()?),
            Source::Gen(g) => g.next(&self.refm, mode)?,
        };
        {
            let mut p = self.progress.lock().unwrap();
            p.lines.push(op.to_line());
            self.cur_line = p.lines.len() - 1;
        }
        if mode != Mode::Aborted {
            op.collect_vals(&mut self.vals);
            let pot = op.potential_creations();
            self.bound_total += pot;
            if mode == Mode::InTxn {
                self.txn_potential += pot;
            }
        }
        self.st.bump(&format!("op:{}", op.kind()), 1);
        Some(op)
    }

    fn emit(&mut self, out: String) {
        let class = if out.starts_with("err:") {
            format!("out:{out}")
        } else if out.starts_with("ok") {
            "out:ok".to_string()
        } else if out.starts_with("dump") {
            "out:dump".to_string()
        } else if out.starts_with("case") {
            "out:case".to_string()
        } else {
            format!("out:{out}")
        };
        self.st.bump(&class, 1);
        self.progress.lock().unwrap().outs.push(out);
    }

    fn violate(&mut self, key: &str, rule: &str, expected: String, observed: String) {
        let v = Violation {
            case: self.case_no,
            line: self.base_line + self.cur_line,
            key: key.to_string(),
            rule: rule.to_string(),
            expected: shorten(&expected),
            observed: shorten(&observed),
        };
        self.progress.lock().unwrap().violations.push(v);
    }

    fn bound(&self) -> u64 {
        (self.hw + self.leak).min(self.bound_total) + 1
    }

    fn fresh_snapshot<R: Runner>(&mut self, r: &R) -> Snapshot {
        self.st.bump("internal_snapshots", 1);
        take_snapshot(r, self.bound(), &self.vals)
    }

    fn snapshot<R: Runner>(&mut self, r: &R) -> Snapshot {
        if let Some(s) = &self.snap_cache {
            return s.clone();
        }
        let s = self.fresh_snapshot(r);
        if !self.in_txn {
            self.snap_cache = Some(s.clone());
        }
        s
    }

    fn note_ids(&mut self, res: &QueryResult) {
        for e in &res.elements {
            self.hw = self.hw.max(e.id.0.unsigned_abs());
        }
    }

    // ----- main loop -----------------------------------------------------------------------

    pub fn run<S: StorageData>(&mut self, db: &mut DbImpl<S>) -> RunExit {
        while let Some(op) = self.next_op(Mode::Top) {
            match op {
                Op::Reopen => {
                    self.snap_cache = None;
                    self.st.bump("reopen_lines", 1);
                    if self.exit_on_reopen {
                        // the caller closes / reopens the database and reports through `reopen_done`
                        return RunExit::Reopen;
                    }
                    self.emit("ok".to_string());
                }
                Op::Bad(_) | Op::TxnFail | Op::TxnCommit | Op::Case(_) => {
                    self.emit("bad-op".to_string())
                }
                Op::Dump => {
                    self.st.evaluations += 1;
                    let s = self.snapshot(db);
                    self.emit(s.render());
                }
                Op::TxnBegin => self.run_txn(db),
                q => self.run_query_top(db, &q),
            }
        }
        self.final_checks(db);
        RunExit::Done
    }

    fn run_query_top<S: StorageData>(&mut self, db: &mut DbImpl<S>, op: &Op) {
        self.st.evaluations += 1;
        let pre = self.pre(db, op);
        match exec_op(db, op) {
            Ok(res) => {
                self.emit(fmt_ok(op, &res));
                self.post_ok(db, op, &res, &pre);
            }
            Err(e) => {
                self.emit(fmt_err(&e));
                if op.is_mutating() {
                    self.st.bump("failed_single_queries", 1);
                    if pre.partial_work {
                        self.st.bump("failed_single_queries_after_partial_work", 1);
                        if self.prop == Prop::C13 {
                            self.st.nontrivial = true;
                        }
                    }
                    self.leak += op.potential_creations();
                    self.after_failure(db, pre.d0.as_ref(), &pre.expect_err);
                } else {
                    self.select_err(op);
                }
            }
        }
    }

    fn run_txn<S: StorageData>(&mut self, db: &mut DbImpl<S>) {
        self.emit("ok".to_string());
        let d0 = if self.prop == Prop::C13 {
            Some(self.snapshot(db))
        } else {
            None
        };
        self.txn_potential = 0;
        self.txn_mutations = 0;
        self.in_txn = true;
        self.snap_cache = None;
        self.ref_at_txn_start = Some(self.refm.clone());
        let mut pending: Option<String> = None;
        let mut terminator: Option<bool> = None;
        let res = db.transaction_mut(|t| -> Result<(), DbError> {
            loop {
                let Some(op) = self.next_op(Mode::InTxn) else {
                    return Err(forced_failure());
                };
                match op {
                    Op::TxnFail => {
                        terminator = Some(false);
                        return Err(forced_failure());
                    }
                    Op::TxnCommit => {
                        terminator = Some(true);
                        return Ok(());
                    }
                    Op::TxnBegin | Op::Bad(_) | Op::Case(_) | Op::Reopen => {
                        self.emit("bad-op".to_string())
                    }
                    Op::Dump => {
                        self.st.evaluations += 1;
                        let s = self.fresh_snapshot(t);
                        self.emit(s.render());
                    }
                    q => {
                        self.st.evaluations += 1;
                        let pre = self.pre(t, &q);
                        match exec_op(t, &q) {
                            Ok(r) => {
                                self.emit(fmt_ok(&q, &r));
                                self.post_ok(t, &q, &r, &pre);
                            }
                            Err(e) => {
                                // printed after the rollback has run (so that a hang / panic in
                                // the rollback is attributed to this line)
                                pending = Some(fmt_err(&e));
                                if let Some((key, why)) = &pre.expect_err {
                                    let _ = (key, why); // expected error: fine
                                } else if !q.is_mutating() {
                                    self.select_err(&q);
                                }
                                return Err(e);
                            }
                        }
                    }
                }
            }
        });
        self.in_txn = false;
        self.snap_cache = None;
        self.st.evaluations += 1;
        match (res, pending, terminator) {
            (Ok(()), _, _) => {
                self.emit("committed".to_string());
                self.st.bump("txn_commit", 1);
                self.ref_at_txn_start = None;
                let aliases = select_all_aliases(db);
                self.refm.set_aliases(&aliases);
                return;
            }
            (Err(_), Some(p), _) => {
                self.emit(p);
                self.st.bump("txn_aborted", 1);
                // skipped region up to and including the terminator
                while let Some(op) = self.next_op(Mode::Aborted) {
                    if matches!(op, Op::TxnFail | Op::TxnCommit) {
                        self.emit("aborted".to_string());
                        break;
                    }
                    self.emit("skipped".to_string());
                }
            }
            (Err(_), None, Some(false)) => {
                self.emit("rolled-back".to_string());
                self.st.bump("txn_fail", 1);
            }
            (Err(e), None, Some(true)) => {
                // the commit itself failed
                self.emit(fmt_err(&e));
            }
            (Err(_), None, None) => {
                // end of input inside the transaction: aborted like txn_fail, no output line
                self.st.bump("txn_unterminated", 1);
            }
        }
        if self.txn_mutations > 0 {
            self.st.bump("failed_txn_after_mutation", 1);
            if self.prop == Prop::C13 {
                self.st.nontrivial = true;
            }
        }
        self.leak += self.txn_potential;
        self.after_failure(db, d0.as_ref(), &None);
    }

    // ----- before / after a query ----------------------------------------------------------

    fn pre<R: Runner>(&mut self, r: &R, op: &Op) -> Pre {
        let mut pre = Pre {
            d0: None,
            expect_err: None,
            partial_work: false,
        };
        if !op.is_mutating() {
            return pre;
        }
        pre.partial_work = self.partial_work_likely(op);
        match (self.prop, op) {
            (
                Prop::C08,
                Op::InsertEdges {
                    from,
                    to,
                    ids,
                    each,
                    ..
                },
            ) if ids.is_empty() => {
                let f: Vec<Option<i64>> = from.iter().map(|i| self.refm.resolve(i)).collect();
                let t: Vec<Option<i64>> = to.iter().map(|i| self.refm.resolve(i)).collect();
                if let Some(p) = f.iter().chain(t.iter()).position(|x| x.is_none()) {
                    let id = from.iter().chain(to.iter()).nth(p).unwrap();
                    pre.expect_err = Some((
                        "C08/insert-edge-missing-node",
                        format!("endpoint {} does not exist", id.tok()),
                    ));
                } else {
                    let f: Vec<i64> = f.into_iter().flatten().collect();
                    let t: Vec<i64> = t.into_iter().flatten().collect();
                    let uses_edge = if *each || f.len() != t.len() {
                        !f.is_empty() && !t.is_empty() && f.iter().chain(t.iter()).any(|x| *x < 0)
                    } else {
                        f.iter().chain(t.iter()).any(|x| *x < 0)
                    };
                    if uses_edge {
                        pre.expect_err = Some((
                            "C08/insert-edge-missing-node",
                            "an endpoint is an edge, not a node".to_string(),
                        ));
                    }
                }
            }
            (Prop::C11, Op::InsertIndex(k)) if self.refm.indexes.contains(&k.tok()) => {
                pre.expect_err = Some((
                    "C11/duplicate-index",
                    format!("index {} already exists", k.tok()),
                ));
            }
            _ => {}
        }
        if !self.in_txn && (self.prop == Prop::C13 || pre.expect_err.is_some()) {
            pre.d0 = Some(self.snapshot(r));
        }
        pre
    }

    /// the query would fail only after having applied something (used for the C13 statistics)
    fn partial_work_likely(&self, op: &Op) -> bool {
        let first_ok = |ids: &Vec<Id>| ids.len() >= 2 && self.refm.resolve(&ids[0]).is_some();
        match op {
            Op::InsertValues { ids, .. } => {
                ids.len() >= 2
                    && (self.refm.resolve(&ids[0]).is_some()
                        || matches!(ids[0], Id::Num(0) | Id::Alias(_)))
            }
            Op::InsertAliases { ids, aliases } => {
                ids.len() == aliases.len() && first_ok(ids) && !aliases[0].is_empty()
            }
            Op::RemoveValues { ids, keys } => {
                first_ok(ids)
                    && self
                        .refm
                        .resolve(&ids[0])
                        .map(|t| {
                            self.refm
                                .kvs(t)
                                .iter()
                                .any(|(k, _)| keys.iter().any(|q| q.tok() == *k))
                        })
                        .unwrap_or(false)
            }
            Op::InsertEdges { from, to, ids, .. } => {
                ids.is_empty()
                    && from.len() >= 2
                    && to.len() >= 2
                    && from.iter().chain(to.iter()).all(|i| self.refm.resolve(i).is_some())
                    && matches!(
                        (self.refm.resolve(&from[0]), self.refm.resolve(&to[0])),
                        (Some(a), Some(b)) if a > 0 && b > 0
                    )
            }
            _ => false,
        }
    }

    fn post_ok<R: Runner>(&mut self, r: &mut R, op: &Op, res: &QueryResult, pre: &Pre) {
        if !op.is_mutating() {
            self.select_ok(op, res);
            return;
        }
        self.note_ids(res);
        self.snap_cache = None;
        let mut out = ApplyOut::default();
        self.refm.apply(op, res, &mut out);
        if self.in_txn && (res.result > 0 || !res.elements.is_empty()) {
            self.txn_mutations += 1;
        }
        let mut reused = vec![];
        for id in &out.new_elems {
            if self.removed_ever.contains(&id.abs()) {
                reused.push(*id);
            }
        }
        for id in &out.removed {
            self.removed_ever.insert(id.abs());
        }
        self.st.bump("id_reuse", reused.len() as u64);
        self.st.bump("replacements", out.replacements);
        self.st.bump("indexed_replacements", out.indexed_replacements);
        self.st.bump("indexed_value_removals", out.indexed_removals);
        self.st.bump("values_removed", out.values_removed);
        self.st.bump("alias_steals", out.alias_steals);
        self.st.bump("alias_reassignments", out.alias_reassign);
        self.st.bump("self_loops", out.self_loops);
        self.st.bump("parallel_edges", out.parallel_edges);
        self.st.bump("nodes_removed_with_edges", out.nodes_removed_with_edges);
        self.st.bump("cascaded_edges", out.cascaded.len() as u64);
        self.st.bump("new_elements", out.new_elems.len() as u64);
        self.st.bump("removed_elements", out.removed.len() as u64);
        match self.prop {
            Prop::C08 => {
                if out.nodes_removed_with_edges > 0 {
                    self.st.nontrivial = true;
                }
            }
            Prop::C09 => {
                if out.replacements > 0 {
                    self.st.nontrivial = true;
                }
            }
            Prop::C11 => {
                if out.indexed_replacements + out.indexed_removals > 0 {
                    self.st.nontrivial = true;
                }
            }
            Prop::C13 | Prop::C06 => {}
        }
        let aliases = select_all_aliases(r);
        self.refm.set_aliases(&aliases);

        match self.prop {
            Prop::C08 => {
                const RULE: &str = "graph mutations behave like an abstract directed multigraph";
                for (key, exp, obs) in std::mem::take(&mut out.problems) {
                    self.violate(key, RULE, exp, obs);
                }
                if let Some((key, why)) = &pre.expect_err {
                    self.violate(
                        key,
                        "inserting an edge from or to a missing node fails without effect",
                        format!("err ({why})"),
                        fmt_ok(op, res),
                    );
                }
                for e in &out.cascaded {
                    if probe_exists(r, *e) {
                        self.violate(
                            "C08/cascade",
                            "removing a node removes all its incoming and outgoing edges",
                            format!("edge {e} removed with its endpoint"),
                            format!("select_values ids={e} succeeds"),
                        );
                    }
                }
                for id in &reused {
                    let got = probe_values(r, *id);
                    let mut want: Vec<String> = self
                        .refm
                        .kvs(*id)
                        .iter()
                        .map(|(k, v)| format!("{k}={v}"))
                        .collect();
                    want.sort();
                    if got.as_ref() != Some(&want) {
                        self.violate(
                            "C08/cascade",
                            "properties of a removed element are gone when its id is re-used",
                            format!("{}:{{{}}}", id, want.join(",")),
                            format!("{got:?}"),
                        );
                    }
                }
                self.muts_since_check += 1;
                if self.muts_since_check >= self.check_every && !self.in_txn {
                    self.muts_since_check = 0;
                    self.c08_elements(r);
                }
            }
            Prop::C11 => {
                if let Some((key, why)) = &pre.expect_err {
                    self.violate(
                        key,
                        "creating an index that already exists is an error without effect",
                        format!("err ({why})"),
                        fmt_ok(op, res),
                    );
                }
                if let Op::InsertIndex(k) = op {
                    // covers data inserted before it
                    self.c11_check_index(r, &k.tok());
                }
            }
            _ => {}
        }
    }

    /// after a failed single mutating query or a failed transaction (outside the txn)
    fn after_failure<S: StorageData>(
        &mut self,
        db: &mut DbImpl<S>,
        d0: Option<&Snapshot>,
        expect_err: &Option<(&'static str, String)>,
    ) {
        self.snap_cache = None;
        let d1 = self.snapshot(db);
        if let Some(d0) = d0 {
            let e = (d0.render_elems(), d1.render_elems());
            let i = (d0.render_indexes(), d1.render_indexes());
            let a = (d0.render_aliases(), d1.render_aliases());
            let differs = e.0 != e.1 || i.0 != i.1 || a.0 != a.1;
            let (exp, obs) = if e.0 != e.1 {
                diff_pair(&e.0, &e.1)
            } else if i.0 != i.1 {
                diff_pair(&i.0, &i.1)
            } else {
                (shorten(&a.0), shorten(&a.1))
            };
            if differs {
                match (self.prop, expect_err) {
                    (Prop::C13, _) => {
                        let key = if e.0 != e.1 || i.0 != i.1 {
                            "C13/rollback-stops-early/DbImpl::rollback"
                        } else {
                            "C13/alias-not-restored/DbImpl::insert_alias"
                        };
                        self.violate(
                            key,
                            "failed transaction/query must leave no observable effect",
                            exp,
                            obs,
                        );
                    }
                    (Prop::C08, Some((key, _))) => self.violate(
                        key,
                        "inserting an edge from or to a missing node fails without effect",
                        exp,
                        obs,
                    ),
                    (Prop::C11, Some((key, _))) => self.violate(
                        key,
                        "creating an index that already exists is an error without effect",
                        exp,
                        obs,
                    ),
                    _ => {}
                }
            }
        }
        if self.prop == Prop::C11 {
            self.c11_self_consistent(&d1);
        }
        // the order of properties (and anything a defective rollback left behind) is taken
        // from the implementation: the other oracles continue from the observable state
        // reference state before the failed query / transaction started
        let before = self
            .ref_at_txn_start
            .take()
            .unwrap_or_else(|| self.refm.clone());
        self.refm = Ref::from_snapshot(&d1);
        self.st.bump("ref_resyncs", 1);
        if before.nodes != self.refm.nodes
            || before.edges != self.refm.edges
            || before.indexes != self.refm.indexes
            || sorted_values(&before) != sorted_values(&self.refm)
        {
            self.st.bump("ref_resyncs_changed_state", 1);
        }
    }

    // ----- select oracles ------------------------------------------------------------------

    fn resolve_all(&self, ids: &[Id]) -> Option<Vec<i64>> {
        ids.iter().map(|i| self.refm.resolve(i)).collect()
    }

    fn select_ok(&mut self, op: &Op, res: &QueryResult) {
        match (self.prop, op) {
            (Prop::C08, Op::SelectNodeCount) => {
                let want = self.refm.nodes.len() as u64;
                if res.result != want {
                    self.violate(
                        "C08/node-count",
                        "node count matches the abstract graph",
                        want.to_string(),
                        res.result.to_string(),
                    );
                }
            }
            (Prop::C08, Op::SelectEdgeCount { ids, from, to }) => {
                if let Some(targets) = self.resolve_all(ids) {
                    let want: Vec<u64> = targets
                        .iter()
                        .map(|t| {
                            if *t < 0 {
                                0
                            } else {
                                (if *from { self.refm.out_degree(*t) } else { 0 })
                                    + (if *to { self.refm.in_degree(*t) } else { 0 })
                            }
                        })
                        .collect();
                    let got: Vec<Option<u64>> = res
                        .elements
                        .iter()
                        .map(|e| match e.values.first().map(|kv| &kv.value) {
                            Some(DbValue::U64(n)) => Some(*n),
                            _ => None,
                        })
                        .collect();
                    let ok = got.len() == want.len()
                        && got.iter().zip(&want).all(|(g, w)| *g == Some(*w))
                        && res.result == want.iter().sum::<u64>();
                    if !ok {
                        self.violate(
                            "C08/edge-count",
                            "per-node incoming/outgoing edge counts match (self-loops on both sides)",
                            format!("{want:?}"),
                            fmt_ok(op, res),
                        );
                    }
                }
            }
            (Prop::C08, Op::SelectValues { ids, .. }) => {
                if let Some(targets) = self.resolve_all(ids) {
                    for (t, e) in targets.iter().zip(&res.elements) {
                        if *t < 0 {
                            let want = self.refm.edges.get(&-t).copied().unwrap_or((0, 0));
                            if (e.from.0, e.to.0) != want || e.id.0 != *t {
                                self.violate(
                                    "C08/elements",
                                    "edge endpoints match the abstract graph",
                                    format!("{}:{}:{}", t, want.0, want.1),
                                    format!("{}:{}:{}", e.id.0, e.from.0, e.to.0),
                                );
                            }
                        }
                    }
                }
            }
            (Prop::C09, Op::SelectValues { ids, keys }) => {
                let Some(targets) = self.resolve_all(ids) else {
                    return;
                };
                let key_toks: Vec<String> = keys.iter().map(|k| k.tok()).collect();
                let distinct: BTreeSet<&String> = key_toks.iter().collect();
                if distinct.len() != key_toks.len() {
                    return;
                }
                let mut want: Vec<Vec<(String, String)>> = vec![];
                for t in &targets {
                    if keys.is_empty() {
                        want.push(self.refm.kvs(*t).to_vec());
                    } else {
                        let mut l = vec![];
                        for k in &key_toks {
                            match self.refm.value_of(*t, k) {
                                Some(v) => l.push((k.clone(), v.to_string())),
                                None => {
                                    self.violate(
                                        "C09/missing-key",
                                        "selecting a missing key of an explicitly named element is an error",
                                        format!("err (element {t} has no key {k})"),
                                        fmt_ok(op, res),
                                    );
                                    return;
                                }
                            }
                        }
                        want.push(l);
                    }
                }
                let got: Vec<Vec<(String, String)>> = res
                    .elements
                    .iter()
                    .map(|e| {
                        e.values
                            .iter()
                            .map(|kv| (db_tok(&kv.key), db_tok(&kv.value)))
                            .collect()
                    })
                    .collect();
                let ids_ok = res.elements.len() == targets.len()
                    && res.elements.iter().zip(&targets).all(|(e, t)| e.id.0 == *t);
                if got != want || !ids_ok {
                    self.violate(
                        "C09/values",
                        "selected values are exactly the current pairs in map / requested order",
                        fmt_want(&targets, &want),
                        fmt_ok(op, res),
                    );
                }
            }
            (Prop::C09, Op::SelectKeys { ids }) => {
                let Some(targets) = self.resolve_all(ids) else {
                    return;
                };
                let want: Vec<Vec<String>> = targets
                    .iter()
                    .map(|t| self.refm.kvs(*t).iter().map(|(k, _)| k.clone()).collect())
                    .collect();
                let got: Vec<Vec<String>> = res
                    .elements
                    .iter()
                    .map(|e| e.values.iter().map(|kv| db_tok(&kv.key)).collect())
                    .collect();
                if got != want {
                    self.violate(
                        "C09/keys",
                        "selected keys are exactly the current keys in map order",
                        format!("{want:?}"),
                        fmt_ok(op, res),
                    );
                }
            }
            (Prop::C09, Op::SelectKeyCount { ids }) => {
                let Some(targets) = self.resolve_all(ids) else {
                    return;
                };
                let want: Vec<u64> = targets
                    .iter()
                    .map(|t| self.refm.kvs(*t).len() as u64)
                    .collect();
                let got: Vec<Option<u64>> = res
                    .elements
                    .iter()
                    .map(|e| match e.values.first().map(|kv| &kv.value) {
                        Some(DbValue::U64(n)) => Some(*n),
                        _ => None,
                    })
                    .collect();
                let ok = got.len() == want.len()
                    && got.iter().zip(&want).all(|(g, w)| *g == Some(*w))
                    && res.result == want.iter().sum::<u64>();
                if !ok {
                    self.violate(
                        "C09/key-count",
                        "key counts equal the number of current pairs",
                        format!("{want:?}"),
                        fmt_ok(op, res),
                    );
                }
            }
            (Prop::C11, Op::SearchIndex(k, v)) => {
                let kt = k.tok();
                if !self.refm.indexes.contains(&kt) {
                    self.violate(
                        "C11/search",
                        "index search on a key that is not indexed is an error",
                        "err (no such index)".to_string(),
                        fmt_ok(op, res),
                    );
                    return;
                }
                let want = self.refm.ids_with(&kt, &v.tok());
                let got: BTreeSet<i64> = res.elements.iter().map(|e| e.id.0).collect();
                if got != want {
                    self.violate(
                        "C11/search",
                        "index search returns exactly the elements whose current value of K equals V",
                        format!("{want:?}"),
                        fmt_ok(op, res),
                    );
                }
            }
            (Prop::C11, Op::SelectIndexes) => {
                let mut got: BTreeMap<String, String> = BTreeMap::new();
                for e in &res.elements {
                    for kv in &e.values {
                        let c = match &kv.value {
                            DbValue::U64(c) => c.to_string(),
                            other => db_tok(other),
                        };
                        got.insert(db_tok(&kv.key), c);
                    }
                }
                let want: BTreeMap<String, String> = self
                    .refm
                    .indexes
                    .iter()
                    .map(|k| (k.clone(), self.refm.count_with_key(k).to_string()))
                    .collect();
                if got != want {
                    self.violate(
                        "C11/listing",
                        "index listing reports per indexed key the number of elements having that key",
                        format!("{want:?}"),
                        format!("{got:?}"),
                    );
                }
            }
            _ => {}
        }
    }

    fn select_err(&mut self, op: &Op) {
        match (self.prop, op) {
            (Prop::C08, Op::SelectNodeCount) => self.violate(
                "C08/node-count",
                "node count matches the abstract graph",
                self.refm.nodes.len().to_string(),
                "err".to_string(),
            ),
            (Prop::C08, Op::SelectEdgeCount { ids, .. }) => {
                if self.resolve_all(ids).is_some() {
                    self.violate(
                        "C08/edge-count",
                        "per-node incoming/outgoing edge counts match (self-loops on both sides)",
                        "ok (all ids exist)".to_string(),
                        "err".to_string(),
                    );
                }
            }
            (Prop::C09, Op::SelectValues { ids, keys }) => {
                if let Some(targets) = self.resolve_all(ids) {
                    let all_present = targets.iter().all(|t| {
                        keys.iter()
                            .all(|k| self.refm.value_of(*t, &k.tok()).is_some())
                    });
                    if all_present {
                        self.violate(
                            "C09/values",
                            "selected values are exactly the current pairs in map / requested order",
                            "ok (all ids and keys exist)".to_string(),
                            "err".to_string(),
                        );
                    }
                }
            }
            (Prop::C09, Op::SelectKeys { ids }) | (Prop::C09, Op::SelectKeyCount { ids }) => {
                if self.resolve_all(ids).is_some() {
                    let key = if matches!(op, Op::SelectKeys { .. }) {
                        "C09/keys"
                    } else {
                        "C09/key-count"
                    };
                    self.violate(
                        key,
                        "keys / key counts of existing elements can be selected",
                        "ok (all ids exist)".to_string(),
                        "err".to_string(),
                    );
                }
            }
            (Prop::C11, Op::SearchIndex(k, _)) => {
                if self.refm.indexes.contains(&k.tok()) {
                    self.violate(
                        "C11/search",
                        "index search returns exactly the elements whose current value of K equals V",
                        "ok (index exists)".to_string(),
                        "err".to_string(),
                    );
                }
            }
            (Prop::C11, Op::SelectIndexes) => self.violate(
                "C11/listing",
                "index listing reports per indexed key the number of elements having that key",
                "ok".to_string(),
                "err".to_string(),
            ),
            _ => {}
        }
    }

    // ----- sweeps --------------------------------------------------------------------------

    fn c08_elements<R: Runner>(&mut self, r: &R) {
        let s = self.snapshot(r);
        let got: Vec<(i64, i64, i64)> = s.elems.iter().map(|e| (e.id, e.from, e.to)).collect();
        let mut want: Vec<(i64, i64, i64)> = self.refm.nodes.iter().map(|n| (*n, 0, 0)).collect();
        want.extend(self.refm.edges.iter().map(|(e, (f, t))| (-*e, *f, *t)));
        want.sort_by_key(|x| x.0.abs());
        if got != want {
            let only_want: Vec<&(i64, i64, i64)> =
                want.iter().filter(|x| !got.contains(x)).collect();
            let only_got: Vec<&(i64, i64, i64)> =
                got.iter().filter(|x| !want.contains(x)).collect();
            self.violate(
                "C08/elements",
                "elements and edge endpoints match the abstract graph",
                format!("missing {only_want:?}"),
                format!("unexpected {only_got:?}"),
            );
        }
        if s.node_count != self.refm.nodes.len() as u64 {
            self.violate(
                "C08/node-count",
                "node count matches the abstract graph",
                self.refm.nodes.len().to_string(),
                s.node_count.to_string(),
            );
        }
    }

    fn c11_check_index<R: Runner>(&mut self, r: &R, key: &str) {
        let Some(k) = Val::parse(key) else { return };
        let vals: Vec<Val> = self.vals.iter().cloned().collect();
        for v in vals {
            let want = self.refm.ids_with(key, &v.tok());
            match r.q(search_index_query(&k, &v)) {
                Ok(res) => {
                    let got: BTreeSet<i64> = res.elements.iter().map(|e| e.id.0).collect();
                    if got != want {
                        self.violate(
                            "C11/search",
                            "index search returns exactly the elements whose current value of K equals V",
                            format!("{} {}: {:?}", key, v.tok(), want),
                            format!("{got:?}"),
                        );
                        return;
                    }
                }
                Err(e) => {
                    self.violate(
                        "C11/search",
                        "index search returns exactly the elements whose current value of K equals V",
                        format!("{} {}: {:?}", key, v.tok(), want),
                        fmt_err(&e),
                    );
                    return;
                }
            }
        }
    }

    /// index contents of a snapshot against the element values of the same snapshot
    fn c11_self_consistent(&mut self, s: &Snapshot) {
        for ix in &s.indexes {
            let mut want: BTreeMap<String, Vec<i64>> = BTreeMap::new();
            let mut count = 0u64;
            for e in &s.elems {
                for (k, v) in &e.kvs {
                    if *k == ix.key {
                        want.entry(v.clone()).or_default().push(e.id);
                        count += 1;
                    }
                }
            }
            for ids in want.values_mut() {
                ids.sort();
            }
            if want != ix.contents || count.to_string() != ix.count {
                self.violate(
                    "C11/after-rollback",
                    "after a rolled-back transaction / failed query the indexes reflect the current values",
                    format!("{}#{}:{:?}", ix.key, count, want),
                    format!("{}#{}:{:?}", ix.key, ix.count, ix.contents),
                );
            }
        }
    }

    fn final_checks<S: StorageData>(&mut self, db: &mut DbImpl<S>) {
        match self.prop {
            Prop::C08 => {
                self.snap_cache = None;
                self.c08_elements(db);
            }
            Prop::C09 => {
                let ids: Vec<i64> = self
                    .refm
                    .nodes
                    .iter()
                    .copied()
                    .chain(self.refm.edges.keys().map(|e| -*e))
                    .collect();
                for id in ids {
                    let want = self.refm.kvs(id).to_vec();
                    let got: Option<Vec<(String, String)>> = db
                        .exec(SelectValuesQuery {
                            keys: vec![],
                            ids: QueryIds::Ids(vec![QueryId::Id(DbId(id))]),
                        })
                        .ok()
                        .and_then(|mut r| r.elements.pop())
                        .map(|e| {
                            e.values
                                .iter()
                                .map(|kv| (db_tok(&kv.key), db_tok(&kv.value)))
                                .collect()
                        });
                    if got.as_ref() != Some(&want) {
                        self.violate(
                            "C09/values",
                            "selected values are exactly the current pairs in map / requested order",
                            fmt_want(&[id], &[want]),
                            format!("{got:?}"),
                        );
                        break;
                    }
                }
            }
            Prop::C11 => {
                let keys: Vec<String> = self.refm.indexes.iter().cloned().collect();
                for k in keys {
                    self.c11_check_index(db, &k);
                }
                if let Ok(res) = db.exec(SelectIndexesQuery {}) {
                    self.select_ok(&Op::SelectIndexes, &res);
                }
            }
            Prop::C13 | Prop::C06 => {}
        }
    }
}

fn sorted_values(r: &Ref) -> BTreeMap<i64, Vec<(String, String)>> {
    r.values
        .iter()
        .filter(|(_, l)| !l.is_empty())
        .map(|(k, l)| {
            let mut l = l.clone();
            l.sort();
            (*k, l)
        })
        .collect()
}

fn fmt_want(targets: &[i64], want: &[Vec<(String, String)>]) -> String {
    targets
        .iter()
        .zip(want)
        .map(|(t, l)| {
            format!(
                "{}:{}",
                t,
                if l.is_empty() {
                    "-".to_string()
                } else {
                    l.iter()
                        .map(|(k, v)| format!("{k}={v}"))
                        .collect::<Vec<_>>()
                        .join(",")
                }
            )
        })
        .collect::<Vec<_>>()
        .join("|")
}

fn probe_exists<R: Runner>(r: &R, id: i64) -> bool {
    r.q(SelectValuesQuery {
        keys: vec![],
        ids: QueryIds::Ids(vec![QueryId::Id(DbId(id))]),
    })
    .is_ok()
}

/// sorted `k=v` tokens of an element, None when it does not exist
fn probe_values<R: Runner>(r: &R, id: i64) -> Option<Vec<String>> {
    let res = r
        .q(SelectValuesQuery {
            keys: vec![],
            ids: QueryIds::Ids(vec![QueryId::Id(DbId(id))]),
        })
        .ok()?;
    let e = res.elements.first()?;
    let mut v: Vec<String> = e
        .values
        .iter()
        .map(|kv| format!("{}={}", db_tok(&kv.key), db_tok(&kv.value)))
        .collect();
    v.sort();
    Some(v)
}
