//! Observable state of the database, computed ONLY through public queries.
//! Used for the `dump` op, for the C13 before/after comparison and to re-synchronise
//! the reference after a failed query / transaction.

use crate::exec::*;
use crate::ops::*;
use agdb::*;
use std::collections::BTreeMap;
use std::collections::BTreeSet;

#[derive(Clone, Debug, PartialEq, Eq)]
pub struct Elem {
    pub id: i64,
    /// edges only (0 for nodes)
    pub from: i64,
    pub to: i64,
    /// (key token, value token) in the order returned by the implementation
    pub kvs: Vec<(String, String)>,
}

#[derive(Clone, Debug, PartialEq, Eq)]
pub struct IndexSnap {
    pub key: String,
    /// count reported by select_indexes (decimal, or the token when it is not a u64)
    pub count: String,
    /// value token -> ids ascending
    pub contents: BTreeMap<String, Vec<i64>>,
}

#[derive(Clone, Debug, PartialEq, Eq, Default)]
pub struct Snapshot {
    pub node_count: u64,
    /// ordered by |id|
    pub elems: Vec<Elem>,
    /// sorted by name
    pub aliases: Vec<(String, i64)>,
    /// sorted by key token
    pub indexes: Vec<IndexSnap>,
}

fn probe<R: Runner>(r: &R, id: i64) -> Option<DbElement> {
    match r.q(SelectValuesQuery {
        keys: vec![],
        ids: QueryIds::Ids(vec![QueryId::Id(DbId(id))]),
    }) {
        Ok(mut res) if res.elements.len() == 1 => res.elements.pop(),
        _ => None,
    }
}

pub fn select_all_aliases<R: Runner>(r: &R) -> Vec<(String, i64)> {
    let mut out = vec![];
    if let Ok(res) = r.q(SelectAllAliasesQuery {}) {
        for e in res.elements {
            for kv in &e.values {
                if let DbValue::String(name) = &kv.value {
                    out.push((name.clone(), e.id.0));
                }
            }
        }
    }
    out.sort();
    out
}

/// `bound`: largest |id| to probe.
pub fn take_snapshot<R: Runner>(r: &R, bound: u64, vals: &BTreeSet<Val>) -> Snapshot {
    let mut s = Snapshot::default();
    if let Ok(res) = r.q(SelectNodeCountQuery {}) {
        s.node_count = res.result;
    }
    for i in 1..=bound as i64 {
        if let Some(e) = probe(r, i) {
            s.elems.push(Elem {
                id: e.id.0,
                from: 0,
                to: 0,
                kvs: e
                    .values
                    .iter()
                    .map(|kv| (db_tok(&kv.key), db_tok(&kv.value)))
                    .collect(),
            });
        }
        if let Some(e) = probe(r, -i) {
            s.elems.push(Elem {
                id: e.id.0,
                from: e.from.0,
                to: e.to.0,
                kvs: e
                    .values
                    .iter()
                    .map(|kv| (db_tok(&kv.key), db_tok(&kv.value)))
                    .collect(),
            });
        }
    }
    s.aliases = select_all_aliases(r);
    if let Ok(res) = r.q(SelectIndexesQuery {}) {
        for e in &res.elements {
            for kv in &e.values {
                let count = match &kv.value {
                    DbValue::U64(c) => c.to_string(),
                    other => db_tok(other),
                };
                let mut contents = BTreeMap::new();
                for v in vals {
                    if let Ok(found) = r.q(QueryBuilder::search()
                        .index(kv.key.clone())
                        .value(v.to_db())
                        .query())
                    {
                        let mut ids: Vec<i64> = found.elements.iter().map(|e| e.id.0).collect();
                        if !ids.is_empty() {
                            ids.sort();
                            contents.insert(v.tok(), ids);
                        }
                    }
                }
                s.indexes.push(IndexSnap {
                    key: db_tok(&kv.key),
                    count,
                    contents,
                });
            }
        }
    }
    s.indexes.sort_by(|a, b| a.key.as_bytes().cmp(b.key.as_bytes()));
    s
}

impl Snapshot {
    pub fn render_elems(&self) -> String {
        let mut parts = vec![];
        for e in &self.elems {
            let mut kvs: Vec<String> = e.kvs.iter().map(|(k, v)| format!("{k}={v}")).collect();
            kvs.sort_by(|a, b| a.as_bytes().cmp(b.as_bytes()));
            let kvs = kvs.join(",");
            if e.id > 0 {
                parts.push(format!("{}:{{{}}}", e.id, kvs));
            } else {
                parts.push(format!("{}:{}:{}:{{{}}}", e.id, e.from, e.to, kvs));
            }
        }
        format!("nodes={} elems=[{}]", self.node_count, parts.join("|"))
    }

    pub fn render_aliases(&self) -> String {
        format!(
            "aliases=[{}]",
            self.aliases
                .iter()
                .map(|(n, id)| format!("{}>{}", name_tok(n), id))
                .collect::<Vec<_>>()
                .join(",")
        )
    }

    pub fn render_indexes(&self) -> String {
        let parts: Vec<String> = self
            .indexes
            .iter()
            .map(|ix| {
                let groups: Vec<String> = ix
                    .contents
                    .iter()
                    .map(|(v, ids)| {
                        format!(
                            "{}>{}",
                            v,
                            ids.iter()
                                .map(|i| i.to_string())
                                .collect::<Vec<_>>()
                                .join(",")
                        )
                    })
                    .collect();
                format!("{}#{}:({})", ix.key, ix.count, groups.join(";"))
            })
            .collect();
        format!("indexes=[{}]", parts.join("|"))
    }

    pub fn render(&self) -> String {
        format!(
            "dump {} {} {}",
            self.render_elems(),
            self.render_aliases(),
            self.render_indexes()
        )
    }
}
