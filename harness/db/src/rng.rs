//! splitmix64: the only source of randomness of the harness.

#[derive(Clone, Debug)]
pub struct Rng(u64);

impl Rng {
    pub fn new(seed: u64) -> Self {
        Rng(seed ^ 0x9e37_79b9_7f4a_7c15)
    }

    pub fn next_u64(&mut self) -> u64 {
        self.0 = self.0.wrapping_add(0x9e37_79b9_7f4a_7c15);
        let mut z = self.0;
        z = (z ^ (z >> 30)).wrapping_mul(0xbf58_476d_1ce4_e5b9);
        z = (z ^ (z >> 27)).wrapping_mul(0x94d0_49bb_1331_11eb);
        z ^ (z >> 31)
    }

    /// uniform in 0..n (n > 0)
    pub fn below(&mut self, n: u64) -> u64 {
        if n == 0 {
            return 0;
        }
        self.next_u64() % n
    }

    /// uniform in lo..=hi
    pub fn range(&mut self, lo: u64, hi: u64) -> u64 {
        lo + self.below(hi - lo + 1)
    }

    /// true with probability pct/100
    pub fn pct(&mut self, pct: u64) -> bool {
        self.below(100) < pct
    }

    pub fn pick<'a, T>(&mut self, xs: &'a [T]) -> Option<&'a T> {
        if xs.is_empty() {
            None
        } else {
            Some(&xs[self.below(xs.len() as u64) as usize])
        }
    }

    /// index chosen according to weights (sum > 0)
    pub fn weighted(&mut self, weights: &[u32]) -> usize {
        let total: u64 = weights.iter().map(|w| *w as u64).sum();
        if total == 0 {
            return 0;
        }
        let mut r = self.below(total);
        for (i, w) in weights.iter().enumerate() {
            if r < *w as u64 {
                return i;
            }
            r -= *w as u64;
        }
        weights.len() - 1
    }
}
