//! Reference state: abstract multigraph + ordered key-value lists + indexed keys.
//! It follows the implementation's *returned* ids for new elements and is rebuilt from a
//! public-API snapshot after every failed query / transaction.

use crate::dump::Snapshot;
use crate::ops::*;
use agdb::QueryResult;
use std::collections::BTreeMap;
use std::collections::BTreeSet;

#[derive(Clone, Debug, Default)]
pub struct Ref {
    pub nodes: BTreeSet<i64>,
    /// |edge id| -> (from, to)
    pub edges: BTreeMap<i64, (i64, i64)>,
    /// |id| -> ordered (key token, value token)
    pub values: BTreeMap<i64, Vec<(String, String)>>,
    /// only used to resolve `@alias` ids; re-read from the implementation after every mutation
    pub aliases: BTreeMap<String, i64>,
    pub indexes: BTreeSet<String>,
}

#[derive(Default, Debug)]
pub struct ApplyOut {
    /// signed ids of elements created by the op
    pub new_elems: Vec<i64>,
    /// signed ids of elements removed by the op (explicit + cascaded)
    pub removed: Vec<i64>,
    /// signed ids of edges removed because an endpoint was removed
    pub cascaded: Vec<i64>,
    /// (key, expected, observed) for C08 id discipline
    pub problems: Vec<(&'static str, String, String)>,
    pub replacements: u64,
    pub indexed_replacements: u64,
    pub indexed_removals: u64,
    pub values_removed: u64,
    pub alias_steals: u64,
    pub alias_reassign: u64,
    pub self_loops: u64,
    pub parallel_edges: u64,
    pub nodes_removed_with_edges: u64,
}

impl Ref {
    pub fn from_snapshot(s: &Snapshot) -> Ref {
        let mut r = Ref::default();
        for e in &s.elems {
            if e.id > 0 {
                r.nodes.insert(e.id);
            } else {
                r.edges.insert(-e.id, (e.from, e.to));
            }
            if !e.kvs.is_empty() {
                r.values.insert(e.id.abs(), e.kvs.clone());
            }
        }
        for (n, id) in &s.aliases {
            r.aliases.insert(n.clone(), *id);
        }
        for ix in &s.indexes {
            r.indexes.insert(ix.key.clone());
        }
        r
    }

    pub fn set_aliases(&mut self, aliases: &[(String, i64)]) {
        self.aliases = aliases.iter().cloned().collect();
    }

    /// signed id of a live element
    pub fn resolve(&self, id: &Id) -> Option<i64> {
        match id {
            Id::Num(n) => {
                if (*n > 0 && self.nodes.contains(n)) || (*n < 0 && self.edges.contains_key(&-n)) {
                    Some(*n)
                } else {
                    None
                }
            }
            Id::Alias(a) => self
                .aliases
                .get(a)
                .copied()
                .filter(|id| self.is_live(*id)),
        }
    }

    pub fn is_live(&self, id: i64) -> bool {
        (id > 0 && self.nodes.contains(&id)) || (id < 0 && self.edges.contains_key(&-id))
    }

    pub fn abs_live(&self, abs: i64) -> bool {
        self.nodes.contains(&abs) || self.edges.contains_key(&abs)
    }

    pub fn signed(&self, abs: i64) -> i64 {
        if self.edges.contains_key(&abs) { -abs } else { abs }
    }

    pub fn kvs(&self, id: i64) -> &[(String, String)] {
        self.values
            .get(&id.abs())
            .map(|v| v.as_slice())
            .unwrap_or(&[])
    }

    pub fn value_of(&self, id: i64, key: &str) -> Option<&str> {
        self.kvs(id)
            .iter()
            .find(|(k, _)| k == key)
            .map(|(_, v)| v.as_str())
    }

    pub fn out_degree(&self, node: i64) -> u64 {
        self.edges.values().filter(|(f, _)| *f == node).count() as u64
    }

    pub fn in_degree(&self, node: i64) -> u64 {
        self.edges.values().filter(|(_, t)| *t == node).count() as u64
    }

    pub fn alias_of(&self, id: i64) -> Option<&String> {
        self.aliases.iter().find(|(_, v)| **v == id).map(|(k, _)| k)
    }

    /// ids (signed) whose current value of `key` is `val`
    pub fn ids_with(&self, key: &str, val: &str) -> BTreeSet<i64> {
        self.values
            .iter()
            .filter(|(_, kvs)| kvs.iter().any(|(k, v)| k == key && v == val))
            .map(|(abs, _)| self.signed(*abs))
            .collect()
    }

    pub fn count_with_key(&self, key: &str) -> u64 {
        self.values
            .values()
            .filter(|kvs| kvs.iter().any(|(k, _)| k == key))
            .count() as u64
    }

    fn put(&mut self, id: i64, k: &Val, v: &Val, out: &mut ApplyOut) {
        let kt = k.tok();
        let vt = v.tok();
        let indexed = self.indexes.contains(&kt);
        let list = self.values.entry(id.abs()).or_default();
        if let Some(slot) = list.iter_mut().find(|(key, _)| *key == kt) {
            slot.1 = vt;
            out.replacements += 1;
            if indexed {
                out.indexed_replacements += 1;
            }
        } else {
            list.push((kt, vt));
        }
    }

    fn put_all(&mut self, id: i64, kvs: &Kvs, out: &mut ApplyOut) {
        for (k, v) in kvs {
            self.put(id, k, v, out);
        }
    }

    fn set_alias(&mut self, id: i64, alias: &str, out: &mut ApplyOut) {
        if let Some(old) = self.alias_of(id).cloned() {
            if old != alias {
                out.alias_reassign += 1;
            }
            self.aliases.remove(&old);
        }
        if let Some(owner) = self.aliases.get(alias) {
            if *owner != id {
                out.alias_steals += 1;
            }
        }
        self.aliases.insert(alias.to_string(), id);
    }

    fn new_node(&mut self, id: i64, out: &mut ApplyOut) {
        if id <= 0 {
            out.problems.push((
                "C08/id-reuse-live/DbImpl::insert_node",
                "new node id > 0".to_string(),
                format!("id {id}"),
            ));
        } else if self.abs_live(id) {
            out.problems.push((
                "C08/id-reuse-live/DbImpl::insert_node",
                "new node id not currently in use".to_string(),
                format!("id {id} is live"),
            ));
        }
        self.nodes.insert(id);
        self.values.remove(&id.abs());
        out.new_elems.push(id);
    }

    fn new_edge(&mut self, id: i64, from: i64, to: i64, rfrom: i64, rto: i64, out: &mut ApplyOut) {
        if id >= 0 {
            out.problems.push((
                "C08/id-reuse-live/DbImpl::insert_edge",
                "new edge id < 0".to_string(),
                format!("id {id}"),
            ));
        } else if self.abs_live(-id) {
            out.problems.push((
                "C08/id-reuse-live/DbImpl::insert_edge",
                "new edge id not currently in use".to_string(),
                format!("id {id} is live"),
            ));
        }
        if (rfrom, rto) != (from, to) {
            out.problems.push((
                "C08/id-reuse-live/DbImpl::insert_edge",
                format!("edge {id} endpoints {from}->{to}"),
                format!("{rfrom}->{rto}"),
            ));
        }
        if from == to {
            out.self_loops += 1;
        }
        if self.edges.values().any(|e| *e == (from, to)) {
            out.parallel_edges += 1;
        }
        self.edges.insert(id.abs(), (from, to));
        self.values.remove(&id.abs());
        out.new_elems.push(id);
    }

    fn remove_elem(&mut self, id: i64, out: &mut ApplyOut) {
        if id > 0 {
            let incident: Vec<i64> = self
                .edges
                .iter()
                .filter(|(_, (f, t))| *f == id || *t == id)
                .map(|(e, _)| *e)
                .collect();
            if !incident.is_empty() {
                out.nodes_removed_with_edges += 1;
            }
            for e in incident {
                self.edges.remove(&e);
                self.drop_values(e, out);
                out.cascaded.push(-e);
                out.removed.push(-e);
            }
            self.nodes.remove(&id);
            self.aliases.retain(|_, v| *v != id);
        } else {
            self.edges.remove(&-id);
        }
        self.drop_values(id.abs(), out);
        out.removed.push(id);
    }

    fn drop_values(&mut self, abs: i64, out: &mut ApplyOut) {
        if let Some(list) = self.values.remove(&abs) {
            for (k, _) in &list {
                out.values_removed += 1;
                if self.indexes.contains(k) {
                    out.indexed_removals += 1;
                }
            }
        }
    }

    /// Applies the effect of a SUCCESSFUL mutating op, following the returned ids.
    pub fn apply(&mut self, op: &Op, res: &QueryResult, out: &mut ApplyOut) {
        let mut it = res.elements.iter();
        match op {
            Op::InsertNodes {
                count,
                aliases,
                ids,
                values,
            } => {
                if !ids.is_empty() {
                    let resolved: Vec<i64> = ids.iter().filter_map(|i| self.resolve(i)).collect();
                    if resolved.len() != ids.len() {
                        return;
                    }
                    let lists: Vec<&Kvs> = match values {
                        Values::Single(k) => vec![k; resolved.len().max(*count as usize)],
                        Values::Multi(l) => l.iter().collect(),
                    };
                    for (index, (id, kvs)) in resolved.iter().zip(lists).enumerate() {
                        self.put_all(*id, kvs, out);
                        if let Some(a) = aliases.get(index) {
                            self.set_alias(*id, a, out);
                        }
                    }
                } else {
                    let n = (*count).max(aliases.len() as u64) as usize;
                    let lists: Vec<&Kvs> = match values {
                        Values::Single(k) => vec![k; n],
                        Values::Multi(l) => l.iter().collect(),
                    };
                    for (index, kvs) in lists.iter().enumerate() {
                        let Some(e) = it.next() else {
                            out.problems.push((
                                "C08/elements",
                                format!("{} result elements", lists.len()),
                                format!("{}", res.elements.len()),
                            ));
                            return;
                        };
                        let existing = aliases
                            .get(index)
                            .and_then(|a| self.resolve(&Id::Alias(a.clone())));
                        if let Some(id) = existing {
                            self.put_all(id, kvs, out);
                        } else {
                            self.new_node(e.id.0, out);
                            if let Some(a) = aliases.get(index) {
                                self.set_alias(e.id.0, a, out);
                            }
                            self.put_all(e.id.0, kvs, out);
                        }
                    }
                }
            }
            Op::InsertEdges {
                from,
                to,
                ids,
                each,
                values,
            } => {
                if !ids.is_empty() {
                    let resolved: Vec<i64> = ids.iter().filter_map(|i| self.resolve(i)).collect();
                    if resolved.len() != ids.len() {
                        return;
                    }
                    let lists: Vec<&Kvs> = match values {
                        Values::Single(k) => vec![k; resolved.len().max(1)],
                        Values::Multi(l) => l.iter().collect(),
                    };
                    for (id, kvs) in resolved.iter().zip(lists) {
                        self.put_all(*id, kvs, out);
                    }
                } else {
                    let f: Vec<i64> = from.iter().filter_map(|i| self.resolve(i)).collect();
                    let t: Vec<i64> = to.iter().filter_map(|i| self.resolve(i)).collect();
                    if f.len() != from.len() || t.len() != to.len() {
                        return;
                    }
                    let mut pairs = vec![];
                    if *each || f.len() != t.len() {
                        for a in &f {
                            for b in &t {
                                pairs.push((*a, *b));
                            }
                        }
                    } else {
                        for (a, b) in f.iter().zip(&t) {
                            pairs.push((*a, *b));
                        }
                    }
                    let lists: Vec<&Kvs> = match values {
                        Values::Single(k) => vec![k; pairs.len().max(1)],
                        Values::Multi(l) => l.iter().collect(),
                    };
                    for (index, (a, b)) in pairs.iter().enumerate() {
                        let Some(e) = it.next() else {
                            out.problems.push((
                                "C08/elements",
                                format!("{} result elements", pairs.len()),
                                format!("{}", res.elements.len()),
                            ));
                            return;
                        };
                        self.new_edge(e.id.0, *a, *b, e.from.0, e.to.0, out);
                        if let Some(kvs) = lists.get(index) {
                            self.put_all(e.id.0, kvs, out);
                        }
                    }
                }
            }
            Op::InsertValues { ids, values } => {
                for (index, id) in ids.iter().enumerate() {
                    let kvs: &Kvs = match values {
                        Values::Single(k) => k,
                        Values::Multi(l) => match l.get(index) {
                            Some(k) => k,
                            None => return,
                        },
                    };
                    if let Some(target) = self.resolve(id) {
                        self.put_all(target, kvs, out);
                    } else {
                        let creates = match id {
                            Id::Num(0) => true,
                            Id::Num(_) => false,
                            Id::Alias(_) => true,
                        };
                        if !creates {
                            return;
                        }
                        let Some(e) = it.next() else {
                            out.problems.push((
                                "C08/elements",
                                "a result element for the created node".to_string(),
                                format!("{} elements", res.elements.len()),
                            ));
                            return;
                        };
                        self.new_node(e.id.0, out);
                        if let Id::Alias(a) = id {
                            self.set_alias(e.id.0, a, out);
                        }
                        self.put_all(e.id.0, kvs, out);
                    }
                }
            }
            Op::InsertAliases { ids, aliases } => {
                for (id, a) in ids.iter().zip(aliases) {
                    if let Some(target) = self.resolve(id) {
                        self.set_alias(target, a, out);
                    }
                }
            }
            Op::Remove { ids } => {
                for id in ids {
                    if let Some(target) = self.resolve(id) {
                        self.remove_elem(target, out);
                    }
                }
            }
            Op::RemoveValues { ids, keys } => {
                let keys: Vec<String> = keys.iter().map(|k| k.tok()).collect();
                for id in ids {
                    if let Some(target) = self.resolve(id) {
                        let indexes = &self.indexes;
                        if let Some(list) = self.values.get_mut(&target.abs()) {
                            list.retain(|(k, _)| {
                                if keys.contains(k) {
                                    out.values_removed += 1;
                                    if indexes.contains(k) {
                                        out.indexed_removals += 1;
                                    }
                                    false
                                } else {
                                    true
                                }
                            });
                            if list.is_empty() {
                                self.values.remove(&target.abs());
                            }
                        }
                    }
                }
            }
            Op::RemoveAliases { aliases } => {
                for a in aliases {
                    self.aliases.remove(a);
                }
            }
            Op::InsertIndex(k) => {
                self.indexes.insert(k.tok());
            }
            Op::RemoveIndex(k) => {
                self.indexes.remove(&k.tok());
            }
            _ => {}
        }
    }
}
