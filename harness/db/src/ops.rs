//! Op enum <-> text line (notes/db.md section 1). Round trip is exact: a line is accepted
//! only when re-serialising the parsed op gives back the very same text, everything
//! else is `Op::Bad` (prints `bad-op`).

use agdb::DbValue;
use agdb::QueryId;

#[derive(Clone, Debug, PartialEq, Eq, PartialOrd, Ord, Hash)]
pub enum Val {
    I(i64),
    U(u64),
    S(String),
}

pub fn hex(bytes: &[u8]) -> String {
    if bytes.is_empty() {
        return "-".to_string();
    }
    let mut s = String::with_capacity(bytes.len() * 2);
    for b in bytes {
        s.push_str(&format!("{b:02x}"));
    }
    s
}

fn unhex(s: &str) -> Option<Vec<u8>> {
    if s == "-" {
        return Some(vec![]);
    }
    if s.is_empty() || s.len() % 2 != 0 {
        return None;
    }
    let b = s.as_bytes();
    let mut out = Vec::with_capacity(b.len() / 2);
    for pair in b.chunks(2) {
        let d = |c: u8| -> Option<u8> {
            match c {
                b'0'..=b'9' => Some(c - b'0'),
                b'a'..=b'f' => Some(c - b'a' + 10),
                _ => None,
            }
        };
        out.push(d(pair[0])? * 16 + d(pair[1])?);
    }
    Some(out)
}

impl Val {
    pub fn tok(&self) -> String {
        match self {
            Val::I(v) => format!("i{v}"),
            Val::U(v) => format!("u{v}"),
            Val::S(s) => format!("s{}", hex(s.as_bytes())),
        }
    }

    pub fn parse(s: &str) -> Option<Val> {
        let (head, rest) = s.split_at_checked(1)?;
        match head {
            "i" => rest.parse::<i64>().ok().map(Val::I),
            "u" => rest.parse::<u64>().ok().map(Val::U),
            "s" => String::from_utf8(unhex(rest)?).ok().map(Val::S),
            _ => None,
        }
    }

    pub fn to_db(&self) -> DbValue {
        match self {
            Val::I(v) => DbValue::I64(*v),
            Val::U(v) => DbValue::U64(*v),
            Val::S(s) => DbValue::String(s.clone()),
        }
    }
}

pub fn db_tok(v: &DbValue) -> String {
    match v {
        DbValue::I64(v) => format!("i{v}"),
        DbValue::U64(v) => format!("u{v}"),
        DbValue::String(s) => format!("s{}", hex(s.as_bytes())),
        _ => "x?".to_string(),
    }
}

#[derive(Clone, Debug, PartialEq, Eq, Hash)]
pub enum Id {
    Num(i64),
    Alias(String),
}

impl Id {
    pub fn tok(&self) -> String {
        match self {
            Id::Num(n) => format!("{n}"),
            Id::Alias(a) => format!("@{}", name_tok(a)),
        }
    }

    pub fn to_db(&self) -> QueryId {
        match self {
            Id::Num(n) => QueryId::Id(agdb::DbId(*n)),
            Id::Alias(a) => QueryId::Alias(a.clone()),
        }
    }
}

pub fn name_tok(a: &str) -> String {
    if a.is_empty() {
        "~".to_string()
    } else {
        a.to_string()
    }
}

fn parse_name(s: &str) -> Option<String> {
    if s == "~" {
        return Some(String::new());
    }
    let b = s.as_bytes();
    if b.is_empty() || !b[0].is_ascii_lowercase() {
        return None;
    }
    if b.iter()
        .all(|c| c.is_ascii_lowercase() || c.is_ascii_digit())
    {
        Some(s.to_string())
    } else {
        None
    }
}

pub type Kvs = Vec<(Val, Val)>;

#[derive(Clone, Debug, PartialEq, Eq, Hash)]
pub enum Values {
    Single(Kvs),
    Multi(Vec<Kvs>),
}

#[derive(Clone, Debug, PartialEq, Eq, Hash)]
pub enum Op {
    Case(u64),
    InsertNodes {
        count: u64,
        aliases: Vec<String>,
        ids: Vec<Id>,
        values: Values,
    },
    InsertEdges {
        from: Vec<Id>,
        to: Vec<Id>,
        ids: Vec<Id>,
        each: bool,
        values: Values,
    },
    InsertValues {
        ids: Vec<Id>,
        values: Values,
    },
    InsertAliases {
        ids: Vec<Id>,
        aliases: Vec<String>,
    },
    Remove {
        ids: Vec<Id>,
    },
    RemoveValues {
        ids: Vec<Id>,
        keys: Vec<Val>,
    },
    RemoveAliases {
        aliases: Vec<String>,
    },
    InsertIndex(Val),
    RemoveIndex(Val),
    SelectValues {
        ids: Vec<Id>,
        keys: Vec<Val>,
    },
    SelectKeys {
        ids: Vec<Id>,
    },
    SelectKeyCount {
        ids: Vec<Id>,
    },
    SelectEdgeCount {
        ids: Vec<Id>,
        from: bool,
        to: bool,
    },
    SelectNodeCount,
    SelectIndexes,
    SelectAliases {
        ids: Vec<Id>,
    },
    SelectAllAliases,
    SearchIndex(Val, Val),
    Dump,
    TxnBegin,
    TxnFail,
    TxnCommit,
    /// close and reopen the database (only file-backed variants actually do; C06)
    Reopen,
    /// anything that is not a canonical op line (raw text kept for the round trip)
    Bad(String),
}

fn ids_tok(ids: &[Id]) -> String {
    if ids.is_empty() {
        "-".to_string()
    } else {
        ids.iter().map(|i| i.tok()).collect::<Vec<_>>().join(",")
    }
}

fn names_tok(names: &[String]) -> String {
    if names.is_empty() {
        "-".to_string()
    } else {
        names.iter().map(|n| name_tok(n)).collect::<Vec<_>>().join(",")
    }
}

fn vals_tok(vals: &[Val]) -> String {
    if vals.is_empty() {
        "-".to_string()
    } else {
        vals.iter().map(|v| v.tok()).collect::<Vec<_>>().join(",")
    }
}

fn kvs_tok(kvs: &Kvs) -> String {
    if kvs.is_empty() {
        "-".to_string()
    } else {
        kvs.iter()
            .map(|(k, v)| format!("{}={}", k.tok(), v.tok()))
            .collect::<Vec<_>>()
            .join(",")
    }
}

fn values_tok(v: &Values) -> String {
    match v {
        Values::Single(kvs) => format!("U:{}", kvs_tok(kvs)),
        Values::Multi(lists) => format!(
            "M:{}",
            lists.iter().map(kvs_tok).collect::<Vec<_>>().join(";")
        ),
    }
}

fn b01(b: bool) -> &'static str {
    if b { "1" } else { "0" }
}

impl Op {
    pub fn to_line(&self) -> String {
        match self {
            Op::Case(n) => format!("case {n}"),
            Op::InsertNodes {
                count,
                aliases,
                ids,
                values,
            } => format!(
                "insert_nodes count={count} aliases={} ids={} values={}",
                names_tok(aliases),
                ids_tok(ids),
                values_tok(values)
            ),
            Op::InsertEdges {
                from,
                to,
                ids,
                each,
                values,
            } => format!(
                "insert_edges from={} to={} ids={} each={} values={}",
                ids_tok(from),
                ids_tok(to),
                ids_tok(ids),
                b01(*each),
                values_tok(values)
            ),
            Op::InsertValues { ids, values } => format!(
                "insert_values ids={} values={}",
                ids_tok(ids),
                values_tok(values)
            ),
            Op::InsertAliases { ids, aliases } => format!(
                "insert_aliases ids={} aliases={}",
                ids_tok(ids),
                names_tok(aliases)
            ),
            Op::Remove { ids } => format!("remove ids={}", ids_tok(ids)),
            Op::RemoveValues { ids, keys } => {
                format!("remove_values ids={} keys={}", ids_tok(ids), vals_tok(keys))
            }
            Op::RemoveAliases { aliases } => {
                format!("remove_aliases aliases={}", names_tok(aliases))
            }
            Op::InsertIndex(k) => format!("insert_index {}", k.tok()),
            Op::RemoveIndex(k) => format!("remove_index {}", k.tok()),
            Op::SelectValues { ids, keys } => {
                format!("select_values ids={} keys={}", ids_tok(ids), vals_tok(keys))
            }
            Op::SelectKeys { ids } => format!("select_keys ids={}", ids_tok(ids)),
            Op::SelectKeyCount { ids } => format!("select_key_count ids={}", ids_tok(ids)),
            Op::SelectEdgeCount { ids, from, to } => format!(
                "select_edge_count ids={} from={} to={}",
                ids_tok(ids),
                b01(*from),
                b01(*to)
            ),
            Op::SelectNodeCount => "select_node_count".to_string(),
            Op::SelectIndexes => "select_indexes".to_string(),
            Op::SelectAliases { ids } => format!("select_aliases ids={}", ids_tok(ids)),
            Op::SelectAllAliases => "select_all_aliases".to_string(),
            Op::SearchIndex(k, v) => format!("search_index {} {}", k.tok(), v.tok()),
            Op::Dump => "dump".to_string(),
            Op::TxnBegin => "txn_begin".to_string(),
            Op::TxnFail => "txn_fail".to_string(),
            Op::TxnCommit => "txn_commit".to_string(),
            Op::Reopen => "reopen".to_string(),
            Op::Bad(raw) => raw.clone(),
        }
    }

    /// short op kind name for histograms
    pub fn kind(&self) -> &'static str {
        match self {
            Op::Case(_) => "case",
            Op::InsertNodes { ids, .. } => {
                if ids.is_empty() {
                    "insert_nodes"
                } else {
                    "insert_nodes(ids=)"
                }
            }
            Op::InsertEdges { ids, .. } => {
                if ids.is_empty() {
                    "insert_edges"
                } else {
                    "insert_edges(ids=)"
                }
            }
            Op::InsertValues { .. } => "insert_values",
            Op::InsertAliases { .. } => "insert_aliases",
            Op::Remove { .. } => "remove",
            Op::RemoveValues { .. } => "remove_values",
            Op::RemoveAliases { .. } => "remove_aliases",
            Op::InsertIndex(_) => "insert_index",
            Op::RemoveIndex(_) => "remove_index",
            Op::SelectValues { .. } => "select_values",
            Op::SelectKeys { .. } => "select_keys",
            Op::SelectKeyCount { .. } => "select_key_count",
            Op::SelectEdgeCount { .. } => "select_edge_count",
            Op::SelectNodeCount => "select_node_count",
            Op::SelectIndexes => "select_indexes",
            Op::SelectAliases { .. } => "select_aliases",
            Op::SelectAllAliases => "select_all_aliases",
            Op::SearchIndex(..) => "search_index",
            Op::Dump => "dump",
            Op::TxnBegin => "txn_begin",
            Op::TxnFail => "txn_fail",
            Op::TxnCommit => "txn_commit",
            Op::Reopen => "reopen",
            Op::Bad(_) => "bad-op",
        }
    }

    pub fn is_mutating(&self) -> bool {
        matches!(
            self,
            Op::InsertNodes { .. }
                | Op::InsertEdges { .. }
                | Op::InsertValues { .. }
                | Op::InsertAliases { .. }
                | Op::Remove { .. }
                | Op::RemoveValues { .. }
                | Op::RemoveAliases { .. }
                | Op::InsertIndex(_)
                | Op::RemoveIndex(_)
        )
    }

    /// upper bound of the number of elements this op can create (for the dump probing range)
    pub fn potential_creations(&self) -> u64 {
        match self {
            Op::InsertNodes {
                count,
                aliases,
                values,
                ..
            } => {
                let lists = match values {
                    Values::Single(_) => 0,
                    Values::Multi(l) => l.len() as u64,
                };
                (*count).max(aliases.len() as u64).max(lists)
            }
            Op::InsertEdges { from, to, .. } => {
                (from.len() as u64 * to.len() as u64).max(from.len().min(to.len()) as u64)
            }
            Op::InsertValues { ids, .. } => ids.len() as u64,
            _ => 0,
        }
    }

    /// every value token mentioned by this op (keys and values)
    pub fn collect_vals(&self, out: &mut std::collections::BTreeSet<Val>) {
        fn kvs(k: &Kvs, out: &mut std::collections::BTreeSet<Val>) {
            for (a, b) in k {
                out.insert(a.clone());
                out.insert(b.clone());
            }
        }
        fn values(v: &Values, out: &mut std::collections::BTreeSet<Val>) {
            match v {
                Values::Single(k) => kvs(k, out),
                Values::Multi(l) => l.iter().for_each(|k| kvs(k, out)),
            }
        }
        match self {
            Op::InsertNodes { values: v, .. }
            | Op::InsertEdges { values: v, .. }
            | Op::InsertValues { values: v, .. } => values(v, out),
            Op::RemoveValues { keys, .. } | Op::SelectValues { keys, .. } => {
                out.extend(keys.iter().cloned())
            }
            Op::InsertIndex(k) | Op::RemoveIndex(k) => {
                out.insert(k.clone());
            }
            Op::SearchIndex(k, v) => {
                out.insert(k.clone());
                out.insert(v.clone());
            }
            _ => {}
        }
    }
}

fn parse_ids(s: &str) -> Option<Vec<Id>> {
    if s == "-" {
        return Some(vec![]);
    }
    s.split(',')
        .map(|t| {
            if let Some(n) = t.strip_prefix('@') {
                parse_name(n).map(Id::Alias)
            } else {
                t.parse::<i64>().ok().map(Id::Num)
            }
        })
        .collect()
}

fn parse_names(s: &str) -> Option<Vec<String>> {
    if s == "-" {
        return Some(vec![]);
    }
    s.split(',').map(parse_name).collect()
}

fn parse_vals(s: &str) -> Option<Vec<Val>> {
    if s == "-" {
        return Some(vec![]);
    }
    s.split(',').map(Val::parse).collect()
}

fn parse_kvs(s: &str) -> Option<Kvs> {
    if s == "-" {
        return Some(vec![]);
    }
    s.split(',')
        .map(|kv| {
            let (k, v) = kv.split_once('=')?;
            Some((Val::parse(k)?, Val::parse(v)?))
        })
        .collect()
}

fn parse_values(s: &str) -> Option<Values> {
    if let Some(rest) = s.strip_prefix("U:") {
        return parse_kvs(rest).map(Values::Single);
    }
    if let Some(rest) = s.strip_prefix("M:") {
        if rest.is_empty() {
            return Some(Values::Multi(vec![]));
        }
        return rest
            .split(';')
            .map(parse_kvs)
            .collect::<Option<Vec<_>>>()
            .map(Values::Multi);
    }
    None
}

fn parse_bool(s: &str) -> Option<bool> {
    match s {
        "0" => Some(false),
        "1" => Some(true),
        _ => None,
    }
}

fn field<'a>(toks: &[&'a str], i: usize, name: &str) -> Option<&'a str> {
    toks.get(i)?.strip_prefix(name)?.strip_prefix('=')
}

fn parse_inner(line: &str) -> Option<Op> {
    let toks: Vec<&str> = line.split(' ').collect();
    let n = toks.len();
    let op = match toks[0] {
        "case" if n == 2 => Op::Case(toks[1].parse::<u64>().ok()?),
        "insert_nodes" if n == 5 => Op::InsertNodes {
            count: field(&toks, 1, "count")?.parse::<u64>().ok()?,
            aliases: parse_names(field(&toks, 2, "aliases")?)?,
            ids: parse_ids(field(&toks, 3, "ids")?)?,
            values: parse_values(field(&toks, 4, "values")?)?,
        },
        "insert_edges" if n == 6 => Op::InsertEdges {
            from: parse_ids(field(&toks, 1, "from")?)?,
            to: parse_ids(field(&toks, 2, "to")?)?,
            ids: parse_ids(field(&toks, 3, "ids")?)?,
            each: parse_bool(field(&toks, 4, "each")?)?,
            values: parse_values(field(&toks, 5, "values")?)?,
        },
        "insert_values" if n == 3 => Op::InsertValues {
            ids: parse_ids(field(&toks, 1, "ids")?)?,
            values: parse_values(field(&toks, 2, "values")?)?,
        },
        "insert_aliases" if n == 3 => Op::InsertAliases {
            ids: parse_ids(field(&toks, 1, "ids")?)?,
            aliases: parse_names(field(&toks, 2, "aliases")?)?,
        },
        "remove" if n == 2 => Op::Remove {
            ids: parse_ids(field(&toks, 1, "ids")?)?,
        },
        "remove_values" if n == 3 => Op::RemoveValues {
            ids: parse_ids(field(&toks, 1, "ids")?)?,
            keys: parse_vals(field(&toks, 2, "keys")?)?,
        },
        "remove_aliases" if n == 2 => Op::RemoveAliases {
            aliases: parse_names(field(&toks, 1, "aliases")?)?,
        },
        "insert_index" if n == 2 => Op::InsertIndex(Val::parse(toks[1])?),
        "remove_index" if n == 2 => Op::RemoveIndex(Val::parse(toks[1])?),
        "select_values" if n == 3 => Op::SelectValues {
            ids: parse_ids(field(&toks, 1, "ids")?)?,
            keys: parse_vals(field(&toks, 2, "keys")?)?,
        },
        "select_keys" if n == 2 => Op::SelectKeys {
            ids: parse_ids(field(&toks, 1, "ids")?)?,
        },
        "select_key_count" if n == 2 => Op::SelectKeyCount {
            ids: parse_ids(field(&toks, 1, "ids")?)?,
        },
        "select_edge_count" if n == 4 => Op::SelectEdgeCount {
            ids: parse_ids(field(&toks, 1, "ids")?)?,
            from: parse_bool(field(&toks, 2, "from")?)?,
            to: parse_bool(field(&toks, 3, "to")?)?,
        },
        "select_node_count" if n == 1 => Op::SelectNodeCount,
        "select_indexes" if n == 1 => Op::SelectIndexes,
        "select_aliases" if n == 2 => Op::SelectAliases {
            ids: parse_ids(field(&toks, 1, "ids")?)?,
        },
        "select_all_aliases" if n == 1 => Op::SelectAllAliases,
        "search_index" if n == 3 => Op::SearchIndex(Val::parse(toks[1])?, Val::parse(toks[2])?),
        "dump" if n == 1 => Op::Dump,
        "txn_begin" if n == 1 => Op::TxnBegin,
        "txn_fail" if n == 1 => Op::TxnFail,
        "txn_commit" if n == 1 => Op::TxnCommit,
        "reopen" if n == 1 => Op::Reopen,
        _ => return None,
    };
    Some(op)
}

pub fn parse_line(line: &str) -> Op {
    match parse_inner(line) {
        // canonical form only (e.g. `i007`, `i+1`, `i-0`, double spaces are rejected)
        Some(op) if op.to_line() == line => op,
        _ => Op::Bad(line.to_string()),
    }
}
