//! harness_db: drives the real agdb database through its public API (group `db`: C08 C09 C11 C13).
//!
//!   harness_db gen    --prop <ID> --seed <u64> --tier quick|thorough --out <dir> [--corpus <dir>]
//!   harness_db replay --prop <ID> --ops <file> --out <dir>

mod case;
mod dump;
mod exec;
mod generator;
mod ops;
mod refmodel;
mod rng;

use case::*;
use generator::*;
use std::cell::RefCell;
use std::collections::BTreeMap;
use std::collections::HashSet;
use std::collections::VecDeque;
use std::hash::Hash;
use std::hash::Hasher;
use std::io::Write;
use std::panic::AssertUnwindSafe;
use std::path::Path;
use std::path::PathBuf;
use std::sync::Arc;
use std::sync::Mutex;
use std::sync::mpsc;
use std::time::Duration;

const CASE_TIMEOUT: Duration = Duration::from_secs(20);

thread_local! {
    static LAST_PANIC: RefCell<Option<String>> = const { RefCell::new(None) };
}

fn panic_site(file: &str) -> String {
    let file = file.replace('\\', "/");
    if let Some(i) = file.find("/agdb/src/") {
        return file[i + 1..].to_string();
    }
    if let Some(i) = file.find("/library/") {
        return file[i + 1..].to_string();
    }
    if file.starts_with("src/") {
        return format!("harness/{file}");
    }
    file
}

fn json_str(s: &str) -> String {
    let mut o = String::with_capacity(s.len() + 2);
    o.push('"');
    for c in s.chars() {
        match c {
            '"' => o.push_str("\\\""),
            '\\' => o.push_str("\\\\"),
            '\n' => o.push_str("\\n"),
            '\r' => o.push_str("\\r"),
            '\t' => o.push_str("\\t"),
            c if (c as u32) < 0x20 => o.push_str(&format!("\\u{:04x}", c as u32)),
            c => o.push(c),
        }
    }
    o.push('"');
    o
}

struct Args {
    cmd: String,
    prop: Prop,
    seed: u64,
    thorough: bool,
    out: PathBuf,
    ops: Option<PathBuf>,
    corpus: Option<PathBuf>,
}

fn usage() -> ! {
    eprintln!(
        "usage: harness_db gen --prop <C06|C08|C09|C11|C13> --seed <u64> --tier quick|thorough --out <dir> [--corpus <dir>]\n       harness_db replay --prop <ID> --ops <file> --out <dir>"
    );
    std::process::exit(2);
}

fn parse_args() -> Args {
    let argv: Vec<String> = std::env::args().collect();
    if argv.len() < 2 {
        usage();
    }
    let mut a = Args {
        cmd: argv[1].clone(),
        prop: Prop::C13,
        seed: 0,
        thorough: false,
        out: PathBuf::from("."),
        ops: None,
        corpus: None,
    };
    let mut have_prop = false;
    let mut i = 2;
    while i < argv.len() {
        let v = argv.get(i + 1).cloned();
        match (argv[i].as_str(), v) {
            ("--prop", Some(v)) => {
                a.prop = Prop::parse(&v).unwrap_or_else(|| usage());
                have_prop = true;
            }
            ("--seed", Some(v)) => a.seed = v.parse().unwrap_or_else(|_| usage()),
            ("--tier", Some(v)) => {
                a.thorough = match v.as_str() {
                    "quick" => false,
                    "thorough" => true,
                    _ => usage(),
                }
            }
            ("--out", Some(v)) => a.out = PathBuf::from(v),
            ("--ops", Some(v)) => a.ops = Some(PathBuf::from(v)),
            ("--corpus", Some(v)) => a.corpus = Some(PathBuf::from(v)),
            _ => usage(),
        }
        i += 2;
    }
    if !have_prop || (a.cmd != "gen" && a.cmd != "replay") || (a.cmd == "replay" && a.ops.is_none())
    {
        usage();
    }
    a
}

/// what to run for one case
enum Plan {
    /// lines of the case WITHOUT its `case n` line; `has_case_line` false only for the implicit case 0
    Replay {
        lines: Vec<String>,
        has_case_line: bool,
    },
    Gen {
        seed: u64,
        thorough: bool,
    },
}

struct Totals {
    ops: Vec<String>,
    outs: Vec<String>,
    violations: Vec<Violation>,
    hist: BTreeMap<String, u64>,
    evaluations: u64,
    nontrivial_hashes: HashSet<u64>,
    samples_nontrivial: Vec<Vec<String>>,
    samples_other: Vec<Vec<String>>,
}

fn bump(h: &mut BTreeMap<String, u64>, k: &str, n: u64) {
    if n > 0 {
        *h.entry(k.to_string()).or_insert(0) += n;
    }
}

/// the six database variants of C06
#[derive(Clone, Copy, PartialEq, Eq, Debug)]
enum Variant {
    Memory,
    File,
    Mapped,
    AnyMemory,
    AnyFile,
    AnyMapped,
}

impl Variant {
    fn name(&self) -> &'static str {
        match self {
            Variant::Memory => "DbMemory",
            Variant::File => "DbFile",
            Variant::Mapped => "Db",
            Variant::AnyMemory => "DbAny::new_memory",
            Variant::AnyFile => "DbAny::new_file",
            Variant::AnyMapped => "DbAny::new",
        }
    }
    fn persistent(&self) -> bool {
        !matches!(self, Variant::Memory | Variant::AnyMemory)
    }
    const OTHERS: [Variant; 5] = [
        Variant::File,
        Variant::Mapped,
        Variant::AnyMemory,
        Variant::AnyFile,
        Variant::AnyMapped,
    ];
}

/// `file:` part of an error / panic location, relative to the repository
fn site_of(path: &str) -> String {
    panic_site(path)
}

/// runs the whole case on one database; `reopen` lines close and reopen persistent variants
fn drive<S: agdb::StorageData>(
    ctx: &mut CaseCtx,
    open: &dyn Fn() -> Result<agdb::DbImpl<S>, agdb::DbError>,
    persistent: bool,
) {
    let mut db = open().expect("harness: cannot create database");
    loop {
        match ctx.run(&mut db) {
            RunExit::Done => break,
            RunExit::Reopen => {
                if !persistent {
                    ctx.reopen_done(None, &db);
                    continue;
                }
                let before = ctx.reopen_before(&db);
                drop(db);
                ctx.st.bump("reopens_performed", 1);
                match std::panic::catch_unwind(AssertUnwindSafe(open)) {
                    Ok(Ok(d)) => {
                        db = d;
                        ctx.reopen_done(Some(&before), &db);
                    }
                    Ok(Err(e)) => {
                        let mut inner = &e;
                        while let Some(c) = &inner.cause {
                            inner = c;
                        }
                        let site = site_of(inner.source_location.file());
                        ctx.reopen_failed(
                            exec::fmt_err(&e),
                            &site,
                            format!("{}: {}", exec::fmt_err(inner), inner.description),
                        );
                        return;
                    }
                    Err(_) => {
                        let file = LAST_PANIC
                            .with(|p| p.borrow_mut().take())
                            .unwrap_or_else(|| "unknown".to_string());
                        let site = site_of(&file);
                        ctx.reopen_failed(format!("panic:{site}"), &site, format!("panic in {site}"));
                        return;
                    }
                }
            }
        }
    }
}

fn drive_variant(ctx: &mut CaseCtx, v: Variant, path: &str) {
    match v {
        Variant::Memory => drive(ctx, &|| agdb::DbMemory::new("verif_db"), false),
        Variant::File => drive(ctx, &|| agdb::DbFile::new(path), true),
        Variant::Mapped => drive(ctx, &|| agdb::Db::new(path), true),
        Variant::AnyMemory => drive(ctx, &|| agdb::DbAny::new_memory("verif_db_any"), false),
        Variant::AnyFile => drive(ctx, &|| agdb::DbAny::new_file(path), true),
        Variant::AnyMapped => drive(ctx, &|| agdb::DbAny::new(path), true),
    }
}

struct CaseRun {
    lines: Vec<String>,
    outs: Vec<String>,
    violations: Vec<Violation>,
    st: CaseStats,
    panic: Option<String>,
    timed_out: bool,
}

/// one case on one variant in a watched worker thread
#[allow(clippy::too_many_arguments)]
fn run_on_variant(
    prop: Prop,
    case_no: u64,
    base_line: usize,
    source: Source,
    has_case_line: bool,
    variant: Variant,
    out_dir: &Path,
    check_every: u64,
) -> CaseRun {
    let progress = Arc::new(Mutex::new(Progress::default()));
    let tmp_dir = out_dir.join("tmp");
    let tag = format!("case_{case_no}_{:?}", variant).to_lowercase();
    let db_path = tmp_dir.join(format!("{tag}.agdb"));
    let wal_path = tmp_dir.join(format!(".{tag}.agdb"));
    let (tx, rx) = mpsc::channel::<(CaseStats, Option<String>)>();
    let progress_w = progress.clone();
    let db_path_w = db_path.clone();
    let wal_path_w = wal_path.clone();
    let worker = std::thread::Builder::new()
        .name(format!("case-{case_no}"))
        .stack_size(32 << 20)
        .spawn(move || {
            let mut ctx = CaseCtx::new(prop, case_no, base_line, progress_w, source, check_every);
            ctx.exit_on_reopen = true;
            if has_case_line {
                ctx.push_case_line();
            }
            let result = std::panic::catch_unwind(AssertUnwindSafe(|| {
                let _ = std::fs::remove_file(&db_path_w);
                let _ = std::fs::remove_file(&wal_path_w);
                drive_variant(&mut ctx, variant, db_path_w.to_str().unwrap());
            }));
            let panic = match result {
                Ok(()) => None,
                Err(_) => Some(
                    LAST_PANIC
                        .with(|p| p.borrow_mut().take())
                        .unwrap_or_else(|| "unknown".to_string()),
                ),
            };
            let _ = tx.send((ctx.st.clone(), panic));
        })
        .expect("harness: cannot spawn worker");

    let (st, panic, timed_out) = match rx.recv_timeout(CASE_TIMEOUT) {
        Ok((st, panic)) => {
            let _ = worker.join();
            (st, panic, false)
        }
        Err(_) => (CaseStats::default(), None, true), // worker abandoned
    };
    if !timed_out {
        let _ = std::fs::remove_file(&db_path);
        let _ = std::fs::remove_file(&wal_path);
    }
    let (lines, outs, violations) = {
        let mut p = progress.lock().unwrap();
        (
            std::mem::take(&mut p.lines),
            std::mem::take(&mut p.outs),
            std::mem::take(&mut p.violations),
        )
    };
    CaseRun {
        lines,
        outs,
        violations,
        st,
        panic,
        timed_out,
    }
}

fn run_one_case(
    prop: Prop,
    case_no: u64,
    plan: Plan,
    out_dir: &Path,
    check_every: u64,
    totals: &mut Totals,
) {
    let base_line = totals.ops.len();
    let (replay_lines, has_case_line) = match &plan {
        Plan::Replay {
            lines,
            has_case_line,
        } => (Some(lines.clone()), *has_case_line),
        Plan::Gen { .. } => (None, true),
    };
    let source = match plan {
        Plan::Replay { lines, .. } => Source::Replay(VecDeque::from(lines)),
        Plan::Gen { seed, thorough } => {
            if prop == Prop::C06 {
                // every generator of the group in turn, plus close/reopen lines
                let profile = [Prop::C13, Prop::C11, Prop::C08, Prop::C09][(case_no % 4) as usize];
                let mut g = Generator::new(seed, profile, thorough);
                g.reopen_pct = 4;
                Source::Gen(Box::new(g))
            } else {
                let mut g = Generator::new(seed, prop, thorough);
                if case_no % 2 == 1 {
                    // DbFile cases: close + reopen at a few places, and near the end of a third of them
                    g.reopen_pct = 3;
                    g.final_reopen = seed % 3 == 0;
                }
                Source::Gen(Box::new(g))
            }
        }
    };
    let file_case = prop != Prop::C06 && case_no % 2 == 1;
    let primary = if file_case {
        Variant::File
    } else {
        Variant::Memory
    };
    let run = run_on_variant(
        prop,
        case_no,
        base_line,
        source,
        has_case_line,
        primary,
        out_dir,
        check_every,
    );
    let CaseRun {
        mut lines,
        mut outs,
        mut violations,
        st,
        panic,
        timed_out,
    } = run;
    let mut hist = st.hist.clone();
    if timed_out {
        // the abandoned worker's statistics are lost; count its lines at least
        bump(&mut hist, "timeout_cases", 1);
    }
    if lines.len() == outs.len() + 1 {
        if timed_out {
            outs.push("timeout".to_string());
            bump(&mut hist, "out:timeout", 1);
        } else if let Some(site) = &panic {
            let o = format!("panic:{}", panic_site(site));
            bump(&mut hist, &format!("out:{o}"), 1);
            outs.push(o);
        } else {
            outs.push("skipped".to_string());
        }
    } else if timed_out {
        bump(&mut hist, "timeout_between_ops", 1);
    } else if let Some(site) = &panic {
        bump(
            &mut hist,
            &format!("panic_between_ops:{}", panic_site(site)),
            1,
        );
    }
    outs.truncate(lines.len());
    if let Some(all) = replay_lines {
        let consumed = lines.len() - has_case_line as usize;
        for raw in all.iter().skip(consumed) {
            lines.push(raw.clone());
            outs.push("skipped".to_string());
            bump(&mut hist, "out:skipped", 1);
        }
    }
    bump(
        &mut hist,
        if file_case { "file_cases" } else { "memory_cases" },
        1,
    );
    bump(&mut hist, "cases", 1);

    // C06: the same op lines on the five other variants, every output line must be identical
    if prop == Prop::C06 {
        let body: Vec<String> = lines[has_case_line as usize..].to_vec();
        bump(&mut hist, "variant_runs", 1);
        for v in Variant::OTHERS {
            let r = run_on_variant(
                prop,
                case_no,
                base_line,
                Source::Replay(VecDeque::from(body.clone())),
                has_case_line,
                v,
                out_dir,
                check_every,
            );
            bump(&mut hist, "variant_runs", 1);
            bump(&mut hist, &format!("variant_runs:{}", v.name()), 1);
            bump(
                &mut hist,
                &format!("reopens_performed:{}", v.name()),
                r.st.hist.get("reopens_performed").copied().unwrap_or(0),
            );
            let mut vouts = r.outs;
            if r.timed_out {
                vouts.push("timeout".to_string());
                bump(&mut hist, &format!("variant_timeouts:{}", v.name()), 1);
            } else if let Some(site) = &r.panic {
                vouts.push(format!("panic:{}", panic_site(site)));
                bump(&mut hist, &format!("variant_panics:{}", v.name()), 1);
            }
            let mut reported = 0;
            for i in 0..lines.len() {
                let want = &outs[i];
                let got = vouts.get(i).map(|s| s.as_str()).unwrap_or("<missing>");
                bump(&mut hist, "variant_lines_compared", 1);
                if want != got {
                    bump(&mut hist, "divergences", 1);
                    bump(&mut hist, &format!("divergences:{}", v.name()), 1);
                    if reported < 3 {
                        reported += 1;
                        let (e, o) = if want.len() > 200 || got.len() > 200 {
                            let p = want
                                .bytes()
                                .zip(got.bytes())
                                .take_while(|(a, b)| a == b)
                                .count()
                                .saturating_sub(40);
                            (
                                want.chars().skip(p).take(160).collect::<String>(),
                                got.chars().skip(p).take(160).collect::<String>(),
                            )
                        } else {
                            (want.clone(), got.to_string())
                        };
                        violations.push(Violation {
                            case: case_no,
                            line: base_line + i,
                            key: format!("C06/variant-divergence/{}", v.name()),
                            rule: format!(
                                "every storage variant returns the same result / error as DbMemory for `{}`",
                                lines[i].chars().take(80).collect::<String>()
                            ),
                            expected: e,
                            observed: o,
                        });
                    }
                }
            }
        }
    }

    // distinctness: hash of the op text without the `case n` line
    let nontrivial = if prop == Prop::C06 {
        !timed_out && panic.is_none() && st.hist.get("new_elements").copied().unwrap_or(0) > 0
    } else {
        st.nontrivial
    };
    let body: &[String] = if has_case_line { &lines[1..] } else { &lines[..] };
    if nontrivial {
        let mut h = std::collections::hash_map::DefaultHasher::new();
        body.hash(&mut h);
        if totals.nontrivial_hashes.insert(h.finish()) && totals.samples_nontrivial.len() < 5 {
            totals
                .samples_nontrivial
                .push(lines.iter().take(25).cloned().collect());
        }
    } else if totals.samples_other.len() < 5 {
        totals
            .samples_other
            .push(lines.iter().take(25).cloned().collect());
    }
    totals.evaluations += st.evaluations * if prop == Prop::C06 { 6 } else { 1 };
    for (k, v) in hist {
        bump(&mut totals.hist, &k, v);
    }
    totals.violations.extend(violations);
    totals.ops.extend(lines);
    totals.outs.extend(outs);
}

/// splits op text into cases at valid `case <n>` lines
fn split_cases(text: &str) -> Vec<(Option<u64>, Vec<String>)> {
    let mut cases: Vec<(Option<u64>, Vec<String>)> = vec![];
    for line in text.lines() {
        if let ops::Op::Case(n) = ops::parse_line(line) {
            cases.push((Some(n), vec![]));
        } else {
            if cases.is_empty() {
                cases.push((None, vec![]));
            }
            cases.last_mut().unwrap().1.push(line.to_string());
        }
    }
    cases
}

fn nontrivial_rule(prop: Prop) -> &'static str {
    match prop {
        Prop::C08 => {
            "case contains a successful removal of a node that had at least one incident edge (cascade), hash of the case's op text"
        }
        Prop::C09 => {
            "case contains at least one successful replacement of the value of an existing key, hash of the case's op text"
        }
        Prop::C11 => {
            "case replaced or removed (remove_values / element removal) a value stored under a currently indexed key, hash of the case's op text"
        }
        Prop::C06 => {
            "case created at least one element and completed on DbMemory without panic/timeout; it was then replayed on DbFile, Db (memory mapped), DbAny::new_memory, DbAny::new_file and DbAny::new (`reopen` lines close and reopen the four file-backed variants); hash of the case's op text"
        }
        Prop::C13 => {
            "case contains a failing transaction that had performed at least one successful mutation before failing, or a failing single mutating query whose first item was applicable (work done before the failure), hash of the case's op text"
        }
    }
}

fn write_outputs(out: &Path, prop: Prop, totals: &Totals) -> std::io::Result<()> {
    let mut f = std::fs::File::create(out.join("ops.txt"))?;
    for l in &totals.ops {
        writeln!(f, "{l}")?;
    }
    let mut f = std::fs::File::create(out.join("impl.txt"))?;
    for l in &totals.outs {
        writeln!(f, "{l}")?;
    }
    let mut f = std::fs::File::create(out.join("oracle.jsonl"))?;
    for v in &totals.violations {
        writeln!(
            f,
            "{{\"case\":{},\"line\":{},\"key\":{},\"rule\":{},\"expected\":{},\"observed\":{}}}",
            v.case,
            v.line,
            json_str(&v.key),
            json_str(&v.rule),
            json_str(&v.expected),
            json_str(&v.observed)
        )?;
    }
    let mut samples: Vec<&Vec<String>> = totals.samples_nontrivial.iter().collect();
    for s in &totals.samples_other {
        if samples.len() < 5 {
            samples.push(s);
        }
    }
    let samples_json = samples
        .iter()
        .map(|s| {
            format!(
                "[{}]",
                s.iter().map(|l| json_str(l)).collect::<Vec<_>>().join(",")
            )
        })
        .collect::<Vec<_>>()
        .join(",");
    let mut hist = totals.hist.clone();
    for k in [
        "txn_fail",
        "txn_commit",
        "txn_aborted",
        "failed_single_queries",
        "failed_single_queries_after_partial_work",
        "failed_txn_after_mutation",
        "replacements",
        "indexed_replacements",
        "alias_steals",
        "alias_reassignments",
        "id_reuse",
        "self_loops",
        "parallel_edges",
        "nodes_removed_with_edges",
        "memory_cases",
        "file_cases",
        "corpus_cases",
        "ref_resyncs_changed_state",
        "out:timeout",
        "timeout_cases",
    ] {
        hist.entry(k.to_string()).or_insert(0);
    }
    let hist_json = hist
        .iter()
        .map(|(k, v)| format!("{}:{}", json_str(k), v))
        .collect::<Vec<_>>()
        .join(",");
    let mut f = std::fs::File::create(out.join("stats.json"))?;
    writeln!(
        f,
        "{{\"evaluations\":{},\"distinct_nontrivial\":{},\"rule\":{},\"samples\":[{}],\"histogram\":{{{}}}}}",
        totals.evaluations,
        totals.nontrivial_hashes.len(),
        json_str(nontrivial_rule(prop)),
        samples_json,
        hist_json
    )?;
    Ok(())
}

fn main() {
    let args = parse_args();
    std::panic::set_hook(Box::new(|info| {
        let file = info
            .location()
            .map(|l| l.file().to_string())
            .unwrap_or_else(|| "unknown".to_string());
        LAST_PANIC.with(|p| *p.borrow_mut() = Some(file));
    }));
    std::fs::create_dir_all(args.out.join("tmp")).expect("harness: cannot create out dir");
    let mut totals = Totals {
        ops: vec![],
        outs: vec![],
        violations: vec![],
        hist: BTreeMap::new(),
        evaluations: 0,
        nontrivial_hashes: HashSet::new(),
        samples_nontrivial: vec![],
        samples_other: vec![],
    };

    if args.cmd == "replay" {
        let text = std::fs::read_to_string(args.ops.as_ref().unwrap())
            .expect("harness: cannot read --ops file");
        for (n, lines) in split_cases(&text) {
            run_one_case(
                args.prop,
                n.unwrap_or(0),
                Plan::Replay {
                    lines,
                    has_case_line: n.is_some(),
                },
                &args.out,
                1,
                &mut totals,
            );
        }
    } else {
        let mut case_no = 0u64;
        if let Some(dir) = &args.corpus {
            let mut files: Vec<PathBuf> = std::fs::read_dir(dir)
                .map(|rd| {
                    rd.filter_map(|e| e.ok().map(|e| e.path()))
                        .filter(|p| p.extension().map(|e| e == "ops").unwrap_or(false))
                        .collect()
                })
                .unwrap_or_default();
            files.sort();
            for f in files {
                let Ok(text) = std::fs::read_to_string(&f) else {
                    continue;
                };
                for (_, lines) in split_cases(&text) {
                    run_one_case(
                        args.prop,
                        case_no,
                        Plan::Replay {
                            lines,
                            has_case_line: true,
                        },
                        &args.out,
                        1,
                        &mut totals,
                    );
                    bump(&mut totals.hist, "corpus_cases", 1);
                    case_no += 1;
                }
            }
        }
        let mut master = rng::Rng::new(args.seed);
        let n_cases = match (args.prop, args.thorough) {
            (Prop::C06, false) => 300,
            (Prop::C06, true) => 2000,
            (_, false) => 400,
            (_, true) => 6000,
        };
        let check_every = if args.thorough { 8 } else { 1 };
        for _ in 0..n_cases {
            let seed = master.next_u64();
            run_one_case(
                args.prop,
                case_no,
                Plan::Gen {
                    seed,
                    thorough: args.thorough,
                },
                &args.out,
                check_every,
                &mut totals,
            );
            case_no += 1;
        }
    }

    let _ = std::fs::remove_dir_all(args.out.join("tmp"));
    write_outputs(&args.out, args.prop, &totals).expect("harness: cannot write outputs");
    // abandoned (hung) workers must not keep the process alive
    std::process::exit(0);
}
