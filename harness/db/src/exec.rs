//! Runs one op against agdb through the public API and formats the canonical output.

use crate::ops::*;
use agdb::*;

/// `DbImpl` (auto-transaction per query) or `TransactionMut` (inside `transaction_mut`)
pub trait Runner {
    fn q<Q: Query>(&self, q: Q) -> Result<QueryResult, DbError>;
    fn qm<Q: QueryMut>(&mut self, q: Q) -> Result<QueryResult, DbError>;
}

impl<S: StorageData> Runner for DbImpl<S> {
    fn q<Q: Query>(&self, q: Q) -> Result<QueryResult, DbError> {
        self.exec(q)
    }
    fn qm<Q: QueryMut>(&mut self, q: Q) -> Result<QueryResult, DbError> {
        self.exec_mut(q)
    }
}

impl<S: StorageData> Runner for TransactionMut<'_, S> {
    fn q<Q: Query>(&self, q: Q) -> Result<QueryResult, DbError> {
        self.exec(q)
    }
    fn qm<Q: QueryMut>(&mut self, q: Q) -> Result<QueryResult, DbError> {
        self.exec_mut(q)
    }
}

fn qids(ids: &[Id]) -> QueryIds {
    QueryIds::Ids(ids.iter().map(|i| i.to_db()).collect())
}

fn kvs(k: &Kvs) -> Vec<DbKeyValue> {
    k.iter()
        .map(|(k, v)| DbKeyValue {
            key: k.to_db(),
            value: v.to_db(),
        })
        .collect()
}

fn qvalues(v: &Values) -> QueryValues {
    match v {
        Values::Single(k) => QueryValues::Single(kvs(k)),
        Values::Multi(l) => QueryValues::Multi(l.iter().map(kvs).collect()),
    }
}

fn dbvals(v: &[Val]) -> Vec<DbValue> {
    v.iter().map(|v| v.to_db()).collect()
}

pub fn search_index_query(k: &Val, v: &Val) -> SearchQuery {
    QueryBuilder::search()
        .index(k.to_db())
        .value(v.to_db())
        .query()
}

/// Executes a query op. Must not be called for case/dump/txn/bad ops.
pub fn exec_op<R: Runner>(r: &mut R, op: &Op) -> Result<QueryResult, DbError> {
    match op {
        Op::InsertNodes {
            count,
            aliases,
            ids,
            values,
        } => r.qm(InsertNodesQuery {
            count: *count,
            values: qvalues(values),
            aliases: aliases.clone(),
            ids: qids(ids),
        }),
        Op::InsertEdges {
            from,
            to,
            ids,
            each,
            values,
        } => r.qm(InsertEdgesQuery {
            from: qids(from),
            to: qids(to),
            ids: qids(ids),
            values: qvalues(values),
            each: *each,
        }),
        Op::InsertValues { ids, values } => r.qm(InsertValuesQuery {
            ids: qids(ids),
            values: qvalues(values),
        }),
        Op::InsertAliases { ids, aliases } => r.qm(InsertAliasesQuery {
            ids: qids(ids),
            aliases: aliases.clone(),
        }),
        Op::Remove { ids } => r.qm(RemoveQuery(qids(ids))),
        Op::RemoveValues { ids, keys } => r.qm(RemoveValuesQuery(SelectValuesQuery {
            keys: dbvals(keys),
            ids: qids(ids),
        })),
        Op::RemoveAliases { aliases } => r.qm(RemoveAliasesQuery(aliases.clone())),
        Op::InsertIndex(k) => r.qm(InsertIndexQuery(k.to_db())),
        Op::RemoveIndex(k) => r.qm(RemoveIndexQuery(k.to_db())),
        Op::SelectValues { ids, keys } => r.q(SelectValuesQuery {
            keys: dbvals(keys),
            ids: qids(ids),
        }),
        Op::SelectKeys { ids } => r.q(SelectKeysQuery(qids(ids))),
        Op::SelectKeyCount { ids } => r.q(SelectKeyCountQuery(qids(ids))),
        Op::SelectEdgeCount { ids, from, to } => r.q(SelectEdgeCountQuery {
            ids: qids(ids),
            from: *from,
            to: *to,
        }),
        Op::SelectNodeCount => r.q(SelectNodeCountQuery {}),
        Op::SelectIndexes => r.q(SelectIndexesQuery {}),
        Op::SelectAliases { ids } => r.q(SelectAliasesQuery(qids(ids))),
        Op::SelectAllAliases => r.q(SelectAllAliasesQuery {}),
        Op::SearchIndex(k, v) => r.q(search_index_query(k, v)),
        Op::Case(_)
        | Op::Dump
        | Op::TxnBegin
        | Op::TxnFail
        | Op::TxnCommit
        | Op::Reopen
        | Op::Bad(_) => Err(
            DbError::query(DbErrorType::NotAllowed, "verif: not a query op"),
        ),
    }
}

pub fn fmt_err(e: &DbError) -> String {
    format!("err:{:?}.{:?}", e.category, e.ty)
}

pub fn fmt_kvs(values: &[DbKeyValue]) -> String {
    if values.is_empty() {
        return "-".to_string();
    }
    values
        .iter()
        .map(|kv| format!("{}={}", db_tok(&kv.key), db_tok(&kv.value)))
        .collect::<Vec<_>>()
        .join(",")
}

pub fn fmt_ok(op: &Op, res: &QueryResult) -> String {
    if let Op::SearchIndex(..) = op {
        let mut ids: Vec<i64> = res.elements.iter().map(|e| e.id.0).collect();
        ids.sort();
        let ids = if ids.is_empty() {
            "-".to_string()
        } else {
            ids.iter()
                .map(|i| i.to_string())
                .collect::<Vec<_>>()
                .join(",")
        };
        return format!("ok {} ids={}", res.result, ids);
    }
    let elems = res
        .elements
        .iter()
        .map(|e| format!("{}:{}:{}:{}", e.id.0, e.from.0, e.to.0, fmt_kvs(&e.values)))
        .collect::<Vec<_>>()
        .join("|");
    format!("ok {} [{}]", res.result, elems)
}

pub fn forced_failure() -> DbError {
    DbError::db(DbErrorType::NotAllowed, "verif: forced failure")
}
