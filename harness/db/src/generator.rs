//! Random history generator. Generation is interleaved with execution: the generator reads
//! the reference state (which follows the ids returned by the implementation) to pick targets.

use crate::ops::*;
use crate::refmodel::Ref;
use crate::rng::Rng;
use std::collections::VecDeque;

#[derive(Clone, Copy, Debug, PartialEq, Eq)]
pub enum Prop {
    C08,
    C09,
    C11,
    C13,
    /// all storage variants agree (runs the generators of the other four, plus `reopen`)
    C06,
}

impl Prop {
    pub fn parse(s: &str) -> Option<Prop> {
        match s {
            "C08" => Some(Prop::C08),
            "C09" => Some(Prop::C09),
            "C11" => Some(Prop::C11),
            "C13" => Some(Prop::C13),
            "C06" => Some(Prop::C06),
            _ => None,
        }
    }
    pub fn name(&self) -> &'static str {
        match self {
            Prop::C08 => "C08",
            Prop::C09 => "C09",
            Prop::C11 => "C11",
            Prop::C13 => "C13",
            Prop::C06 => "C06",
        }
    }
}

#[derive(Clone, Copy, Debug, PartialEq, Eq)]
pub enum Mode {
    Top,
    InTxn,
    /// an op of the open transaction failed: only `skipped` lines and the terminator follow
    Aborted,
}

#[derive(Clone, Copy, Debug, PartialEq, Eq)]
enum Kind {
    InsNodes,
    InsNodesIds,
    InsEdges,
    InsEdgesIds,
    InsValues,
    InsAliases,
    Remove,
    RemoveValues,
    RemoveAliases,
    InsIndex,
    RemIndex,
    SelValues,
    SelKeys,
    SelKeyCount,
    SelEdgeCount,
    SelNodeCount,
    SelIndexes,
    SelAliases,
    SelAllAliases,
    SearchIndex,
    Dump,
    Txn,
    FailingSingle,
}

const KINDS: [Kind; 23] = [
    Kind::InsNodes,
    Kind::InsNodesIds,
    Kind::InsEdges,
    Kind::InsEdgesIds,
    Kind::InsValues,
    Kind::InsAliases,
    Kind::Remove,
    Kind::RemoveValues,
    Kind::RemoveAliases,
    Kind::InsIndex,
    Kind::RemIndex,
    Kind::SelValues,
    Kind::SelKeys,
    Kind::SelKeyCount,
    Kind::SelEdgeCount,
    Kind::SelNodeCount,
    Kind::SelIndexes,
    Kind::SelAliases,
    Kind::SelAllAliases,
    Kind::SearchIndex,
    Kind::Dump,
    Kind::Txn,
    Kind::FailingSingle,
];

//                          IN  INi IE  IEi IV  IA  RM  RV  RA  II  RI  SV  SK  SKC SEC SNC SI  SA  SAA SX  DU  TX  FS
const W_C08: [u32; 23] = [18, 1, 30, 1, 5, 3, 18, 1, 1, 0, 0, 6, 0, 0, 12, 5, 0, 1, 1, 0, 3, 0, 0];
const W_C09: [u32; 23] = [8, 6, 7, 5, 24, 2, 8, 11, 1, 0, 0, 14, 6, 5, 0, 0, 0, 0, 1, 0, 3, 0, 0];
const W_C11: [u32; 23] = [7, 5, 6, 4, 20, 2, 8, 9, 1, 7, 3, 3, 1, 1, 0, 0, 4, 0, 0, 16, 3, 0, 2];
const W_C11_TXN: [u32; 23] = [7, 5, 6, 4, 20, 2, 8, 9, 1, 7, 3, 3, 1, 1, 0, 0, 4, 0, 0, 16, 3, 6, 2];
const W_C13: [u32; 23] = [5, 2, 4, 1, 6, 3, 3, 2, 1, 2, 1, 1, 0, 0, 0, 0, 1, 0, 1, 1, 2, 40, 12];
const W_C13_TXN: [u32; 23] = [9, 8, 8, 3, 26, 15, 12, 9, 3, 5, 4, 1, 0, 0, 0, 0, 0, 0, 0, 1, 1, 0, 4];
const W_C11_INTXN: [u32; 23] = [6, 5, 6, 3, 24, 3, 10, 10, 1, 6, 4, 1, 0, 0, 0, 0, 1, 0, 0, 4, 1, 0, 2];

const ALIAS_POOL: [&str; 6] = ["a", "b", "c", "d", "e", "n1"];

fn key_pool() -> Vec<Val> {
    vec![
        Val::S("k1".into()),
        Val::S("k2".into()),
        Val::S("k3".into()),
        Val::S("k4".into()),
        Val::I(7),
    ]
}

fn val_pool() -> Vec<Val> {
    vec![
        Val::I(0),
        Val::I(1),
        Val::I(2),
        Val::I(-1),
        Val::U(1),
        Val::U(2),
        Val::S("a".into()),
        Val::S(String::new()),
    ]
}

pub struct Generator {
    rng: Rng,
    prop: Prop,
    target_ops: usize,
    emitted: usize,
    txn_left: usize,
    txn_end_fail: bool,
    aborted_extra_done: bool,
    alias_budget: i64,
    since_dump: usize,
    case_has_txn: bool,
    final_dump_done: bool,
    queue: VecDeque<Op>,
    keys: Vec<Val>,
    vals: Vec<Val>,
    /// percentage of top-level positions at which a `reopen` line is emitted
    pub reopen_pct: u64,
    /// emit one `reopen` (followed by selects and the final dump) when the case is about to end
    pub final_reopen: bool,
    final_reopen_done: bool,
    /// C11: indexes created by the plan, in creation order, and the positions at which to remove one
    idx_order: Vec<Val>,
    idx_rm_at: Vec<usize>,
}

impl Generator {
    pub fn new(seed: u64, prop: Prop, thorough: bool) -> Generator {
        let mut rng = Rng::new(seed);
        let target_ops = if thorough {
            rng.range(20, 250) as usize
        } else {
            rng.range(12, 60) as usize
        };
        let case_has_txn = match prop {
            Prop::C11 => rng.pct(25),
            Prop::C13 => true,
            _ => false,
        };
        Generator {
            rng,
            prop,
            target_ops,
            emitted: 0,
            txn_left: 0,
            txn_end_fail: true,
            aborted_extra_done: false,
            alias_budget: 30,
            since_dump: 0,
            case_has_txn,
            final_dump_done: false,
            queue: VecDeque::new(),
            keys: key_pool(),
            vals: val_pool(),
            reopen_pct: 0,
            final_reopen: false,
            final_reopen_done: false,
            idx_order: vec![],
            idx_rm_at: vec![],
        }
    }

    pub fn next(&mut self, refm: &Ref, mode: Mode) -> Option<Op> {
        let op = self.next_inner(refm, mode)?;
        self.emitted += 1;
        if op == Op::Dump {
            self.since_dump = 0;
        } else {
            self.since_dump += 1;
        }
        Some(op)
    }

    fn terminator(&mut self) -> Op {
        if self.rng.pct(50) {
            self.queue.push_back(Op::Dump);
        }
        if self.txn_end_fail {
            Op::TxnFail
        } else {
            Op::TxnCommit
        }
    }

    fn next_inner(&mut self, refm: &Ref, mode: Mode) -> Option<Op> {
        match mode {
            Mode::Aborted => {
                if !self.aborted_extra_done && self.rng.pct(30) {
                    self.aborted_extra_done = true;
                    return Some(self.gen_kind_retry(refm, &W_C13_TXN, true));
                }
                Some(self.terminator())
            }
            Mode::InTxn => {
                if self.txn_left == 0 {
                    return Some(self.terminator());
                }
                self.txn_left -= 1;
                let w = if self.prop == Prop::C13 {
                    &W_C13_TXN
                } else {
                    &W_C11_INTXN
                };
                Some(self.gen_kind_retry(refm, w, true))
            }
            Mode::Top => {
                if let Some(op) = self.queue.pop_front() {
                    return Some(op);
                }
                if self.emitted >= self.target_ops {
                    if self.final_reopen && !self.final_reopen_done {
                        self.final_reopen_done = true;
                        self.queue.push_back(Op::SelectIndexes);
                        if let Some(k) = refm.indexes.iter().next().and_then(|k| Val::parse(k)) {
                            let v = self.value();
                            self.queue.push_back(Op::SearchIndex(k, v));
                        }
                        return Some(Op::Reopen);
                    }
                    if !self.final_dump_done {
                        self.final_dump_done = true;
                        return Some(Op::Dump);
                    }
                    return None;
                }
                if self.emitted == 0 {
                    // an index early in the case so that most of the history runs with it
                    let early_index = match self.prop {
                        Prop::C11 => 75,
                        Prop::C13 => 35,
                        _ => 0,
                    };
                    if self.prop == Prop::C11 && self.rng.pct(70) {
                        // 3-5 indexes, later several of them removed starting with a non-last one
                        let n = self.rng.range(3, 5) as usize;
                        let mut keys = self.keys.clone();
                        while keys.len() > n {
                            let i = self.rng.below(keys.len() as u64) as usize;
                            keys.remove(i);
                        }
                        for _ in 0..keys.len() {
                            let i = self.rng.below(keys.len() as u64) as usize;
                            let j = self.rng.below(keys.len() as u64) as usize;
                            keys.swap(i, j);
                        }
                        for k in &keys {
                            self.queue.push_back(Op::InsertIndex(k.clone()));
                        }
                        self.idx_order = keys;
                        let t1 = self.target_ops * self.rng.range(30, 60) as usize / 100 + 2;
                        let t2 = t1 + self.rng.range(1, 5) as usize;
                        self.idx_rm_at = vec![t1, t2];
                        if self.rng.pct(40) {
                            self.idx_rm_at.push(t2 + self.rng.range(1, 5) as usize);
                        }
                    } else if self.rng.pct(early_index) {
                        let k = self.pool_key();
                        self.queue.push_back(Op::InsertIndex(k));
                    }
                    return Some(self.gen_insert_nodes(refm, false));
                }
                if self.prop == Prop::C08 && self.since_dump >= 10 {
                    return Some(Op::Dump);
                }
                if let Some(&t) = self.idx_rm_at.first()
                    && self.emitted >= t
                {
                    self.idx_rm_at.remove(0);
                    if !self.idx_order.is_empty() {
                        // not the most recently created one while there is a choice
                        let n = self.idx_order.len();
                        let pos = if n >= 2 { self.rng.below(n as u64 - 1) as usize } else { 0 };
                        let k = self.idx_order.remove(pos);
                        return Some(Op::RemoveIndex(k));
                    }
                }
                if self.reopen_pct > 0 && self.rng.pct(self.reopen_pct) {
                    return Some(Op::Reopen);
                }
                let w: &[u32; 23] = match self.prop {
                    Prop::C08 => &W_C08,
                    Prop::C09 => &W_C09,
                    Prop::C11 => {
                        if self.case_has_txn {
                            &W_C11_TXN
                        } else {
                            &W_C11
                        }
                    }
                    Prop::C13 | Prop::C06 => &W_C13,
                };
                Some(self.gen_kind_retry(refm, w, false))
            }
        }
    }

    fn gen_kind_retry(&mut self, refm: &Ref, w: &[u32; 23], in_txn: bool) -> Op {
        for _ in 0..12 {
            let kind = KINDS[self.rng.weighted(w)];
            if let Some(op) = self.gen_kind(kind, refm, in_txn) {
                return op;
            }
        }
        self.gen_insert_nodes(refm, in_txn)
    }

    // ----- pickers -------------------------------------------------------------------------

    fn nodes(refm: &Ref) -> Vec<i64> {
        refm.nodes.iter().copied().collect()
    }

    fn edges(refm: &Ref) -> Vec<i64> {
        refm.edges.keys().map(|e| -*e).collect()
    }

    fn max_abs(refm: &Ref) -> i64 {
        let n = refm.nodes.iter().next_back().copied().unwrap_or(0);
        let e = refm.edges.keys().next_back().copied().unwrap_or(0);
        n.max(e)
    }

    fn unknown_alias(&mut self, refm: &Ref) -> Option<String> {
        let free: Vec<&str> = ALIAS_POOL
            .iter()
            .copied()
            .filter(|a| !refm.aliases.contains_key(*a))
            .collect();
        self.rng.pick(&free).map(|s| s.to_string())
    }

    fn known_alias(&mut self, refm: &Ref) -> Option<String> {
        let known: Vec<&String> = refm.aliases.keys().filter(|a| !a.is_empty()).collect();
        self.rng.pick(&known).map(|s| s.to_string())
    }

    /// a positive id that is not a live node (dead, never used, or the index of an edge)
    fn dead_node_id(&mut self, refm: &Ref) -> i64 {
        let max = Self::max_abs(refm);
        let mut cands: Vec<i64> = (1..=max).filter(|i| !refm.nodes.contains(i)).collect();
        cands.push(max + 1 + self.rng.below(5) as i64);
        cands.push(99);
        *self.rng.pick(&cands).unwrap()
    }

    fn bad_id(&mut self, refm: &Ref) -> Id {
        match self.rng.below(4) {
            0 => Id::Num(0),
            1 => Id::Num(self.dead_node_id(refm)),
            2 => {
                // dead edge id
                let max = Self::max_abs(refm);
                let cands: Vec<i64> = (1..=max + 2)
                    .filter(|i| !refm.edges.contains_key(i))
                    .collect();
                Id::Num(-*self.rng.pick(&cands).unwrap_or(&77))
            }
            _ => match self.unknown_alias(refm) {
                Some(a) => Id::Alias(a),
                None => Id::Num(self.dead_node_id(refm)),
            },
        }
    }

    fn as_id(&mut self, refm: &Ref, id: i64, alias_pct: u64) -> Id {
        if id > 0 && self.rng.pct(alias_pct) {
            if let Some(a) = refm.alias_of(id) {
                if !a.is_empty() {
                    return Id::Alias(a.clone());
                }
            }
        }
        Id::Num(id)
    }

    fn node_id(&mut self, refm: &Ref, bad_pct: u64) -> Id {
        let nodes = Self::nodes(refm);
        if nodes.is_empty() || self.rng.pct(bad_pct) {
            return self.bad_id(refm);
        }
        let n = *self.rng.pick(&nodes).unwrap();
        self.as_id(refm, n, 30)
    }

    fn edge_id(&mut self, refm: &Ref, bad_pct: u64) -> Id {
        let edges = Self::edges(refm);
        if edges.is_empty() || self.rng.pct(bad_pct) {
            return self.bad_id(refm);
        }
        Id::Num(*self.rng.pick(&edges).unwrap())
    }

    fn elem_id(&mut self, refm: &Ref, bad_pct: u64) -> Id {
        if !refm.edges.is_empty() && self.rng.pct(35) {
            self.edge_id(refm, bad_pct)
        } else {
            self.node_id(refm, bad_pct)
        }
    }

    /// element that has at least one value (for replacement / removal of values)
    fn elem_with_values(&mut self, refm: &Ref) -> Option<i64> {
        let c: Vec<i64> = refm
            .values
            .iter()
            .filter(|(_, l)| !l.is_empty())
            .map(|(abs, _)| refm.signed(*abs))
            .filter(|id| refm.is_live(*id))
            .collect();
        self.rng.pick(&c).copied()
    }

    fn distinct_keys(&mut self, n: usize) -> Vec<Val> {
        let mut pool = self.keys.clone();
        let mut out = vec![];
        for _ in 0..n.min(pool.len()) {
            let i = self.rng.below(pool.len() as u64) as usize;
            out.push(pool.swap_remove(i));
        }
        out
    }

    fn value(&mut self) -> Val {
        let i = self.rng.below(self.vals.len() as u64) as usize;
        self.vals[i].clone()
    }

    fn kv_count(&mut self) -> usize {
        [0, 1, 1, 1, 2, 2, 3][self.rng.below(7) as usize]
    }

    /// kv list with distinct keys; with `target` prefer keys the target already has (replacement)
    fn kvs(&mut self, refm: &Ref, target: Option<i64>, replace_pct: u64) -> Kvs {
        let n = self.kv_count();
        let mut keys: Vec<Val> = vec![];
        if let Some(t) = target {
            let existing: Vec<Val> = refm
                .kvs(t)
                .iter()
                .filter_map(|(k, _)| Val::parse(k))
                .collect();
            for k in existing {
                if keys.len() < n.max(1) && self.rng.pct(replace_pct) {
                    keys.push(k);
                }
            }
        }
        for k in self.distinct_keys(n) {
            if keys.len() < n && !keys.contains(&k) {
                keys.push(k);
            }
        }
        // prefer indexed keys sometimes so that index maintenance is exercised
        if matches!(self.prop, Prop::C11 | Prop::C13) && !refm.indexes.is_empty() && self.rng.pct(40) {
            let ix: Vec<Val> = refm.indexes.iter().filter_map(|k| Val::parse(k)).collect();
            if let Some(k) = self.rng.pick(&ix).cloned() {
                if !keys.contains(&k) {
                    if keys.is_empty() {
                        keys.push(k);
                    } else {
                        keys[0] = k;
                    }
                }
            }
        }
        keys.into_iter().map(|k| (k, self.value())).collect()
    }

    fn nonempty_kvs(&mut self, refm: &Ref, target: Option<i64>, replace_pct: u64) -> Kvs {
        for _ in 0..4 {
            let k = self.kvs(refm, target, replace_pct);
            if !k.is_empty() {
                return k;
            }
        }
        let key = self.distinct_keys(1).pop().unwrap();
        vec![(key, self.value())]
    }

    fn replace_pct(&self) -> u64 {
        match self.prop {
            Prop::C13 | Prop::C06 => 75,
            Prop::C09 | Prop::C11 => 50,
            Prop::C08 => 20,
        }
    }

    fn bad_pct(&self) -> u64 {
        8
    }

    fn alias_ok(&self, cost: i64) -> bool {
        self.alias_budget >= cost
    }

    // ----- op generators -------------------------------------------------------------------

    fn gen_insert_nodes(&mut self, refm: &Ref, _in_txn: bool) -> Op {
        let few_values = self.prop == Prop::C08;
        let variant = self.rng.below(10);
        if variant < 4 || (variant < 7 && !self.alias_ok(2)) {
            // count + Single
            let count = self.rng.range(1, 4);
            let values = if few_values && self.rng.pct(70) {
                Values::Single(vec![])
            } else {
                Values::Single(self.kvs(refm, None, 0))
            };
            Op::InsertNodes {
                count,
                aliases: vec![],
                ids: vec![],
                values,
            }
        } else if variant < 7 {
            // aliases (new names create nodes, existing names update the node)
            let n = self.rng.range(1, 2) as usize;
            let mut aliases: Vec<String> = vec![];
            for _ in 0..n {
                let a = if self.rng.pct(75) {
                    self.unknown_alias(refm).or_else(|| self.known_alias(refm))
                } else {
                    self.known_alias(refm).or_else(|| self.unknown_alias(refm))
                };
                if let Some(a) = a {
                    if !aliases.contains(&a) {
                        aliases.push(a);
                    }
                }
            }
            self.alias_budget -= aliases.len() as i64;
            let values = if self.rng.pct(60) {
                Values::Single(self.kvs(refm, None, 0))
            } else {
                let mut lists = vec![];
                let extra = self.rng.below(2) as usize;
                for a in &aliases {
                    let t = refm.aliases.get(a).copied();
                    lists.push(self.kvs(refm, t, 50));
                }
                for _ in 0..extra {
                    lists.push(self.kvs(refm, None, 0));
                }
                // sometimes fewer lists than aliases => error
                if self.rng.pct(8) && !lists.is_empty() {
                    lists.pop();
                }
                Values::Multi(lists)
            };
            Op::InsertNodes {
                count: if self.rng.pct(20) { self.rng.range(0, 3) } else { 0 },
                aliases,
                ids: vec![],
                values,
            }
        } else {
            // Multi values
            let n = self.rng.range(1, 3) as usize;
            let lists = (0..n).map(|_| self.kvs(refm, None, 0)).collect();
            Op::InsertNodes {
                count: if self.rng.pct(25) { self.rng.range(0, 4) } else { 0 },
                aliases: vec![],
                ids: vec![],
                values: Values::Multi(lists),
            }
        }
    }

    fn gen_insert_nodes_ids(&mut self, refm: &Ref) -> Option<Op> {
        if refm.nodes.is_empty() {
            return None;
        }
        let n = self.rng.range(1, 2) as usize;
        let mut ids = vec![];
        let mut targets = vec![];
        for _ in 0..n {
            let id = if self.rng.pct(5) {
                self.edge_id(refm, 0)
            } else {
                self.node_id(refm, self.bad_pct())
            };
            targets.push(refm.resolve(&id));
            ids.push(id);
        }
        let rp = self.replace_pct();
        let values = if self.rng.pct(50) {
            Values::Single(self.nonempty_kvs(refm, targets[0], rp))
        } else {
            let mut lists: Vec<Kvs> = targets
                .iter()
                .map(|t| self.nonempty_kvs(refm, *t, rp))
                .collect();
            if self.rng.pct(10) {
                // mismatching counts => error
                if self.rng.pct(50) {
                    lists.pop();
                } else {
                    lists.push(vec![]);
                }
            }
            Values::Multi(lists)
        };
        let mut aliases = vec![];
        let alias_pct = if self.prop == Prop::C13 { 45 } else { 15 };
        if self.rng.pct(alias_pct) && self.alias_ok(3) {
            // new or stolen alias for the first id
            let a = if self.rng.pct(50) {
                self.known_alias(refm).or_else(|| self.unknown_alias(refm))
            } else {
                self.unknown_alias(refm).or_else(|| self.known_alias(refm))
            };
            if let Some(a) = a {
                aliases.push(a);
                self.alias_budget -= 3;
            }
        }
        let count = if self.rng.pct(10) { self.rng.range(0, 3) } else { 0 };
        Some(Op::InsertNodes {
            count,
            aliases,
            ids,
            values,
        })
    }

    fn gen_insert_edges(&mut self, refm: &Ref) -> Option<Op> {
        if refm.nodes.is_empty() {
            return None;
        }
        let bad = if self.prop == Prop::C08 { 6 } else { 4 };
        let mut endpoint = |g: &mut Generator| -> Id {
            if g.rng.pct(3) {
                g.edge_id(refm, 0)
            } else {
                g.node_id(refm, bad)
            }
        };
        let variant = self.rng.below(10);
        let (from, to, each) = if variant < 4 {
            // single edge (self-loop sometimes)
            let f = endpoint(self);
            let t = if self.rng.pct(20) { f.clone() } else { endpoint(self) };
            (vec![f], vec![t], self.rng.pct(10))
        } else if variant < 6 {
            // parallel edge of an existing one
            let edges: Vec<(i64, i64)> = refm.edges.values().copied().collect();
            match self.rng.pick(&edges) {
                Some((f, t)) => (vec![Id::Num(*f)], vec![Id::Num(*t)], false),
                None => (vec![endpoint(self)], vec![endpoint(self)], false),
            }
        } else if variant < 8 {
            // equal lengths, pairwise or each
            let n = self.rng.range(2, 3) as usize;
            let f = (0..n).map(|_| endpoint(self)).collect();
            let t = (0..n).map(|_| endpoint(self)).collect();
            (f, t, self.rng.pct(40))
        } else {
            // unequal lengths (each assumed), possibly one side empty
            let nf = self.rng.range(1, 3) as usize;
            let mut nt = self.rng.range(0, 3) as usize;
            if nt == nf {
                nt += 1;
            }
            let f = (0..nf).map(|_| endpoint(self)).collect();
            let t = (0..nt).map(|_| endpoint(self)).collect();
            (f, t, self.rng.pct(30))
        };
        let nf = from.len();
        let nt = to.len();
        let count = if each || nf != nt { nf * nt } else { nf };
        let few_values = self.prop == Prop::C08;
        let values = if few_values && self.rng.pct(60) {
            Values::Single(vec![])
        } else if self.rng.pct(65) {
            Values::Single(self.kvs(refm, None, 0))
        } else {
            let mut n = count;
            if self.rng.pct(12) {
                // wrong count => error
                n = if n > 0 && self.rng.pct(50) { n - 1 } else { n + 1 };
            }
            Values::Multi((0..n).map(|_| self.kvs(refm, None, 0)).collect())
        };
        Some(Op::InsertEdges {
            from,
            to,
            ids: vec![],
            each,
            values,
        })
    }

    fn gen_insert_edges_ids(&mut self, refm: &Ref) -> Option<Op> {
        if refm.edges.is_empty() {
            return None;
        }
        let n = self.rng.range(1, 2) as usize;
        let mut ids = vec![];
        let mut targets = vec![];
        for _ in 0..n {
            let id = if self.rng.pct(5) {
                self.node_id(refm, 0)
            } else {
                self.edge_id(refm, self.bad_pct())
            };
            targets.push(refm.resolve(&id));
            ids.push(id);
        }
        let rp = self.replace_pct();
        let values = if self.rng.pct(55) {
            Values::Single(self.nonempty_kvs(refm, targets[0], rp))
        } else {
            let mut lists: Vec<Kvs> = targets
                .iter()
                .map(|t| self.nonempty_kvs(refm, *t, rp))
                .collect();
            if self.rng.pct(10) {
                lists.push(vec![]);
            }
            Values::Multi(lists)
        };
        // from/to are ignored by the implementation when ids are given; exercise that too
        let (from, to) = if self.rng.pct(20) {
            (vec![self.node_id(refm, 0)], vec![self.node_id(refm, 0)])
        } else {
            (vec![], vec![])
        };
        Some(Op::InsertEdges {
            from,
            to,
            ids,
            each: false,
            values,
        })
    }

    fn gen_insert_values(&mut self, refm: &Ref, force_fail: bool) -> Option<Op> {
        let rp = self.replace_pct();
        let n = [1, 1, 1, 2, 2, 3][self.rng.below(6) as usize];
        let mut ids: Vec<Id> = vec![];
        let mut targets = vec![];
        for i in 0..n {
            let id = if i == 0 && self.rng.pct(rp) {
                match self.elem_with_values(refm) {
                    Some(t) => self.as_id(refm, t, 25),
                    None => self.elem_id(refm, self.bad_pct()),
                }
            } else if self.rng.pct(6) {
                Id::Num(0)
            } else if self.rng.pct(5) && self.alias_ok(1) {
                match self.unknown_alias(refm) {
                    Some(a) => Id::Alias(a),
                    None => self.elem_id(refm, self.bad_pct()),
                }
            } else {
                self.elem_id(refm, self.bad_pct())
            };
            // an unknown alias creates a node with that alias: keep it inside the alias budget
            let id = match id {
                Id::Alias(a) if !refm.aliases.contains_key(&a) => {
                    if self.alias_ok(1) {
                        self.alias_budget -= 1;
                        Id::Alias(a)
                    } else {
                        Id::Num(self.dead_node_id(refm))
                    }
                }
                other => other,
            };
            targets.push(refm.resolve(&id));
            ids.push(id);
        }
        if force_fail {
            let dead = Id::Num(self.dead_node_id(refm));
            if ids.len() == 1 {
                ids.push(dead);
                targets.push(None);
            } else {
                let last = ids.len() - 1;
                ids[last] = dead;
                targets[last] = None;
            }
        }
        let values = if self.rng.pct(60) {
            Values::Single(self.nonempty_kvs(refm, targets[0], rp))
        } else {
            let mut lists: Vec<Kvs> = targets
                .iter()
                .map(|t| self.nonempty_kvs(refm, *t, rp))
                .collect();
            if !force_fail && self.rng.pct(8) {
                lists.pop();
            }
            Values::Multi(lists)
        };
        Some(Op::InsertValues { ids, values })
    }

    fn gen_insert_aliases(&mut self, refm: &Ref, force_fail: bool) -> Option<Op> {
        if refm.nodes.is_empty() || !self.alias_ok(3) {
            return None;
        }
        let n = if force_fail { 2 } else { self.rng.range(1, 2) as usize };
        let mut ids = vec![];
        let mut aliases: Vec<String> = vec![];
        let nodes = Self::nodes(refm);
        let aliased: Vec<i64> = nodes
            .iter()
            .copied()
            .filter(|n| refm.alias_of(*n).is_some())
            .collect();
        for _ in 0..n {
            // target: a node, never an edge; prefer nodes that already have an alias (re-assignment)
            let target = if !aliased.is_empty() && self.rng.pct(50) {
                *self.rng.pick(&aliased).unwrap()
            } else if self.rng.pct(6) {
                self.dead_node_id(refm)
            } else {
                *self.rng.pick(&nodes).unwrap()
            };
            let id = self.as_id(refm, target, 20);
            // alias: stolen from another node, or new
            let others: Vec<String> = refm
                .aliases
                .iter()
                .filter(|(a, v)| **v != target && !a.is_empty())
                .map(|(a, _)| a.clone())
                .collect();
            let a = if !others.is_empty() && self.rng.pct(50) {
                self.rng.pick(&others).cloned()
            } else {
                self.unknown_alias(refm).or_else(|| self.rng.pick(&others).cloned())
            };
            let Some(a) = a else { continue };
            if aliases.contains(&a) {
                continue;
            }
            ids.push(id);
            aliases.push(a);
        }
        if ids.is_empty() {
            return None;
        }
        self.alias_budget -= 3 * ids.len() as i64;
        if force_fail {
            // fails part-way: empty alias (or a missing node) after the first pair was applied
            if self.rng.pct(60) {
                ids.push(Id::Num(*self.rng.pick(&nodes).unwrap()));
                aliases.push(String::new());
            } else {
                ids.push(Id::Num(self.dead_node_id(refm)));
                aliases.push(self.unknown_alias(refm).unwrap_or_else(|| "f".to_string()));
            }
        } else if self.rng.pct(5) {
            ids.push(Id::Num(*self.rng.pick(&nodes).unwrap()));
            aliases.push(String::new());
        } else if self.rng.pct(4) {
            // length mismatch => error
            aliases.pop();
        }
        Some(Op::InsertAliases { ids, aliases })
    }

    fn gen_remove(&mut self, refm: &Ref) -> Option<Op> {
        if refm.nodes.is_empty() {
            return None;
        }
        let n = [1, 1, 1, 2, 3][self.rng.below(5) as usize];
        let mut ids = vec![];
        for _ in 0..n {
            let r = self.rng.below(100);
            let id = if r < 35 {
                // node with many edges
                let mut best: Vec<(u64, i64)> = refm
                    .nodes
                    .iter()
                    .map(|n| (refm.out_degree(*n) + refm.in_degree(*n), *n))
                    .collect();
                best.sort();
                best.reverse();
                let top = &best[..best.len().min(3)];
                let pick = top[self.rng.below(top.len() as u64) as usize].1;
                self.as_id(refm, pick, 30)
            } else if r < 60 {
                self.edge_id(refm, self.bad_pct())
            } else {
                self.node_id(refm, 12)
            };
            if let Some(t) = refm.resolve(&id) {
                if refm.alias_of(t).is_some() {
                    self.alias_budget -= 1;
                }
            }
            ids.push(id);
        }
        Some(Op::Remove { ids })
    }

    fn gen_remove_values(&mut self, refm: &Ref, force_fail: bool) -> Option<Op> {
        let first = match self.elem_with_values(refm) {
            Some(t) if self.rng.pct(85) => self.as_id(refm, t, 20),
            _ => self.elem_id(refm, self.bad_pct()),
        };
        let mut ids = vec![first.clone()];
        if self.rng.pct(30) {
            ids.push(self.elem_id(refm, self.bad_pct()));
        }
        if force_fail {
            ids.push(Id::Num(self.dead_node_id(refm)));
        }
        let mut keys: Vec<Val> = vec![];
        if let Some(t) = refm.resolve(&first) {
            for (k, _) in refm.kvs(t) {
                if self.rng.pct(55) {
                    if let Some(k) = Val::parse(k) {
                        keys.push(k);
                    }
                }
            }
        }
        if keys.is_empty() || self.rng.pct(25) {
            for k in self.distinct_keys(1) {
                if !keys.contains(&k) {
                    keys.push(k);
                }
            }
        }
        Some(Op::RemoveValues { ids, keys })
    }

    fn gen_remove_aliases(&mut self, refm: &Ref) -> Option<Op> {
        if !self.alias_ok(1) {
            return None;
        }
        let mut aliases = vec![];
        if let Some(a) = self.known_alias(refm) {
            aliases.push(a);
        }
        if aliases.is_empty() || self.rng.pct(20) {
            if let Some(a) = self.unknown_alias(refm) {
                aliases.push(a);
            }
        }
        if aliases.is_empty() {
            return None;
        }
        self.alias_budget -= aliases.len() as i64;
        Some(Op::RemoveAliases { aliases })
    }

    fn pool_key(&mut self) -> Val {
        let i = self.rng.below(self.keys.len() as u64) as usize;
        self.keys[i].clone()
    }

    fn gen_insert_index(&mut self, refm: &Ref) -> Option<Op> {
        // mostly a key that is not indexed yet, sometimes a duplicate
        let not_indexed: Vec<Val> = self
            .keys
            .iter()
            .filter(|k| !refm.indexes.contains(&k.tok()))
            .cloned()
            .collect();
        let k = if !not_indexed.is_empty() && self.rng.pct(80) {
            self.rng.pick(&not_indexed).cloned().unwrap()
        } else {
            self.pool_key()
        };
        Some(Op::InsertIndex(k))
    }

    fn gen_remove_index(&mut self, refm: &Ref) -> Option<Op> {
        let indexed: Vec<Val> = refm.indexes.iter().filter_map(|k| Val::parse(k)).collect();
        let k = if !indexed.is_empty() && self.rng.pct(80) {
            self.rng.pick(&indexed).cloned().unwrap()
        } else {
            self.pool_key()
        };
        Some(Op::RemoveIndex(k))
    }

    fn gen_select_values(&mut self, refm: &Ref) -> Option<Op> {
        let n = [1, 1, 2, 3][self.rng.below(4) as usize];
        let mut ids = vec![];
        for i in 0..n {
            let id = if i == 0 && self.rng.pct(60) {
                match self.elem_with_values(refm) {
                    Some(t) => self.as_id(refm, t, 25),
                    None => self.elem_id(refm, self.bad_pct()),
                }
            } else {
                self.elem_id(refm, self.bad_pct())
            };
            ids.push(id);
        }
        let keys = if self.rng.pct(50) {
            vec![]
        } else {
            // keys of the first element in shuffled order, sometimes a missing key
            let mut keys: Vec<Val> = vec![];
            if let Some(t) = refm.resolve(&ids[0]) {
                let mut own: Vec<Val> = refm
                    .kvs(t)
                    .iter()
                    .filter_map(|(k, _)| Val::parse(k))
                    .collect();
                while !own.is_empty() {
                    let i = self.rng.below(own.len() as u64) as usize;
                    let k = own.swap_remove(i);
                    if self.rng.pct(70) {
                        keys.push(k);
                    }
                }
            }
            if keys.is_empty() || self.rng.pct(20) {
                for k in self.distinct_keys(1) {
                    if !keys.contains(&k) {
                        let pos = self.rng.below(keys.len() as u64 + 1) as usize;
                        keys.insert(pos, k);
                    }
                }
            }
            keys
        };
        Some(Op::SelectValues { ids, keys })
    }

    fn some_ids(&mut self, refm: &Ref) -> Vec<Id> {
        let n = [1, 1, 2, 3][self.rng.below(4) as usize];
        (0..n).map(|_| self.elem_id(refm, self.bad_pct())).collect()
    }

    fn gen_search_index(&mut self, refm: &Ref) -> Option<Op> {
        let indexed: Vec<Val> = refm.indexes.iter().filter_map(|k| Val::parse(k)).collect();
        let k = if !indexed.is_empty() && self.rng.pct(88) {
            self.rng.pick(&indexed).cloned().unwrap()
        } else {
            self.pool_key()
        };
        // prefer a value that is currently stored under that key
        let kt = k.tok();
        let present: Vec<Val> = refm
            .values
            .values()
            .flat_map(|l| l.iter())
            .filter(|(key, _)| *key == kt)
            .filter_map(|(_, v)| Val::parse(v))
            .collect();
        let v = if !present.is_empty() && self.rng.pct(70) {
            self.rng.pick(&present).cloned().unwrap()
        } else {
            self.value()
        };
        Some(Op::SearchIndex(k, v))
    }

    fn gen_failing_single(&mut self, refm: &Ref) -> Option<Op> {
        match self.rng.below(8) {
            0 | 1 => self.gen_insert_aliases(refm, true),
            2 | 3 => self.gen_insert_values(refm, true),
            4 => self.gen_remove_values(refm, true),
            5 => {
                // second edge has an edge id as destination: first edge is inserted, then the query fails
                let nodes = Self::nodes(refm);
                let edges = Self::edges(refm);
                if nodes.is_empty() || edges.is_empty() {
                    return None;
                }
                let a = *self.rng.pick(&nodes).unwrap();
                let b = *self.rng.pick(&nodes).unwrap();
                let e = *self.rng.pick(&edges).unwrap();
                Some(Op::InsertEdges {
                    from: vec![Id::Num(a), Id::Num(b)],
                    to: vec![Id::Num(b), Id::Num(e)],
                    ids: vec![],
                    each: false,
                    values: Values::Single(self.kvs(refm, None, 0)),
                })
            }
            6 => {
                // Multi values of the wrong count
                let nodes = Self::nodes(refm);
                if nodes.is_empty() {
                    return None;
                }
                let a = *self.rng.pick(&nodes).unwrap();
                let b = *self.rng.pick(&nodes).unwrap();
                Some(Op::InsertEdges {
                    from: vec![Id::Num(a), Id::Num(b)],
                    to: vec![Id::Num(b), Id::Num(a)],
                    ids: vec![],
                    each: false,
                    values: Values::Multi(vec![self.kvs(refm, None, 0)]),
                })
            }
            _ => {
                // insert_nodes ids= with mismatching counts
                let nodes = Self::nodes(refm);
                if nodes.len() < 2 {
                    return None;
                }
                let a = *self.rng.pick(&nodes).unwrap();
                let b = *self.rng.pick(&nodes).unwrap();
                Some(Op::InsertNodes {
                    count: 0,
                    aliases: vec![],
                    ids: vec![Id::Num(a), Id::Num(b)],
                    values: Values::Multi(vec![self.nonempty_kvs(refm, Some(a), 80)]),
                })
            }
        }
    }

    fn gen_kind(&mut self, kind: Kind, refm: &Ref, in_txn: bool) -> Option<Op> {
        match kind {
            Kind::InsNodes => Some(self.gen_insert_nodes(refm, in_txn)),
            Kind::InsNodesIds => self.gen_insert_nodes_ids(refm),
            Kind::InsEdges => self.gen_insert_edges(refm),
            Kind::InsEdgesIds => self.gen_insert_edges_ids(refm),
            Kind::InsValues => self.gen_insert_values(refm, false),
            Kind::InsAliases => self.gen_insert_aliases(refm, false),
            Kind::Remove => self.gen_remove(refm),
            Kind::RemoveValues => self.gen_remove_values(refm, false),
            Kind::RemoveAliases => self.gen_remove_aliases(refm),
            Kind::InsIndex => self.gen_insert_index(refm),
            Kind::RemIndex => self.gen_remove_index(refm),
            Kind::SelValues => self.gen_select_values(refm),
            Kind::SelKeys => Some(Op::SelectKeys {
                ids: self.some_ids(refm),
            }),
            Kind::SelKeyCount => Some(Op::SelectKeyCount {
                ids: self.some_ids(refm),
            }),
            Kind::SelEdgeCount => {
                let n = [1, 1, 2, 3][self.rng.below(4) as usize];
                let ids = (0..n)
                    .map(|_| {
                        if self.rng.pct(10) {
                            self.edge_id(refm, self.bad_pct())
                        } else {
                            self.node_id(refm, self.bad_pct())
                        }
                    })
                    .collect();
                let c = self.rng.below(8);
                let (from, to) = match c {
                    0..=2 => (true, true),
                    3 | 4 => (true, false),
                    5 | 6 => (false, true),
                    _ => (false, false),
                };
                Some(Op::SelectEdgeCount { ids, from, to })
            }
            Kind::SelNodeCount => Some(Op::SelectNodeCount),
            Kind::SelIndexes => Some(Op::SelectIndexes),
            Kind::SelAliases => Some(Op::SelectAliases {
                ids: (0..self.rng.range(1, 2))
                    .map(|_| self.node_id(refm, self.bad_pct()))
                    .collect(),
            }),
            Kind::SelAllAliases => Some(Op::SelectAllAliases),
            Kind::SearchIndex => self.gen_search_index(refm),
            Kind::Dump => Some(Op::Dump),
            Kind::Txn => {
                if in_txn {
                    return None;
                }
                self.txn_left = self.rng.range(1, 8) as usize;
                self.txn_end_fail = match self.prop {
                    Prop::C13 => self.rng.pct(75),
                    _ => true,
                };
                self.aborted_extra_done = false;
                if self.rng.pct(50) {
                    self.queue.push_back(Op::TxnBegin);
                    Some(Op::Dump)
                } else {
                    Some(Op::TxnBegin)
                }
            }
            Kind::FailingSingle => self.gen_failing_single(refm),
        }
    }
}
