//! Shared helpers: PRNG, hex, FNV, CLI, panic capture, output files.
use std::collections::BTreeMap;
use std::collections::HashSet;
use std::fmt::Write as _;
use std::io::Write;

pub struct Rng(pub u64);

impl Rng {
    pub fn new(seed: u64) -> Self {
        Rng(seed ^ 0x9E3779B97F4A7C15)
    }
    pub fn next(&mut self) -> u64 {
        // splitmix64
        self.0 = self.0.wrapping_add(0x9E3779B97F4A7C15);
        let mut z = self.0;
        z = (z ^ (z >> 30)).wrapping_mul(0xBF58476D1CE4E5B9);
        z = (z ^ (z >> 27)).wrapping_mul(0x94D049BB133111EB);
        z ^ (z >> 31)
    }
    pub fn below(&mut self, n: u64) -> u64 {
        if n == 0 { 0 } else { self.next() % n }
    }
    pub fn range(&mut self, lo: u64, hi_incl: u64) -> u64 {
        lo + self.below(hi_incl - lo + 1)
    }
    pub fn chance(&mut self, num: u64, den: u64) -> bool {
        self.below(den) < num
    }
    pub fn bytes(&mut self, n: usize) -> Vec<u8> {
        // small alphabet half of the time so that equal regions occur
        let small = self.chance(1, 2);
        (0..n)
            .map(|_| if small { self.below(4) as u8 + 1 } else { self.next() as u8 })
            .collect()
    }
}

pub fn hex(b: &[u8]) -> String {
    if b.is_empty() {
        return "-".to_string();
    }
    let mut s = String::with_capacity(b.len() * 2);
    for x in b {
        let _ = write!(s, "{:02x}", x);
    }
    s
}

pub fn unhex(s: &str) -> Option<Vec<u8>> {
    if s == "-" {
        return Some(vec![]);
    }
    if s.len() % 2 != 0 {
        return None;
    }
    (0..s.len())
        .step_by(2)
        .map(|i| u8::from_str_radix(&s[i..i + 2], 16).ok())
        .collect()
}

pub struct Fnv(pub u64);
impl Fnv {
    pub fn new() -> Self {
        Fnv(0xcbf29ce484222325)
    }
    pub fn byte(&mut self, b: u8) {
        self.0 ^= b as u64;
        self.0 = self.0.wrapping_mul(0x100000001b3);
    }
    pub fn bytes(&mut self, b: &[u8]) {
        for x in b {
            self.byte(*x);
        }
    }
    /// length-prefixed (8 bytes LE) so that concatenations are unambiguous
    pub fn chunk(&mut self, b: &[u8]) {
        self.bytes(&(b.len() as u64).to_le_bytes());
        self.bytes(b);
    }
}

pub struct Args {
    pub mode: String,
    pub prop: String,
    pub seed: u64,
    pub tier: String,
    pub out: String,
    pub ops: Option<String>,
    pub corpus: Option<String>,
}

pub fn parse_args() -> Args {
    let v: Vec<String> = std::env::args().collect();
    let mut a = Args {
        mode: v.get(1).cloned().unwrap_or_default(),
        prop: String::new(),
        seed: 1,
        tier: "quick".into(),
        out: ".".into(),
        ops: None,
        corpus: None,
    };
    let mut i = 2;
    while i + 1 < v.len() {
        match v[i].as_str() {
            "--prop" => a.prop = v[i + 1].clone(),
            "--seed" => a.seed = v[i + 1].parse().unwrap_or(1),
            "--tier" => a.tier = v[i + 1].clone(),
            "--out" => a.out = v[i + 1].clone(),
            "--ops" => a.ops = Some(v[i + 1].clone()),
            "--corpus" => a.corpus = Some(v[i + 1].clone()),
            _ => {}
        }
        i += 2;
    }
    a
}

/// Collected output of a run.
pub struct Out {
    pub ops: Vec<String>,
    pub impl_out: Vec<String>,
    pub oracle: Vec<serde_json::Value>,
    pub hist: BTreeMap<String, u64>,
    pub samples: Vec<Vec<String>>,
    pub evaluations: u64,
    pub distinct: HashSet<u64>,
    pub nontrivial_rule: String,
    pub extra: BTreeMap<String, serde_json::Value>,
    pub case_no: u64,
    pub case_start: usize,
}

impl Out {
    pub fn new(rule: &str) -> Self {
        Out {
            ops: vec![],
            impl_out: vec![],
            oracle: vec![],
            hist: BTreeMap::new(),
            samples: vec![],
            evaluations: 0,
            distinct: HashSet::new(),
            nontrivial_rule: rule.into(),
            extra: BTreeMap::new(),
            case_no: 0,
            case_start: 0,
        }
    }
    pub fn begin_case(&mut self) {
        self.case_start = self.ops.len();
        let l = format!("case {}", self.case_no);
        self.ops.push(l.clone());
        self.impl_out.push(l);
    }
    pub fn line(&mut self, op: String, out: String) {
        self.ops.push(op);
        self.impl_out.push(out);
    }
    pub fn bump(&mut self, k: &str) {
        *self.hist.entry(k.to_string()).or_insert(0) += 1;
    }
    pub fn violation(&mut self, key: &str, rule: &str, expected: String, observed: String) {
        self.oracle.push(serde_json::json!({
            "case": self.case_no, "line": self.ops.len().saturating_sub(1), "key": key, "rule": rule,
            "expected": expected, "observed": observed}));
    }
    /// finish the current case; `nontrivial` by the stream's rule
    pub fn end_case(&mut self, nontrivial: bool) {
        self.evaluations += 1;
        let case_ops = &self.ops[self.case_start + 1..];
        if nontrivial {
            let mut f = Fnv::new();
            for l in case_ops {
                f.chunk(l.as_bytes());
            }
            self.distinct.insert(f.0);
        }
        if self.samples.len() < 3 && nontrivial {
            self.samples.push(self.ops[self.case_start..].iter().take(40).cloned().collect());
        }
        self.case_no += 1;
    }
    /// append another stream's cases (renumbering them)
    pub fn merge(&mut self, other: Out) {
        let base_line = self.ops.len();
        let base_case = self.case_no;
        for (l, o) in other.ops.iter().zip(other.impl_out.iter()) {
            if let Some(n) = l.strip_prefix("case ") {
                let k: u64 = n.parse().unwrap_or(0) + base_case;
                self.ops.push(format!("case {k}"));
                self.impl_out.push(format!("case {k}"));
            } else {
                self.ops.push(l.clone());
                self.impl_out.push(o.clone());
            }
        }
        for mut v in other.oracle {
            if let Some(l) = v.get("line").and_then(|x| x.as_u64()) { v["line"] = serde_json::json!(l + base_line as u64); }
            if let Some(c) = v.get("case").and_then(|x| x.as_u64()) { v["case"] = serde_json::json!(c + base_case); }
            self.oracle.push(v);
        }
        for (k, v) in other.hist { *self.hist.entry(k).or_insert(0) += v; }
        for s in other.samples { if self.samples.len() < 5 { self.samples.push(s); } }
        self.evaluations += other.evaluations;
        for d in other.distinct { self.distinct.insert(d); }
        self.nontrivial_rule = format!("{} || {}", self.nontrivial_rule, other.nontrivial_rule);
        for (k, v) in other.extra { self.extra.insert(k, v); }
        self.case_no += other.case_no;
    }

    pub fn write(&self, dir: &str) {
        std::fs::create_dir_all(dir).unwrap();
        let mut f = std::fs::File::create(format!("{dir}/ops.txt")).unwrap();
        for l in &self.ops {
            writeln!(f, "{l}").unwrap();
        }
        let mut f = std::fs::File::create(format!("{dir}/impl.txt")).unwrap();
        for l in &self.impl_out {
            writeln!(f, "{l}").unwrap();
        }
        let mut f = std::fs::File::create(format!("{dir}/oracle.jsonl")).unwrap();
        for o in &self.oracle {
            writeln!(f, "{o}").unwrap();
        }
        let mut stats = serde_json::json!({
            "evaluations": self.evaluations,
            "distinct_nontrivial": self.distinct.len(),
            "rule": self.nontrivial_rule,
            "samples": self.samples,
            "histogram": self.hist,
        });
        for (k, v) in &self.extra {
            stats[k] = v.clone();
        }
        std::fs::write(format!("{dir}/stats.json"), serde_json::to_string_pretty(&stats).unwrap()).unwrap();
    }
}

pub fn quiet_panics() {
    std::panic::set_hook(Box::new(|_| {}));
}

/// Runs `f`, mapping a panic to `Err(site)` where site is the panic message's first words.
pub fn guarded<T>(f: impl FnOnce() -> T) -> Result<T, String> {
    match std::panic::catch_unwind(std::panic::AssertUnwindSafe(f)) {
        Ok(v) => Ok(v),
        Err(e) => {
            let msg = if let Some(s) = e.downcast_ref::<&str>() {
                s.to_string()
            } else if let Some(s) = e.downcast_ref::<String>() {
                s.clone()
            } else {
                "?".into()
            };
            Err(msg)
        }
    }
}

pub fn read_op_file(path: &str) -> Vec<String> {
    std::fs::read_to_string(path)
        .unwrap_or_default()
        .lines()
        .map(|l| l.to_string())
        .collect()
}

pub fn corpus_files(dir: &Option<String>) -> Vec<String> {
    let mut v = vec![];
    if let Some(d) = dir {
        if let Ok(rd) = std::fs::read_dir(d) {
            for e in rd.flatten() {
                let p = e.path();
                if p.extension().map(|x| x == "ops").unwrap_or(false) {
                    v.push(p.to_string_lossy().to_string());
                }
            }
        }
    }
    v.sort();
    v
}
