//! Stream `rd` (C23): concurrent `FileStorage::read`s with forced contention on the shared handle
//! (hook H1 `read_locked` pauses the lock holder), replayed schedule-exactly against the model;
//! plus a multi-threaded stress run of read queries on shared `DbFile` / `Db` against a
//! sequential baseline (oracle only).
use crate::common::*;
use agdb::{DbFile, Db, FileStorage, QueryBuilder, StorageData, DbImpl};
use std::collections::BTreeMap;
use std::sync::mpsc::{channel, Receiver, Sender};
use std::sync::{Arc, RwLock};

/// A reader thread that stops at every hook point (`read_locked`: holds the mutex, before the seek;
/// `read_seeked`: after the seek, before the read) and waits for the scheduler.
struct Reader {
    go: Sender<()>,
    at: Receiver<char>,          // 'L' / 'S' pause reports, 'D' = done
    handle: Option<std::thread::JoinHandle<String>>,
    /// model steps still to be answered with `ok` before the thread itself must move
    state: char,                 // 'L' paused holding the lock, 'S' paused after its seek, 'P' private thread paused after its seek with one model step (the seek) still to be consumed
}

pub struct RdRunner {
    dir: String,
    n: u64,
    st: Option<Arc<FileStorage>>,
    readers: BTreeMap<u64, Reader>,
    pub forced_private: u64,
    pub locked: u64,
}

fn res_str(r: Result<Vec<u8>, agdb::DbError>) -> String {
    match r { Ok(b) => hex(&b), Err(_) => "err".into() }
}

impl RdRunner {
    pub fn new(dir: &str) -> Self {
        std::fs::create_dir_all(dir).unwrap();
        RdRunner { dir: dir.into(), n: 0, st: None, readers: BTreeMap::new(), forced_private: 0, locked: 0 }
    }
    fn name(&self) -> String { format!("{}/rd{}", self.dir, self.n) }
    pub fn finish(&mut self) {
        for (_, mut r) in std::mem::take(&mut self.readers) {
            for _ in 0..3 { let _ = r.go.send(()); }
            if let Some(h) = r.handle.take() { let _ = h.join(); }
        }
        self.st = None;
        let _ = std::fs::remove_file(self.name());
        let _ = std::fs::remove_file(format!("{}/.rd{}", self.dir, self.n));
    }
    pub fn step(&mut self, out: &mut Out, line: &str) -> String {
        let t: Vec<&str> = line.split(' ').collect();
        if t.len() < 2 || t[0] != "rd" { return "bad-op".into(); }
        let wait = std::time::Duration::from_secs(10);
        match &t[1..] {
            ["file", hx] => {
                let Some(b) = unhex(hx) else { return "bad-op".into() };
                self.finish();
                self.n += 1;
                std::fs::write(self.name(), &b).unwrap();
                match FileStorage::new(&self.name()) { Ok(s) => { self.st = Some(Arc::new(s)); "ok".into() } Err(_) => "err".into() }
            }
            ["start", th, pos, n] => {
                let (Ok(th), Ok(pos), Ok(n)) = (th.parse::<u64>(), pos.parse::<u64>(), n.parse::<u64>()) else { return "bad-op".into() };
                let Some(st) = self.st.clone() else { return "bad-op".into() };
                if self.readers.contains_key(&th) { return "ok".into(); } // busy: ignored like the model
                let (go_tx, go_rx): (Sender<()>, Receiver<()>) = channel();
                let (at_tx, at_rx) = channel::<char>();
                let at_done = at_tx.clone();
                let handle = std::thread::spawn(move || {
                    agdb::verif::set_fs_hook(Some(Box::new(move |_f, op, _p, _b| {
                        let c = match op { "read_locked" => 'L', "read_seeked" => 'S', _ => return };
                        let _ = at_tx.send(c);
                        let _ = go_rx.recv();
                    })));
                    let r = res_str(st.read(pos, n).map(|b| b.to_vec()));
                    agdb::verif::set_fs_hook(None);
                    let _ = at_done.send('D');
                    r
                });
                let first = at_rx.recv_timeout(wait).unwrap_or('?');
                let state = match first {
                    'L' => { self.locked += 1; 'L' }
                    'S' => { self.forced_private += 1; 'P' }
                    'D' => {
                        // finished without reaching a hook point: the range check rejected it before try_lock
                        out.bump("rd-start-rejected");
                        let res = handle.join().unwrap_or("panic".into());
                        return format!("done {th} {res}");
                    }
                    _ => '?',
                };
                self.readers.insert(th, Reader { go: go_tx, at: at_rx, handle: Some(handle), state });
                out.bump("rd-start");
                "ok".into()
            }
            ["step", th] => {
                let Ok(th) = th.parse::<u64>() else { return "bad-op".into() };
                let Some(r) = self.readers.get_mut(&th) else { return "ok".into() };
                match r.state {
                    'P' => { r.state = 'S'; "ok".into() }                    // the private seek already happened
                    'L' => {
                        let _ = r.go.send(());                                 // perform the seek on the shared handle
                        match r.at.recv_timeout(wait) { Ok('S') => { r.state = 'S'; "ok".into() } other => format!("unexpected:{other:?}") }
                    }
                    'S' => {
                        let _ = r.go.send(());                                 // perform the read
                        let _ = r.at.recv_timeout(wait);
                        let mut r = self.readers.remove(&th).unwrap();
                        let res = r.handle.take().map(|h| h.join().unwrap_or("panic".into())).unwrap_or_default();
                        format!("done {th} {res}")
                    }
                    _ => "unexpected-state".into(),
                }
            }
            _ => "bad-op".into(),
        }
    }
}

fn gen_case(rng: &mut Rng) -> Vec<String> {
    let flen = rng.range(0, 48) as usize;
    let file = rng.bytes(flen);
    let mut v = vec![format!("rd file {}", hex(&file))];
    let rounds = rng.range(1, 6);
    let mut tid = 0u64;
    for _ in 0..rounds {
        let nthreads = rng.range(1, 5);
        let ids: Vec<u64> = (0..nthreads).map(|k| tid + k).collect();
        tid += nthreads;
        let req = |rng: &mut Rng| { let pos = rng.below(flen as u64 + 3); let n = rng.below(flen as u64 + 3 - pos.min(flen as u64)); (pos, n) };
        // all start (first gets the lock), then interleave the steps arbitrarily
        let mut pending: Vec<(u64, u32)> = vec![];
        for id in &ids { let (p, n) = req(rng); v.push(format!("rd start {id} {p} {n}")); pending.push((*id, 2)); if rng.chance(1, 3) { v.push(format!("rd step {id}")); pending.last_mut().unwrap().1 -= 1; } }
        while !pending.is_empty() {
            let k = rng.below(pending.len() as u64) as usize;
            v.push(format!("rd step {}", pending[k].0));
            pending[k].1 -= 1;
            if pending[k].1 == 0 { pending.remove(k); }
        }
    }
    v
}

/// oracle-only stress: many reader threads on one shared database vs the sequential baseline
fn stress<S: StorageData + Send + Sync + 'static>(out: &mut Out, mut db: DbImpl<S>, label: &str, threads: usize, reads: usize, seed: u64) {
    let mut rng = Rng::new(seed);
    let nodes = 60u64;
    let _ = db.exec_mut(QueryBuilder::insert().nodes().count(nodes).values_uniform([("k", 1_i64).into(), ("s", "some longer string value to go out of line").into()]).query());
    for i in 1..nodes { let _ = db.exec_mut(QueryBuilder::insert().edges().from(i as i64).to((i % 7 + 1) as i64).values_uniform([("w", (i as i64)).into()]).query()); }
    for i in 1..=nodes { let vl = rng.range(0, 40) as usize; let _ = db.exec_mut(QueryBuilder::insert().values([[("v", rng.bytes(vl)).into()]]).ids(i as i64).query()); }
    let queries: Vec<u64> = (0..reads).map(|_| rng.next()).collect();
    let run_q = |db: &DbImpl<S>, q: u64| -> String {
        let id = (q % nodes) as i64 + 1;
        let r = match q / 1000 % 4 {
            0 => db.exec(QueryBuilder::select().ids(id).query()).map(|r| format!("{:?}", r.elements)),
            1 => db.exec(QueryBuilder::search().from(id).limit(30).query()).map(|r| format!("{:?}", r.ids())),
            2 => db.exec(QueryBuilder::select().values("v").ids(id).query()).map(|r| format!("{:?}", r.elements)),
            _ => db.exec(QueryBuilder::search().elements().offset(q / 7 % 50).limit(10).query()).map(|r| format!("{:?}", r.ids())),
        };
        match r { Ok(s) => s, Err(e) => format!("err:{}", e.description) }
    };
    let baseline: Vec<String> = queries.iter().map(|q| run_q(&db, *q)).collect();
    let shared = Arc::new(RwLock::new(db));
    let baseline = Arc::new(baseline);
    let queries = Arc::new(queries);
    let mut hs = vec![];
    for t in 0..threads {
        let (shared, baseline, queries) = (shared.clone(), baseline.clone(), queries.clone());
        hs.push(std::thread::spawn(move || {
            let mut bad: Vec<(usize, String, String)> = vec![];
            let g = shared.read().unwrap();
            for k in 0..queries.len() {
                let i = (k * 7 + t * 13) % queries.len();
                let r = guarded(|| {
                    let id = queries[i];
                    let db: &DbImpl<S> = &g;
                    // same closure body as run_q (cannot share a closure across threads by reference here)
                    let idn = (id % 60) as i64 + 1;
                    let r = match id / 1000 % 4 {
                        0 => db.exec(QueryBuilder::select().ids(idn).query()).map(|r| format!("{:?}", r.elements)),
                        1 => db.exec(QueryBuilder::search().from(idn).limit(30).query()).map(|r| format!("{:?}", r.ids())),
                        2 => db.exec(QueryBuilder::select().values("v").ids(idn).query()).map(|r| format!("{:?}", r.elements)),
                        _ => db.exec(QueryBuilder::search().elements().offset(id / 7 % 50).limit(10).query()).map(|r| format!("{:?}", r.ids())),
                    };
                    match r { Ok(s) => s, Err(e) => format!("err:{}", e.description) }
                }).unwrap_or_else(|p| format!("panic:{p}"));
                if r != baseline[i] && bad.len() < 3 { bad.push((i, baseline[i].clone(), r)); }
            }
            bad
        }));
    }
    let mut total_bad = 0;
    for h in hs {
        for (i, want, got) in h.join().unwrap_or_default() {
            total_bad += 1;
            out.violation("C23/concurrent-read-differs/FileStorage::read", &format!("query {i} on shared {label} under {threads} reader threads must equal its sequential result"), want.chars().take(200).collect(), got.chars().take(200).collect());
        }
    }
    out.extra.insert(format!("stress_{label}"), serde_json::json!({"threads": threads, "queries_per_thread": reads, "mismatches": total_bad}));
}

pub fn run(args: &Args) -> Out {
    let mut out = Out::new("a case is a file plus a schedule of concurrent FileStorage::read calls in which the lock holder is paused inside the critical section (hook) while other threads read; non-trivial = at least one read was forced onto the private-handle branch while the shared handle was held; distinct = distinct op-line sequences");
    let thorough = args.tier == "thorough";
    let dir = format!("{}/files", args.out);
    let mut r = RdRunner::new(&dir);
    let mut cases: Vec<Vec<String>> = vec![];
    if args.mode == "replay" {
        let mut cur: Vec<String> = vec![];
        for l in read_op_file(args.ops.as_ref().unwrap()) { if l.starts_with("case ") { if !cur.is_empty() { cases.push(std::mem::take(&mut cur)); } } else { cur.push(l); } }
        if !cur.is_empty() { cases.push(cur); }
    } else {
        let mut rng = Rng::new(args.seed ^ 0x23);
        for _ in 0..(if thorough { 3000 } else { 300 }) { cases.push(gen_case(&mut rng)); }
    }
    for c in cases {
        out.begin_case();
        let before = r.forced_private;
        let mut file: Vec<u8> = vec![];
        let mut reqs: BTreeMap<u64, (u64, u64)> = BTreeMap::new();
        for l in &c {
            let o = r.step(&mut out, l);
            let t: Vec<&str> = l.split(' ').collect();
            if t.len() == 3 && t[1] == "file" { file = unhex(t[2]).unwrap_or_default(); }
            if t.len() == 5 && t[1] == "start" { reqs.entry(t[2].parse().unwrap_or(0)).or_insert((t[3].parse().unwrap_or(0), t[4].parse().unwrap_or(0))); }
            if let Some(rest) = o.strip_prefix("done ") {
                // oracle: sequential result = bytes [pos, pos+n) or the end-of-file error
                let mut it = rest.split(' ');
                let th: u64 = it.next().unwrap().parse().unwrap_or(0);
                let got = it.next().unwrap_or("");
                if let Some((pos, n)) = reqs.remove(&th) {
                    let want = if (pos + n) as usize <= file.len() { hex(&file[pos as usize..(pos + n) as usize]) } else { "err".into() };
                    if got != want { out.violation("C23/concurrent-read-differs/FileStorage::read", &format!("read({pos},{n}) by thread {th} must return its sequential result"), want, got.into()); }
                }
            }
            out.line(l.clone(), o);
        }
        out.end_case(r.forced_private > before);
    }
    r.finish();
    out.extra.insert("reads_with_lock_held".into(), serde_json::json!(r.locked));
    out.extra.insert("reads_forced_to_private_handle".into(), serde_json::json!(r.forced_private));
    if args.mode != "replay" {
        // The stress phase runs in a child process: with a broken read path the database code may read
        // garbage and abort the whole process (huge allocation), which must be reported, not suffered.
        let exe = std::env::current_exe().unwrap();
        let child = std::process::Command::new(exe)
            .args(["stress", "--prop", "C23", "--seed", &args.seed.to_string(), "--tier", &args.tier, "--out", &format!("{}/stress", args.out)])
            .output();
        match child {
            Ok(o) => {
                let sdir = format!("{}/stress", args.out);
                for l in read_op_file(&format!("{sdir}/oracle.jsonl")) {
                    if let Ok(v) = serde_json::from_str::<serde_json::Value>(&l) { out.oracle.push(v); }
                }
                if let Ok(st) = std::fs::read_to_string(format!("{sdir}/stats.json")) {
                    if let Ok(v) = serde_json::from_str::<serde_json::Value>(&st) {
                        for k in ["stress_DbFile", "stress_Db"] { if let Some(x) = v.get(k) { out.extra.insert(k.to_string(), x.clone()); } }
                    }
                }
                if !o.status.success() {
                    let err = String::from_utf8_lossy(&o.stderr);
                    out.violation("C23/concurrent-read-crashed/FileStorage::read", "concurrent read queries on a shared file-backed database must not crash the process", "all reader threads finish".into(), format!("stress child exited {:?}: {}", o.status.code(), err.chars().take(300).collect::<String>()));
                }
                let _ = std::fs::remove_dir_all(&sdir);
            }
            Err(e) => out.violation("C23/stress-not-run/harness", "stress child must start", "started".into(), e.to_string()),
        }
        let _ = std::fs::remove_dir_all(&dir);
    }
    out
}

/// child-process entry: the multi-threaded stress phase only
pub fn run_stress(args: &Args) -> Out {
    let mut out = Out::new("stress");
    let thorough = args.tier == "thorough";
    let dir = format!("{}/files", args.out);
    std::fs::create_dir_all(&dir).unwrap();
    let (threads, reads) = if thorough { (32, 4000) } else { (16, 600) };
    let f1 = format!("{dir}/stress_file.agdb");
    let f2 = format!("{dir}/stress_mmap.agdb");
    for f in [&f1, &f2] { let _ = std::fs::remove_file(f); }
    if let Ok(db) = DbFile::new(&f1) { stress(&mut out, db, "DbFile", threads, reads, args.seed); }
    if let Ok(db) = Db::new(&f2) { stress(&mut out, db, "Db", threads, reads, args.seed + 1); }
    let _ = std::fs::remove_dir_all(&dir);
    out
}
