mod common;
mod rd;
mod st;
mod wal;

fn main() {
    let args = common::parse_args();
    common::quiet_panics();
    if args.mode == "stress" {
        rd::run_stress(&args).write(&args.out);
        return;
    }
    let out = match args.prop.as_str() {
        "C01" => {
            // FileStorage-level cases, then Storage-level cases over a FileStorage with the crash oracle
            let mut a = wal::run(&args);
            if args.mode == "replay" {
                let has_st = common::read_op_file(args.ops.as_ref().unwrap()).iter().any(|l| l.starts_with("st "));
                if has_st { a = st::run(&args); }
            } else {
                let b = st::run(&args);
                a.merge(b);
            }
            a
        }
        "C04" | "C06" => st::run(&args),
        "C23" => rd::run(&args),
        p => {
            eprintln!("unknown property {p}");
            std::process::exit(2);
        }
    };
    out.write(&args.out);
}
