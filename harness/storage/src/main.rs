mod common;
mod rd;
mod st;
mod wal;

fn main() {
    let args = common::parse_args();
    common::quiet_panics();
    let out = match args.prop.as_str() {
        "C01" => wal::run(&args),
        "C04" | "C06" => st::run(&args),
        "C23" => rd::run(&args),
        p => {
            eprintln!("unknown property {p}");
            std::process::exit(2);
        }
    };
    out.write(&args.out);
}
