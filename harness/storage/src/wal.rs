//! Stream `wal` (C01): drives the real `FileStorage` + `WriteAheadLog`, snapshots both files
//! before every mutating fs call (hook H1), reopens every crash state (also torn writes).
use crate::common::*;
use agdb::FileStorage;
use agdb::StorageData;
use std::cell::RefCell;
use std::rc::Rc;

struct Snap {
    data: Vec<u8>,
    wal: Vec<u8>,
    file: &'static str,
    op: &'static str,
    pos: u64,
    bytes: Vec<u8>,
}

pub struct WalRunner {
    dir: String,
    n: u64,
    name: String,
    st: Option<FileStorage>,
    committed: Vec<u8>,
    thorough: bool,
    /// set when a call outside the property's quantifier was issued (write past or across the end)
    out_of_scope: bool,
    pub crash_points: u64,
    pub torn_points: u64,
}

fn wal_name(dir: &str, base: &str) -> String {
    format!("{dir}/.{base}")
}

impl WalRunner {
    pub fn new(dir: &str, thorough: bool) -> Self {
        std::fs::create_dir_all(dir).unwrap();
        WalRunner { dir: dir.into(), n: 0, name: String::new(), st: None, committed: vec![], thorough, out_of_scope: false, crash_points: 0, torn_points: 0 }
    }

    fn paths(&self) -> (String, String) {
        (format!("{}/{}", self.dir, self.name), wal_name(&self.dir, &self.name))
    }

    pub fn reset(&mut self) {
        self.st = None;
        if !self.name.is_empty() {
            let (d, w) = self.paths();
            let _ = std::fs::remove_file(d);
            let _ = std::fs::remove_file(w);
        }
        self.n += 1;
        self.name = format!("f{}", self.n);
        self.committed.clear();
        self.out_of_scope = false;
    }

    /// reopen a crash state in fresh files; returns recovered content or an error text
    fn reopen(&self, data: &[u8], wal: &[u8]) -> Result<Vec<u8>, String> {
        let base = format!("r{}", self.n);
        let d = format!("{}/{}", self.dir, base);
        let w = wal_name(&self.dir, &base);
        std::fs::write(&d, data).unwrap();
        std::fs::write(&w, wal).unwrap();
        let r = guarded(|| -> Result<Vec<u8>, String> {
            let s = FileStorage::new(&d).map_err(|e| format!("err:{}", e.description))?;
            let len = s.len();
            let bytes = s.read(0, len).map_err(|e| format!("err:{}", e.description))?.to_vec();
            drop(s);
            Ok(bytes)
        });
        let res = match r {
            Ok(x) => x,
            Err(p) => Err(format!("panic:{p}")),
        };
        let walrest = std::fs::read(&w).unwrap_or_default();
        let _ = std::fs::remove_file(&d);
        let _ = std::fs::remove_file(&w);
        match res {
            Ok(b) if !walrest.is_empty() => Err(format!("log not empty after reopen ({} bytes), data={}", walrest.len(), hex(&b))),
            x => x,
        }
    }

    fn check_state(&mut self, out: &mut Out, data: &[u8], wal: &[u8], what: &str) {
        if self.out_of_scope {
            return;
        }
        match self.reopen(data, wal) {
            Ok(b) if b == self.committed => {}
            Ok(b) => out.violation(
                "C01/recovered-content-differs/FileStorage::new",
                &format!("reopening the crash state ({what}) must yield the content at the last completed flush"),
                hex(&self.committed),
                hex(&b),
            ),
            Err(e) => out.violation(
                "C01/reopen-fails/FileStorage::new",
                &format!("reopening the crash state ({what}) must succeed"),
                hex(&self.committed),
                e,
            ),
        }
    }

    fn run_logged(&mut self, out: &mut Out, f: impl FnOnce(&mut FileStorage) -> Result<(), agdb::DbError>) -> String {
        let snaps: Rc<RefCell<Vec<Snap>>> = Rc::new(RefCell::new(vec![]));
        let (dp, wp) = self.paths();
        {
            let snaps = snaps.clone();
            let (dp, wp) = (dp.clone(), wp.clone());
            agdb::verif::set_fs_hook(Some(Box::new(move |file, op, pos, bytes| {
                if op == "read_locked" || op == "read_seeked" {
                    return;
                }
                snaps.borrow_mut().push(Snap {
                    data: std::fs::read(&dp).unwrap_or_default(),
                    wal: std::fs::read(&wp).unwrap_or_default(),
                    file,
                    op,
                    pos,
                    bytes: bytes.to_vec(),
                });
            })));
        }
        let mut st = self.st.take().unwrap();
        let r = guarded(|| f(&mut st));
        agdb::verif::set_fs_hook(None);
        self.st = Some(st);
        let snaps = Rc::try_unwrap(snaps).ok().unwrap().into_inner();
        // correspondence digest: every pre-call state, then the final state
        let mut h = Fnv::new();
        for s in &snaps {
            h.chunk(&s.data);
            h.chunk(&s.wal);
        }
        let data = std::fs::read(&dp).unwrap_or_default();
        let wal = std::fs::read(&wp).unwrap_or_default();
        h.chunk(&data);
        h.chunk(&wal);
        // oracle: reopen every crash state (+ torn variants)
        for (i, s) in snaps.iter().enumerate() {
            self.crash_points += 1;
            self.check_state(out, &s.data, &s.wal, &format!("before fs call {i}: {} {} pos={} len={}", s.file, s.op, s.pos, s.bytes.len()));
            if s.op == "set_len" || s.bytes.len() < 2 {
                if s.bytes.len() < 1 { continue; }
            }
            let n = s.bytes.len();
            let ks: Vec<usize> = if self.thorough || n <= 4 { (1..n).collect() } else { vec![1, n / 2, n - 1] };
            for k in ks {
                if k == 0 || k >= n { continue; }
                self.torn_points += 1;
                let (mut d2, mut w2) = (s.data.clone(), s.wal.clone());
                if s.file == "wal" {
                    w2.extend_from_slice(&s.bytes[..k]);
                } else {
                    let p = s.pos as usize;
                    if d2.len() < p + k { d2.resize(p + k, 0); }
                    d2[p..p + k].copy_from_slice(&s.bytes[..k]);
                }
                self.check_state(out, &d2, &w2, &format!("torn fs call {i}: {} {} pos={} after {k} of {n} bytes", s.file, s.op, s.pos));
            }
        }
        let len = self.st.as_ref().unwrap().len();
        match r {
            Ok(Ok(())) => format!("pts={} h={:016x} len={}", snaps.len(), h.0, len),
            Ok(Err(e)) => format!("err:{:?}", e.description),
            Err(_) => "panic".to_string(),
        }
    }

    pub fn step(&mut self, out: &mut Out, line: &str) -> String {
        let t: Vec<&str> = line.split(' ').collect();
        if t.len() < 2 || t[0] != "wal" {
            return "bad-op".into();
        }
        match (t[1], t.len()) {
            ("init", 3) => {
                let Some(b) = unhex(t[2]) else { return "bad-op".into() };
                self.reset();
                let (d, w) = self.paths();
                std::fs::write(&d, &b).unwrap();
                let _ = std::fs::remove_file(&w);
                match FileStorage::new(&d) {
                    Ok(s) => {
                        let l = s.len();
                        self.st = Some(s);
                        self.committed = b;
                        format!("ok len={l}")
                    }
                    Err(e) => format!("err:{}", e.description),
                }
            }
            (_, _) if self.st.is_none() => "bad-op".into(),
            ("write", 4) => {
                let (Ok(pos), Some(b)) = (t[2].parse::<u64>(), unhex(t[3])) else { return "bad-op".into() };
                let l = self.st.as_ref().unwrap().len();
                if !b.is_empty() && pos != l && pos + b.len() as u64 > l {
                    // not a call Storage issues (C04 stream checks that): the rest of this case is outside C01's quantifier
                    self.out_of_scope = true;
                    out.bump("write-out-of-scope");
                }
                out.bump(if b.is_empty() { "write-empty" } else if pos == self.st.as_ref().unwrap().len() { "write-append" } else { "write-inside" });
                self.run_logged(out, |s| s.write(pos, &b))
            }
            ("resize", 3) => {
                let Ok(n) = t[2].parse::<u64>() else { return "bad-op".into() };
                let l = self.st.as_ref().unwrap().len();
                out.bump(if n < l { "resize-shrink" } else if n > l { "resize-grow" } else { "resize-same" });
                self.run_logged(out, |s| s.resize(n))
            }
            ("flush", 2) => {
                out.bump("flush");
                let r = self.run_logged(out, |s| s.flush());
                let (d, _) = self.paths();
                self.committed = std::fs::read(&d).unwrap_or_default();
                r
            }
            ("dump", 2) => {
                let (d, w) = self.paths();
                format!("data={} wal={}", hex(&std::fs::read(&d).unwrap_or_default()), hex(&std::fs::read(&w).unwrap_or_default()))
            }
            ("drop", 2) => {
                out.bump("drop");
                self.st = None; // Drop for FileStorage: apply_wal + clear
                let (d, w) = self.paths();
                let data = std::fs::read(&d).unwrap_or_default();
                let wal = std::fs::read(&w).unwrap_or_default();
                if data != self.committed && !self.out_of_scope {
                    out.violation("C01/drop-content-differs/FileStorage::drop",
                        "dropping the storage with an unfinished transaction must restore the content at the last completed flush",
                        hex(&self.committed), hex(&data));
                }
                match FileStorage::new(&d) {
                    Ok(s) => { self.st = Some(s); }
                    Err(e) => return format!("err:{}", e.description),
                }
                format!("data={} wal={}", hex(&data), hex(&wal))
            }
            _ => "bad-op".into(),
        }
    }
}

/// Generates one well-formed case (op lines).  Bias: same region written twice, zero-length
/// writes, append then overwrite of the appended bytes, shrink then grow, flush in the middle,
/// drop with an unfinished transaction.
pub fn gen_case(rng: &mut Rng, max_ops: u64, malformed: bool) -> Vec<String> {
    let mut v = vec![];
    let init_len = if rng.chance(1, 8) { 0 } else { rng.range(1, 40) as usize };
    let init = rng.bytes(init_len);
    let mut len = init.len() as u64;
    v.push(format!("wal init {}", hex(&init)));
    let nops = rng.range(2, max_ops);
    let mut last_region: Option<(u64, u64)> = None;
    for _ in 0..nops {
        let c = rng.below(100);
        if c < 50 {
            // write
            let (pos, n) = match rng.below(10) {
                0 | 1 if last_region.is_some() && last_region.unwrap().0 + last_region.unwrap().1 <= len => last_region.unwrap(), // same region again
                2 | 3 => (len, rng.range(1, 24)),                            // append
                4 => (rng.below(len + 1), 0),                                // zero-length write
                5 if len > 0 => { let n = rng.range(1, len.min(24)); (len - n, n) } // up to the end exactly
                _ if len > 0 => { let pos = rng.below(len); (pos, rng.range(1, (len - pos).min(24))) }
                _ => (len, rng.range(1, 8)),
            };
            let b = rng.bytes(n as usize);
            v.push(format!("wal write {} {}", pos, hex(&b)));
            if n > 0 { len = len.max(pos + n); last_region = Some((pos, n)); }
        } else if c < 68 {
            let n = match rng.below(4) { 0 => len, 1 => rng.below(len + 1), 2 => len + rng.range(1, 16), _ => rng.below(len + 8) };
            v.push(format!("wal resize {n}"));
            len = n;
        } else if c < 82 {
            v.push("wal flush".into());
        } else if c < 88 {
            v.push("wal drop".into());
            // after drop the content is the committed one; the generator does not know its length,
            // so end the case here to stay well-formed
            v.push("wal dump".into());
            return v;
        } else if c < 92 {
            v.push("wal dump".into());
        } else if malformed && c < 95 {
            // outside the property's quantifier (Storage never issues it): write past the end panics in a debug build
            v.push(format!("wal write {} {}", len + rng.range(1, 5), hex(&rng.bytes(2))));
        } else {
            v.push("wal flush".into());
        }
    }
    v.push("wal dump".into());
    if rng.chance(1, 2) {
        v.push("wal drop".into());
    }
    v
}

pub fn run(args: &Args) -> Out {
    let mut out = Out::new("a case is one initial file content plus a well-formed sequence of FileStorage write/resize/flush/drop calls; non-trivial = it has at least one data-modifying call inside an unfinished transaction (so recovery has something to undo); distinct = distinct op-line sequences");
    let thorough = args.tier == "thorough";
    let mut runner = WalRunner::new(&format!("{}/files", args.out), thorough);
    let mut cases: Vec<Vec<String>> = vec![];
    if args.mode == "replay" {
        let lines = read_op_file(args.ops.as_ref().unwrap());
        let mut cur: Vec<String> = vec![];
        for l in lines {
            if l.starts_with("case ") {
                if !cur.is_empty() { cases.push(std::mem::take(&mut cur)); }
            } else {
                cur.push(l);
            }
        }
        if !cur.is_empty() { cases.push(cur); }
    } else {
        for f in corpus_files(&args.corpus) {
            let c: Vec<String> = read_op_file(&f).into_iter().filter(|l| !l.starts_with("case ") && !l.starts_with('#')).collect();
            cases.push(c);
        }
        let mut rng = Rng::new(args.seed);
        let (n, maxops) = if thorough { (4000, 60) } else { (300, 25) };
        for _ in 0..n {
            cases.push(gen_case(&mut rng, maxops, true));
        }
    }
    for c in cases {
        out.begin_case();
        let mut dirty_in_txn = false;
        let mut nontrivial = false;
        for l in &c {
            let o = runner.step(&mut out, l);
            if l.starts_with("wal write") || l.starts_with("wal resize") { dirty_in_txn = true; }
            if l == "wal flush" { dirty_in_txn = false; }
            if dirty_in_txn { nontrivial = true; }
            out.line(l.clone(), o);
        }
        out.end_case(nontrivial);
    }
    runner.reset();
    out.extra.insert("crash_points_reopened".into(), serde_json::json!(runner.crash_points));
    out.extra.insert("torn_states_reopened".into(), serde_json::json!(runner.torn_points));
    out
}
