//! Stream `st` (C04, C06, and the Storage-level part of C01): drives the real record allocator
//! `Storage<D>` (through the cfg-gated `agdb::verif::VStorage`) over all three back-ends.
use crate::common::*;
use agdb::verif::VStorage;
use agdb::{DbError, FileStorage, FileStorageMemoryMapped, MemoryStorage, StorageData, StorageSlice};
use std::cell::RefCell;
use std::collections::BTreeMap;
use std::rc::Rc;

#[derive(Default)]
pub struct CallLog {
    pub calls: u64,
    pub h: u64,
    pub not_wellformed: Vec<String>,
    pub fail_at: Option<u64>,
}

impl CallLog {
    fn reset(&mut self) {
        self.calls = 0;
        self.h = Fnv::new().0;
    }
}

thread_local! {
    static PENDING_LOG: RefCell<Option<Rc<RefCell<CallLog>>>> = const { RefCell::new(None) };
}

/// `StorageData` wrapper that digests every write/resize/flush call exactly like the model's
/// `fnvCall`, and checks the calls are inside the file or start at its end (C01's hypothesis).
pub struct CheckedData<D: StorageData> {
    inner: D,
    log: Rc<RefCell<CallLog>>,
}

impl<D: StorageData> StorageData for CheckedData<D> {
    fn backup(&self, name: &str) -> Result<(), DbError> { self.inner.backup(name) }
    fn copy(&self, name: &str) -> Result<Self, DbError> {
        Ok(Self { inner: self.inner.copy(name)?, log: self.log.clone() })
    }
    fn flush(&mut self) -> Result<(), DbError> {
        {
            let mut l = self.log.borrow_mut();
            l.calls += 1;
            let mut f = Fnv(l.h);
            f.byte(3);
            l.h = f.0;
        }
        self.inner.flush()
    }
    fn len(&self) -> u64 { self.inner.len() }
    fn name(&self) -> &str { self.inner.name() }
    fn new(name: &str) -> Result<Self, DbError> {
        let log = PENDING_LOG.with(|p| p.borrow().clone()).expect("log");
        Ok(Self { inner: D::new(name)?, log })
    }
    fn read(&'_ self, pos: u64, value_len: u64) -> Result<StorageSlice<'_>, DbError> { self.inner.read(pos, value_len) }
    fn rename(&mut self, new_name: &str) -> Result<(), DbError> { self.inner.rename(new_name) }
    fn resize(&mut self, new_len: u64) -> Result<(), DbError> {
        {
            let mut l = self.log.borrow_mut();
            l.calls += 1;
            let mut f = Fnv(l.h);
            f.byte(2);
            f.bytes(&new_len.to_le_bytes());
            l.h = f.0;
        }
        self.inner.resize(new_len)
    }
    fn write(&mut self, pos: u64, bytes: &[u8]) -> Result<(), DbError> {
        {
            let len = self.inner.len();
            let mut l = self.log.borrow_mut();
            l.calls += 1;
            let mut f = Fnv(l.h);
            f.byte(1);
            f.bytes(&pos.to_le_bytes());
            f.chunk(bytes);
            l.h = f.0;
            let end = pos + bytes.len() as u64;
            if !(end <= len || pos == len) && !bytes.is_empty() {
                l.not_wellformed.push(format!("write pos={pos} n={} len={len}", bytes.len()));
            }
        }
        self.inner.write(pos, bytes)
    }
}

pub trait Persist {
    /// make `D::new(name)` see the current content
    fn persist(&self, name: &str);
    const KIND: &'static str;
}
impl Persist for MemoryStorage {
    fn persist(&self, name: &str) { let _ = self.backup(name); }
    const KIND: &'static str = "memory";
}
impl Persist for FileStorage {
    fn persist(&self, _name: &str) {}
    const KIND: &'static str = "file";
}
impl Persist for FileStorageMemoryMapped {
    fn persist(&self, _name: &str) {}
    const KIND: &'static str = "mmap";
}

pub trait StBackend {
    fn step(&mut self, toks: &[&str]) -> String;
    fn read(&self, idx: u64) -> Result<Vec<u8>, String>;
    fn kind(&self) -> &'static str;
    fn take_not_wellformed(&mut self) -> Vec<String>;
    fn cleanup(&mut self);
    fn files(&self) -> (String, String);
}

pub struct B<D: StorageData + Persist> {
    st: Option<VStorage<CheckedData<D>>>,
    log: Rc<RefCell<CallLog>>,
    dir: String,
    n: u64,
}

fn err_str(e: &DbError) -> String {
    let d = &e.description;
    let kind = if d.contains("not found") { "NotFound" }
        else if d.contains("out of bounds") || d.contains("exceeds") { "OutOfBounds" }
        else if d.contains("Cannot end transaction") || d.contains("higher than the current version") { "NotAllowed" }
        else if d.contains("Invalid version record size") { "NotEnoughData" }
        else { "Other" };
    format!("err:{kind}")
}

impl<D: StorageData + Persist> B<D> {
    pub fn new(dir: &str) -> Self {
        std::fs::create_dir_all(dir).unwrap();
        B { st: None, log: Rc::new(RefCell::new(CallLog::default())), dir: dir.into(), n: 0 }
    }
    fn name(&self) -> String { format!("{}/{}{}", self.dir, D::KIND, self.n) }
    fn remove_files(&self) {
        let _ = std::fs::remove_file(self.name());
        let _ = std::fs::remove_file(format!("{}/.{}{}", self.dir, D::KIND, self.n));
    }
    fn open(&mut self) -> Result<(), DbError> {
        PENDING_LOG.with(|p| *p.borrow_mut() = Some(self.log.clone()));
        let r = VStorage::<CheckedData<D>>::new(&self.name());
        PENDING_LOG.with(|p| *p.borrow_mut() = None);
        self.st = Some(r?);
        Ok(())
    }
    fn tail(&self) -> String {
        let s = self.st.as_ref().unwrap();
        let l = self.log.borrow();
        format!(" len={} txn={} calls={} h={:016x}", s.len(), s.transactions(), l.calls, l.h)
    }
    fn dump(&self) -> String {
        let s = self.st.as_ref().unwrap();
        let recs: Vec<String> = s.records().iter().map(|(i, p, z)| format!("{i}:{p}:{z}")).collect();
        let free: Vec<String> = s.free_regions().iter().map(|(p, z)| format!("{p}:{z}")).collect();
        let len = s.len();
        let data = s.data().read(0, len).map(|b| b.to_vec()).unwrap_or_default();
        let mut f = Fnv::new();
        f.chunk(&data);
        format!("len={} txn={} recs={} free={} dh={:016x}", len, s.transactions(), recs.join(","), free.join(","), f.0)
    }
    fn mutating(&mut self, f: impl FnOnce(&mut VStorage<CheckedData<D>>) -> Result<String, DbError>) -> String {
        self.log.borrow_mut().reset();
        let mut st = self.st.take().unwrap();
        let r = guarded(|| f(&mut st));
        self.st = Some(st);
        let head = match r {
            Ok(Ok(s)) => s,
            Ok(Err(e)) => err_str(&e),
            Err(p) => format!("panic:{}", p.split(' ').take(6).collect::<Vec<_>>().join("_")),
        };
        head + &self.tail()
    }
}

fn pu(s: &str) -> Option<u64> { s.parse::<u64>().ok() }

impl<D: StorageData + Persist> StBackend for B<D> {
    fn kind(&self) -> &'static str { D::KIND }
    fn take_not_wellformed(&mut self) -> Vec<String> { std::mem::take(&mut self.log.borrow_mut().not_wellformed) }
    fn cleanup(&mut self) { self.st = None; self.remove_files(); }
    fn files(&self) -> (String, String) { (self.name(), format!("{}/.{}{}", self.dir, D::KIND, self.n)) }
    fn read(&self, idx: u64) -> Result<Vec<u8>, String> {
        match &self.st {
            Some(s) => s.value_as_bytes(idx).map_err(|e| err_str(&e)),
            None => Err("none".into()),
        }
    }
    fn step(&mut self, t: &[&str]) -> String {
        if t == ["new"] {
            self.st = None;
            self.remove_files();
            self.n += 1;
            self.remove_files();
            self.log.borrow_mut().reset();
            return match self.open() {
                Ok(()) => "ok".to_string() + &self.tail(),
                Err(e) => err_str(&e),
            };
        }
        if self.st.is_none() { return "bad-op".into(); }
        let hexres = |r: Result<Vec<u8>, DbError>| match r { Ok(b) => format!("ok {}", hex(&b)), Err(e) => err_str(&e) };
        match t {
            ["insert", hx] => { let Some(b) = unhex(hx) else { return "bad-op".into() }; self.mutating(|s| s.insert_bytes(&b).map(|i| format!("ok idx={i}"))) }
            ["insert_at", i, off, hx] => { let (Some(i), Some(off), Some(b)) = (pu(i), pu(off), unhex(hx)) else { return "bad-op".into() }; self.mutating(|s| s.insert_bytes_at(i, off, &b).map(|_| "ok".into())) }
            ["move", i, f, to, n] => { let (Some(i), Some(f), Some(to), Some(n)) = (pu(i), pu(f), pu(to), pu(n)) else { return "bad-op".into() }; self.mutating(|s| s.move_at(i, f, to, n).map(|_| "ok".into())) }
            ["remove", i] => { let Some(i) = pu(i) else { return "bad-op".into() }; self.mutating(|s| s.remove(i).map(|_| "ok".into())) }
            ["replace", i, hx] => { let (Some(i), Some(b)) = (pu(i), unhex(hx)) else { return "bad-op".into() }; self.mutating(|s| s.replace_with_bytes(i, &b).map(|_| "ok".into())) }
            ["resize", i, n] => { let (Some(i), Some(n)) = (pu(i), pu(n)) else { return "bad-op".into() }; self.mutating(|s| s.resize_value(i, n).map(|_| "ok".into())) }
            ["optimize"] => self.mutating(|s| s.optimize_storage().map(|_| "ok".into())),
            ["begin"] => self.mutating(|s| Ok(format!("ok id={}", s.transaction()))),
            ["commit", id] => { let Some(id) = pu(id) else { return "bad-op".into() }; self.mutating(|s| s.commit(id).map(|_| "ok".into())) }
            ["read", i] => { let Some(i) = pu(i) else { return "bad-op".into() }; hexres(self.st.as_ref().unwrap().value_as_bytes(i)) }
            ["read_at", i, off, n] => { let (Some(i), Some(off), Some(n)) = (pu(i), pu(off), pu(n)) else { return "bad-op".into() }; hexres(self.st.as_ref().unwrap().value_as_bytes_at_size(i, off, n)) }
            ["size", i] => { let Some(i) = pu(i) else { return "bad-op".into() }; match self.st.as_ref().unwrap().value_size(i) { Ok(n) => format!("ok {n}"), Err(e) => err_str(&e) } }
            ["dump"] => self.dump(),
            ["data"] => { let s = self.st.as_ref().unwrap(); format!("data={}", hex(&s.data().read(0, s.len()).map(|b| b.to_vec()).unwrap_or_default())) }
            ["reopen"] => {
                if self.st.as_ref().unwrap().transactions() != 0 { return "bad-op".into(); }
                self.st.as_ref().unwrap().data().inner.persist(&self.name());
                self.st = None;
                match self.open() { Ok(()) => format!("ok {}", self.dump()), Err(e) => err_str(&e) }
            }
            _ => "bad-op".into(),
        }
    }
}

/// Independent reference: index -> bytes, written from the documentation of the operations.
#[derive(Default)]
pub struct Reference {
    pub live: BTreeMap<u64, Vec<u8>>,
    pub removed: Vec<u64>,
    pub removed_sizes: Vec<usize>,
}

impl Reference {
    /// applies a *successful* op
    fn apply(&mut self, t: &[&str], out: &str) {
        let pu = |s: &str| s.parse::<u64>().unwrap_or(0);
        match t {
            ["new"] => { self.live.clear(); self.removed.clear(); self.removed_sizes.clear(); }
            ["insert", hx] => {
                if let Some(i) = out.strip_prefix("ok idx=").and_then(|r| r.split(' ').next()).and_then(|x| x.parse::<u64>().ok()) {
                    self.removed.retain(|x| *x != i);
                    self.live.insert(i, unhex(hx).unwrap());
                }
            }
            ["insert_at", i, off, hx] => {
                let b = unhex(hx).unwrap();
                if let Some(v) = self.live.get_mut(&pu(i)) {
                    let off = pu(off) as usize;
                    if v.len() < off + b.len() { v.resize(off + b.len(), 0); }
                    v[off..off + b.len()].copy_from_slice(&b);
                }
            }
            ["move", i, f, to, n] => {
                let (f, to, n) = (pu(f) as usize, pu(to) as usize, pu(n) as usize);
                if let Some(v) = self.live.get_mut(&pu(i)) {
                    let src: Vec<u8> = v[f..f + n].to_vec();
                    if v.len() < to + n { v.resize(to + n, 0); }
                    // vacated source bytes (those not covered by the destination) become zero
                    for k in f..f + n { if !(k >= to && k < to + n) { v[k] = 0; } }
                    v[to..to + n].copy_from_slice(&src);
                }
            }
            ["remove", i] => { if let Some(v) = self.live.remove(&pu(i)) { self.removed.push(pu(i)); self.removed_sizes.push(v.len()); } }
            ["replace", i, hx] => { if let Some(v) = self.live.get_mut(&pu(i)) { *v = unhex(hx).unwrap(); } }
            ["resize", i, n] => { if let Some(v) = self.live.get_mut(&pu(i)) { v.resize(pu(n) as usize, 0); } }
            _ => {}
        }
    }
}

pub struct StRunner {
    pub backends: Vec<Box<dyn StBackend>>,
    pub reference: Reference,
    pub depth: Vec<u64>,
    pub prop: String,
    pub dir: String,
    pub committed: Vec<u8>,
    pub committed2: Vec<u8>,
    pub crash_points: u64,
    pub torn_points: u64,
    pub thorough: bool,
}

impl StRunner {
    pub fn new(dir: &str, prop: &str) -> Self {
        StRunner {
            backends: vec![
                Box::new(B::<MemoryStorage>::new(dir)),
                Box::new(B::<FileStorage>::new(dir)),
                Box::new(B::<FileStorageMemoryMapped>::new(dir)),
            ],
            reference: Reference::default(),
            depth: vec![],
            prop: prop.into(),
            dir: dir.into(),
            committed: vec![],
            committed2: vec![],
            crash_points: 0,
            torn_points: 0,
            thorough: false,
        }
    }

    pub fn step(&mut self, out: &mut Out, line: &str) -> String {
        let t: Vec<&str> = line.split(' ').collect();
        if t.len() < 2 || t[0] != "st" { return "bad-op".into(); }
        let t = &t[1..];
        let crash = self.prop == "C01";
        let mut outs: Vec<String> = vec![];
        for k in 0..self.backends.len() {
            if crash && k >= 1 {
                outs.push(self.step_file_with_crash_oracle(out, t, line, k));
            } else {
                let b = &mut self.backends[k];
                outs.push(guarded(|| b.step(t)).unwrap_or_else(|p| format!("panic:{}", p.split(' ').take(6).collect::<Vec<_>>().join("_"))));
            }
        }
        let o0 = outs[0].clone();
        out.bump(&format!("st-{}", t[0]));
        if o0.starts_with("err:") { out.bump(&format!("st-{}", o0.split(' ').next().unwrap())); }
        // C06 oracle: all back-ends agree on every output (results, sizes, call traces, record tables, bytes)
        for (k, o) in outs.iter().enumerate().skip(1) {
            if *o != o0 {
                let key = if self.prop == "C06" { "C06/backend-divergence/StorageData" } else { "C04/backend-divergence/StorageData" };
                out.violation(key, &format!("back-end {} must behave like the in-memory back-end for `{line}`", self.backends[k].kind()), o0.clone(), o.clone());
            }
        }
        // C01 hypothesis: calls issued by Storage are inside the file or start at its end
        for b in self.backends.iter_mut() {
            for w in b.take_not_wellformed() {
                out.violation(&format!("{}/storage-call-straddles-end/Storage", self.prop), "every StorageData::write issued by Storage lies inside the file or starts exactly at its end (hypothesis of the C01 theorem)", "inside or at end".into(), w);
            }
        }
        // C04 oracle: reference map
        let ok = o0.starts_with("ok");
        let mutating = matches!(t[0], "new" | "insert" | "insert_at" | "move" | "remove" | "replace" | "resize" | "optimize" | "reopen");
        if o0.starts_with("panic") {
            out.violation(&format!("{}/panic/Storage::{}", self.prop, t[0]), "storage operations on valid arguments do not panic", "ok or err".into(), o0.clone());
        }
        if ok { self.reference.apply(t, &o0); }
        if t[0] == "begin" && ok { if let Some(id) = o0.strip_prefix("ok id=").and_then(|r| r.split(' ').next()).and_then(|x| x.parse().ok()) { self.depth.push(id); } }
        if t[0] == "commit" && ok { self.depth.pop(); }
        if t[0] == "new" { self.depth.clear(); }
        if mutating && (self.prop == "C04" || self.prop == "C06") {
            for (i, v) in &self.reference.live {
                for b in self.backends.iter() {
                    match guarded(|| b.read(*i)).unwrap_or_else(|p| Err(format!("panic:{p}"))) {
                        Ok(x) if x == *v => {}
                        other => {
                            out.violation("C04/live-value-differs/Storage", &format!("live value {i} must read back as last written after `{line}` ({})", b.kind()), hex(v), format!("{:?}", other.map(|x| hex(&x))));
                            break;
                        }
                    }
                }
            }
            for i in &self.reference.removed {
                if let Ok(Ok(x)) = guarded(|| self.backends[0].read(*i)) {
                    out.violation("C04/removed-value-readable/Storage", &format!("removed value {i} must not be readable after `{line}`"), "err:NotFound".into(), hex(&x));
                }
            }
            if t[0] == "optimize" && ok && self.depth.is_empty() {
                // after defragmentation the file holds no unused space
                let want: u64 = 24 + self.reference.live.values().map(|v| 16 + v.len() as u64).sum::<u64>();
                let got = o0.split(' ').find_map(|x| x.strip_prefix("len=")).and_then(|x| x.parse::<u64>().ok()).unwrap_or(0);
                if got != want {
                    out.violation("C04/optimize-not-compact/Storage::optimize_storage", "after optimize the file length is 24 + sum(16 + size) over live values", want.to_string(), got.to_string());
                }
            }
        }
        o0
    }

    pub fn cleanup(&mut self) { for b in self.backends.iter_mut() { b.cleanup(); } }

    /// C01 at the Storage level: run the op on the real FileStorage-backed Storage with the fs hook
    /// installed; every pre-call state (and torn variants) must reopen to the data-file content at
    /// the last moment the implementation's own transaction depth was 0.
    fn step_file_with_crash_oracle(&mut self, out: &mut Out, t: &[&str], line: &str, bk: usize) -> String {
        use std::cell::RefCell;
        use std::rc::Rc;
        let snaps: Rc<RefCell<Vec<(Vec<u8>, Vec<u8>, &'static str, &'static str, u64, Vec<u8>)>>> = Rc::new(RefCell::new(vec![]));
        let is_new = t[0] == "new";
        if !is_new {
            let (dp, wp) = self.backends[bk].files();
            let sn = snaps.clone();
            agdb::verif::set_fs_hook(Some(Box::new(move |file, op, pos, bytes| {
                if op == "read_locked" || op == "read_seeked" { return; }
                sn.borrow_mut().push((std::fs::read(&dp).unwrap_or_default(), std::fs::read(&wp).unwrap_or_default(), file, op, pos, bytes.to_vec()));
            })));
        }
        let o = { let b = &mut self.backends[bk]; guarded(|| b.step(t)).unwrap_or_else(|p| format!("panic:{}", p.split(' ').take(6).collect::<Vec<_>>().join("_"))) };
        agdb::verif::set_fs_hook(None);
        let snaps = Rc::try_unwrap(snaps).ok().unwrap().into_inner();
        if !(t[0] == "reopen") {
            for (i, (d, w, file, op, pos, bytes)) in snaps.iter().enumerate() {
                self.crash_points += 1;
                self.check_reopen(out, bk, d, w, &format!("`{line}` before fs call {i}: {file} {op} pos={pos} len={}", bytes.len()));
                let n = bytes.len();
                if n < 2 { continue; }
                let ks: Vec<usize> = if self.thorough || n <= 4 { (1..n).collect() } else { vec![1, n / 2, n - 1] };
                for k in ks {
                    self.torn_points += 1;
                    let (mut d2, mut w2) = (d.clone(), w.clone());
                    if *file == "wal" { w2.extend_from_slice(&bytes[..k]); } else {
                        let p = *pos as usize;
                        if d2.len() < p + k { d2.resize(p + k, 0); }
                        d2[p..p + k].copy_from_slice(&bytes[..k]);
                    }
                    self.check_reopen(out, bk, &d2, &w2, &format!("`{line}` torn fs call {i}: {file} {op} pos={pos} after {k} of {n} bytes"));
                }
            }
        }
        // the implementation's own depth decides what "committed" means
        let txn0 = o.split(' ').any(|x| x == "txn=0");
        if txn0 || is_new {
            let (dp, _) = self.backends[bk].files();
            let c = std::fs::read(&dp).unwrap_or_default();
            if bk == 1 { self.committed = c; } else { self.committed2 = c; }
        }
        o
    }

    fn check_reopen(&mut self, out: &mut Out, bk: usize, data: &[u8], wal: &[u8], what: &str) {
        let committed = if bk == 1 { self.committed.clone() } else { self.committed2.clone() };
        let base = format!("{}/crashcopy", self.dir);
        let wp = format!("{}/.crashcopy", self.dir);
        std::fs::write(&base, data).unwrap();
        std::fs::write(&wp, wal).unwrap();
        let r = guarded(|| -> Result<Vec<u8>, String> {
            if bk == 1 {
                let s = FileStorage::new(&base).map_err(|e| format!("err:{}", e.description))?;
                let len = s.len();
                Ok(s.read(0, len).map_err(|e| format!("err:{}", e.description))?.to_vec())
            } else {
                let s = FileStorageMemoryMapped::new(&base).map_err(|e| format!("err:{}", e.description))?;
                let len = s.len();
                Ok(s.read(0, len).map_err(|e| format!("err:{}", e.description))?.to_vec())
            }
        });
        let _ = std::fs::remove_file(&base);
        let _ = std::fs::remove_file(&wp);
        match r {
            Ok(Ok(b)) if b == committed => {}
            Ok(Ok(b)) => out.violation("C01/recovered-content-differs/Storage", &format!("crash state ({what}) must reopen to the content at the last completed outermost storage transaction"), format!("{} bytes fnv={:016x}", committed.len(), { let mut f = Fnv::new(); f.bytes(&committed); f.0 }), format!("{} bytes fnv={:016x}", b.len(), { let mut f = Fnv::new(); f.bytes(&b); f.0 })),
            Ok(Err(e)) => out.violation("C01/reopen-fails/Storage", &format!("crash state ({what}) must reopen"), "ok".into(), e),
            Err(p) => out.violation("C01/reopen-panics/Storage", &format!("crash state ({what}) must reopen"), "ok".into(), p),
        }
    }
}

/// next generated op given what is live
pub fn gen_op(rng: &mut Rng, r: &Reference, depth: &Vec<u64>, started: bool, big: bool) -> String {
    if !started { return "st new".into(); }
    let live: Vec<u64> = r.live.keys().cloned().collect();
    let pick = |rng: &mut Rng| -> u64 {
        if live.is_empty() || rng.chance(1, 25) {
            // missing / removed / zero index
            match rng.below(3) { 0 => 0, 1 => r.removed.last().cloned().unwrap_or(99), _ => 1000 + rng.below(5) }
        } else { live[rng.below(live.len() as u64) as usize] }
    };
    let removed_sizes: Vec<usize> = r.removed_sizes.iter().rev().take(4).cloned().collect();
    let size = |rng: &mut Rng| -> usize {
        if big { return match rng.below(6) { 0 => rng.range(1, 40) as usize, 1 => 4096, _ => rng.range(200, 2000) as usize }; }
        // space reuse: often ask for exactly (or nearly) the size of something removed recently
        if !removed_sizes.is_empty() && rng.chance(1, 3) {
            let z = removed_sizes[rng.below(removed_sizes.len() as u64) as usize];
            return match rng.below(4) { 0 => z, 1 => z.saturating_sub(16), 2 => z + 16, _ => z };
        }
        match rng.below(10) { 0 => 0, 1 => 16, 2 => rng.range(15, 17) as usize, 3 => rng.range(30, 80) as usize, _ => rng.range(1, 24) as usize }
    };
    let c = if big && !live.is_empty() && rng.chance(1, 2) {
        // big files: piecewise reads and in-place rewrites across page boundaries
        [84u64, 86, 40, 30][rng.below(4) as usize]
    } else { rng.below(100) };
    if c < 24 || live.is_empty() && c < 60 { format!("st insert {}", { let n = size(rng); hex(&rng.bytes(n)) }) }
    else if c < 36 {
        let i = pick(rng);
        let cur = r.live.get(&i).map(|v| v.len()).unwrap_or(4) as u64;
        let off = match rng.below(4) { 0 => cur, 1 => cur + rng.range(1, 20), _ => rng.below(cur + 1) };
        format!("st insert_at {i} {off} {}", { let n = size(rng); hex(&rng.bytes(n)) })
    } else if c < 46 {
        let i = pick(rng);
        // in big mode mostly rewrite in place with the same length
        let n = if big && rng.chance(3, 4) { r.live.get(&i).map(|v| v.len()).unwrap_or(8) } else { size(rng) };
        format!("st replace {i} {}", hex(&rng.bytes(n)))
    }
    else if c < 56 {
        let i = pick(rng);
        let cur = r.live.get(&i).map(|v| v.len()).unwrap_or(4) as u64;
        let n = match rng.below(5) { 0 => cur, 1 => cur.saturating_sub(rng.range(1, 20)), 2 => cur + 16, 3 => cur.saturating_sub(16), _ => cur + rng.range(1, 40) };
        format!("st resize {i} {n}")
    } else if c < 64 {
        let i = pick(rng);
        let cur = r.live.get(&i).map(|v| v.len()).unwrap_or(4) as u64;
        let n = rng.below(cur + 1);
        let f = rng.below(cur - n + 1);
        let to = if rng.chance(1, 6) { cur + rng.below(8) } else { rng.below(cur + 2) };
        let (f, n) = if rng.chance(1, 20) { (cur, 3) } else { (f, n) }; // out of bounds read -> error
        format!("st move {i} {f} {to} {n}")
    } else if c < 78 { format!("st remove {}", pick(rng)) }
    else if c < 81 { "st optimize".into() }
    else if c < 86 { format!("st read {}", pick(rng)) }
    else if c < 88 { let i = pick(rng); let cur = r.live.get(&i).map(|v| v.len()).unwrap_or(4) as u64; let off = rng.below(cur + 2); let n = if big { rng.below(64.min(cur + 2)) } else { rng.below(cur + 2) }; format!("st read_at {i} {off} {n}") }
    else if c < 90 { format!("st size {}", pick(rng)) }
    else if c < 93 { "st begin".into() }
    else if c < 96 { match depth.last() { Some(id) => format!("st commit {}", if rng.chance(1, 10) { id + 1 } else { *id }), None => "st begin".into() } }
    else if c < 98 { if depth.is_empty() { "st reopen".into() } else { format!("st commit {}", depth.last().unwrap()) } }
    else { "st dump".into() }
}

pub fn run(args: &Args) -> Out {
    let mut out = Out::new("a case is a sequence of Storage operations (insert, insert_at incl. beyond end, replace, resize, move, remove, optimize, reopen, nested begin/commit) run on all three back-ends; non-trivial = at least one value was removed or resized while another value was live (space reuse possible); distinct = distinct op-line sequences");
    let thorough = args.tier == "thorough";
    let mut runner = StRunner::new(&format!("{}/files", args.out), &args.prop);
    runner.thorough = thorough;
    let mut fixed: Vec<Vec<String>> = vec![];
    if args.mode == "replay" {
        let mut cur: Vec<String> = vec![];
        for l in read_op_file(args.ops.as_ref().unwrap()) {
            if l.starts_with("case ") { if !cur.is_empty() { fixed.push(std::mem::take(&mut cur)); } } else { cur.push(l); }
        }
        if !cur.is_empty() { fixed.push(cur); }
    } else {
        for f in corpus_files(&args.corpus) {
            fixed.push(read_op_file(&f).into_iter().filter(|l| l.starts_with("st ")).collect());
        }
    }
    let run_fixed = |runner: &mut StRunner, out: &mut Out, c: &Vec<String>| {
        out.begin_case();
        let mut nt = false;
        for l in c {
            let o = runner.step(out, l);
            if (l.starts_with("st remove") || l.starts_with("st resize") || l.starts_with("st replace")) && o.starts_with("ok") && runner.reference.live.len() >= 1 { nt = true; }
            out.line(l.clone(), o);
        }
        out.end_case(nt);
    };
    for c in &fixed { run_fixed(&mut runner, &mut out, c); }
    if args.mode != "replay" {
        let mut rng = Rng::new(args.seed ^ 0x5704);
        let (n, maxops) = if args.prop == "C01" { if thorough { (600, 80) } else { (60, 30) } } else if thorough { (3000, 300) } else { (250, 60) };
        for _ in 0..n {
            out.begin_case();
            let big = args.prop != "C01" && rng.chance(1, 10);
            let nops = if big { rng.range(40, 90) } else { rng.range(5, maxops) };
            if big { out.bump("st-case-big-file"); }
            let mut nt = false;
            let mut started = false;
            for _ in 0..nops {
                let l = gen_op(&mut rng, &runner.reference, &runner.depth, started, big);
                started = true;
                let o = runner.step(&mut out, &l);
                if (l.starts_with("st remove") || l.starts_with("st resize") || l.starts_with("st replace")) && o.starts_with("ok") && runner.reference.live.len() >= 1 { nt = true; }
                out.line(l, o);
            }
            // close the case with a full dump (record table, free list, bytes)
            let l = "st dump".to_string();
            let o = runner.step(&mut out, &l);
            out.line(l, o);
            out.end_case(nt);
        }
    }
    runner.cleanup();
    if args.prop == "C01" {
        out.extra.insert("storage_level_crash_points_reopened".into(), serde_json::json!(runner.crash_points));
        out.extra.insert("storage_level_torn_states_reopened".into(), serde_json::json!(runner.torn_points));
    }
    out
}
