#!/bin/sh
# manual build helper (vlib does the same): ./build.sh [repo]
REPO=${1:-${VERIF_REPO:-/repo}}
cd "$(dirname "$0")"
sed "s#@REPO@#$REPO#g" Cargo.toml.in > Cargo.toml
cp "$REPO/Cargo.lock" Cargo.lock
RUSTFLAGS="--cfg agdb_verif -Awarnings" CARGO_NET_OFFLINE=true cargo build --offline --target-dir ${2:-/verif/.target/crash} 2>&1 | grep -E "^error|^warning: unused|-->|Finished|cannot|expected|found" | head -80
