//! C03 / C02 / C32: crash points and injected write failures on query histories.

use crate::Out;
use crate::dump::Dump;
use crate::dump::dump;
use crate::dump::fnv;
use crate::guard::Bad;
use crate::guard::guarded;
use crate::guard::Worker;
use crate::queries::Live;
use crate::queries::Step;
use crate::queries::gen_step;
use crate::rng::Rng;
use crate::store::CTL;
use crate::store::CrashStorage;
use crate::store::Fault;
use crate::store::wal_name;
use agdb::Db;
use agdb::DbFile;
use agdb::DbImpl;
use std::collections::HashMap;
use std::time::Duration;

#[derive(Clone, Debug)]
pub enum Reopen {
    Ok(Dump),
    OpenErr(String),
    Bad(Bad),
}

impl Reopen {
    /// one letter: o ok+readable, R opened but read errors, E open error, P panic, H hugealloc, T timeout
    pub fn letter(&self) -> char {
        match self {
            Reopen::Ok(d) => {
                if d.read_errors.is_empty() {
                    'o'
                } else {
                    'R'
                }
            }
            Reopen::OpenErr(_) => 'E',
            Reopen::Bad(Bad::Panic(_)) => 'P',
            Reopen::Bad(Bad::HugeAlloc(..)) => 'H',
            Reopen::Bad(Bad::Timeout) => 'T',
        }
    }
    pub fn text(&self) -> String {
        match self {
            Reopen::Ok(d) => d.text.clone(),
            Reopen::OpenErr(e) => format!("OPENERR {e}"),
            Reopen::Bad(b) => b.line(),
        }
    }
    pub fn site(&self) -> String {
        match self {
            Reopen::Ok(d) => d.read_errors.first().cloned().unwrap_or_default(),
            Reopen::OpenErr(e) => e.clone(),
            Reopen::Bad(b) => b.site(),
        }
    }
}

pub struct Reopener {
    pub dir: String,
    pub counter: u64,
    pub cache: HashMap<(u64, u64, usize, usize), Reopen>,
    pub reopens: u64,
    pub worker: Worker,
}

fn open_err(e: &agdb::DbError) -> String {
    let mut c = e;
    while let Some(n) = &c.cause {
        c = n;
    }
    format!("{}/{}", c.category, c.ty)
}

impl Reopener {
    pub fn new(dir: &str) -> Self {
        let _ = std::fs::create_dir_all(dir);
        Reopener {
            dir: dir.to_string(),
            counter: 0,
            cache: HashMap::new(),
            reopens: 0,
            worker: Worker::new(),
        }
    }

    /// Copies the images to fresh names and opens them with a file backed variant.
    pub fn reopen(&mut self, data: &[u8], wal: &[u8], deep: bool) -> Reopen {
        let key = (fnv(data), fnv(wal), data.len(), wal.len() * 2 + deep as usize);
        if let Some(r) = self.cache.get(&key) {
            return r.clone();
        }
        self.counter += 1;
        self.reopens += 1;
        let path = format!("{}/r{}.agdb", self.dir, self.counter);
        let wal_path = wal_name(&path);
        std::fs::write(&path, data).expect("write snapshot");
        if !wal.is_empty() {
            std::fs::write(&wal_path, wal).expect("write snapshot wal");
        } else {
            let _ = std::fs::remove_file(&wal_path);
        }
        let mmap = self.counter % 3 == 0;
        let p = path.clone();
        let r = self.worker.run(Duration::from_secs(10), move || {
            if mmap {
                match Db::new(&p) {
                    Ok(db) => Reopen::Ok(dump(&db, deep).0),
                    Err(e) => Reopen::OpenErr(open_err(&e)),
                }
            } else {
                match DbFile::new(&p) {
                    Ok(db) => Reopen::Ok(dump(&db, deep).0),
                    Err(e) => Reopen::OpenErr(open_err(&e)),
                }
            }
        });
        let r = match r {
            Ok(r) => r,
            Err(b) => Reopen::Bad(b),
        };
        let _ = std::fs::remove_file(&path);
        let _ = std::fs::remove_file(&wal_path);
        if self.cache.len() > 20000 {
            self.cache.clear();
        }
        self.cache.insert(key, r.clone());
        r
    }
}

pub struct StepReport {
    pub res: String,
    pub trace: String,
    pub wal: String,
    pub cls: String,
    pub cls_actual: String,
    pub open: String,
    pub changed: bool,
}

/// Evaluates the crash points recorded for one step.
#[allow(clippy::too_many_arguments)]
fn evaluate(
    out: &mut Out,
    ro: &mut Reopener,
    prop: &str,
    case: u64,
    line: usize,
    pre: &Dump,
    post: &Dump,
    what: &str,
) -> (String, String, String, String, (usize, usize)) {
    let (snaps, commits, trace) = CTL.with(|c| {
        let c = c.borrow();
        (c.snaps.clone(), c.commits.clone(), c.trace.clone())
    });
    let flushes = trace.matches('f').count();
    let ideal_known = snaps.first().map(|s| s.wal.is_empty()).unwrap_or(true);
    let mut wal = String::new();
    let mut cls = String::new();
    let mut cls_actual = String::new();
    let mut open = String::new();
    let class = |r: &Reopen| -> char {
        let t = r.text();
        if t == pre.text {
            'a'
        } else if t == post.text {
            'b'
        } else {
            'x'
        }
    };
    let mut reported: Vec<String> = vec![];
    let points = snaps.len();
    let (stride, offset) = sampling(points, out.limit, case as usize + line);
    for (k, s) in snaps.iter().enumerate() {
        wal.push(if s.wal.is_empty() { 'e' } else { 'n' });
        if !sampled(k, points, stride, offset) {
            continue;
        }
        let actual = ro.reopen(&s.data, &s.wal, false);
        let ideal = if ideal_known {
            ro.reopen(&commits[s.commit], &[], false)
        } else {
            actual.clone()
        };
        out.evaluations += 1;
        let ca = class(&actual);
        let ci = class(&ideal);
        cls.push(ci);
        cls_actual.push(ca);
        open.push(ideal.letter());
        let last = k + 1 == snaps.len();
        let mut report = |key: String, rule: &str, expected: String, observed: String, out: &mut Out| {
            if !reported.contains(&key) {
                reported.push(key.clone());
                out.violation(case, line, &key, rule, &expected, &observed);
            }
        };
        // C01 attribution: the recovery of the real code differs from the committed image
        if actual.text() != ideal.text() {
            report(
                "C01/recovery-differs-from-last-commit/FileStorage::apply_wal".to_string(),
                "reopening (data,wal) at a crash point must equal reopening the data image of the last outermost commit",
                format!("crash point {k} of `{what}`: {}", short(&ideal.text())),
                short(&actual.text()),
                out,
            );
        }
        if prop == "C03" {
            if ci == 'x' {
                let key = if flushes > 1 && s.commit > 0 && s.commit < flushes {
                    "C03/multiple-commit-points/DbImpl::transaction_mut".to_string()
                } else if !matches!(ideal, Reopen::Ok(_)) {
                    format!("C03/reopen-fails/{}", ideal.site())
                } else {
                    "C03/reopened-state-neither-before-nor-after/DbImpl::transaction_mut".to_string()
                };
                report(
                    key,
                    "state reopened after a crash inside a query/transaction must equal the state before or after it",
                    format!(
                        "crash point {k}/{} of `{what}` (commit image {} of {flushes}): before={} | after={}",
                        snaps.len() - 1,
                        s.commit,
                        short(&pre.text),
                        short(&post.text)
                    ),
                    short(&ideal.text()),
                    out,
                );
            } else if last && ci != 'b' && pre.text != post.text {
                report(
                    "C03/completed-step-not-durable/DbImpl::transaction_mut".to_string(),
                    "after the step returned, the reopened state must be the state after it",
                    short(&post.text),
                    short(&ideal.text()),
                    out,
                );
            }
        }
        if prop == "C02" {
            let l = ideal.letter();
            if l != 'o' {
                let kind = match l {
                    'R' => "unreadable-after-crash",
                    'E' => "unopenable-after-crash",
                    'P' => "panic-on-reopen",
                    'H' => "hugealloc-on-reopen",
                    _ => "timeout-on-reopen",
                };
                let root = if flushes > 1 && s.commit > 0 && s.commit < flushes {
                    // intermediate commit point of a multi-commit step: C03's root cause
                    "DbImpl::transaction_mut".to_string()
                } else {
                    ideal.site()
                };
                report(
                    format!("C02/{kind}/{root}"),
                    "every crash image must open and be fully readable",
                    format!("crash point {k}/{} of `{what}` opens and reads", snaps.len() - 1),
                    format!("{l}: {}", short(&ideal.text())),
                    out,
                );
            }
        }
    }
    (rle(&wal), rle(&cls), rle(&cls_actual), rle(&open), (stride, offset))
}

/// crash points evaluated when a step has more than `limit` of them: the first and last six
/// and every `stride`-th one (the same rule is implemented by the Lean driver)
pub fn sampling(points: usize, limit: usize, salt: usize) -> (usize, usize) {
    if points <= limit {
        (1, 0)
    } else {
        let stride = points.div_ceil(limit.saturating_sub(12).max(1));
        (stride, salt % stride)
    }
}

pub fn sampled(k: usize, points: usize, stride: usize, offset: usize) -> bool {
    k < 6 || k + 6 >= points || k % stride == offset
}

/// run-length encoding: "aaab" -> "a3b1"
pub fn rle(s: &str) -> String {
    let mut o = String::new();
    let mut it = s.chars().peekable();
    while let Some(c) = it.next() {
        let mut n = 1;
        while it.peek() == Some(&c) {
            it.next();
            n += 1;
        }
        o.push(c);
        o.push_str(&n.to_string());
    }
    if o.is_empty() { "-".to_string() } else { o }
}

pub fn short(s: &str) -> String {
    let s = s.replace('\n', "; ");
    if s.len() > 600 {
        format!("{}…", &s[..600])
    } else {
        s
    }
}

fn run_step(db: &mut DbImpl<CrashStorage>, step: &Step) -> Result<String, Bad> {
    guarded(|| match step.run(db) {
        Ok(n) => format!("ok:{n}"),
        Err(_) => "err".to_string(),
    })
}

/// Runs one case (history) for C03 / C02. `lines` are op lines without the `case` line.
pub fn run_crash_case(out: &mut Out, ro: &mut Reopener, prop: &str, case: u64, steps: &[String]) {
    let path = format!("{}/case.agdb", ro.dir);
    let _ = std::fs::remove_file(&path);
    let _ = std::fs::remove_file(wal_name(&path));
    CTL.with(|c| {
        let mut c = c.borrow_mut();
        c.path = path.clone();
        c.recording = false;
        c.fault = Fault::None;
    });
    let mut db = match DbImpl::<CrashStorage>::new(&path) {
        Ok(db) => Some(db),
        Err(_) => None,
    };
    let mut nontrivial = false;
    let mut case_text = String::new();
    for (i, l) in steps.iter().enumerate() {
        let line = out.ops.len();
        let first = l.split(' ').next().unwrap_or("");
        let what = l.split(" | ").next().unwrap_or(l).to_string();
        case_text.push_str(&what);
        case_text.push('\n');
        if first == "close" {
            let Some(d) = db.take() else {
                out.emit(&what, "bad-op", None);
                continue;
            };
            let (pre, _) = dump(&d, false);
            CTL.with(|c| c.borrow_mut().start());
            let r = guarded(move || drop(d));
            CTL.with(|c| c.borrow_mut().stop());
            let res = match r {
                Ok(()) => "ok".to_string(),
                Err(b) => b.line(),
            };
            let (wal, cls, _cls_actual, open, (stride, offset)) =
                evaluate(out, ro, prop, case, line, &pre, &pre, "close");
            let trace = CTL.with(|c| c.borrow().trace.clone());
            out.hist(&format!("trace_len_{}", bucket(trace.len())));
            let extra = if prop == "C02" { format!("open={open}") } else { format!("cls={cls}") };
            let body: String = trace.chars().filter(|c| *c != 'f').collect();
            out.emit(
                &format!("close | {res} 0 {} {stride} {offset}", rle(&body)),
                &format!("{res} trace={} wal={wal} {extra}", rle(&trace)),
                None,
            );
            continue;
        }
        let Some(step) = Step::parse(l) else {
            out.emit(&what, "bad-op", None);
            continue;
        };
        let Some(d) = db.as_mut() else {
            out.emit(&what, "bad-op", None);
            continue;
        };
        for q in &step.queries {
            out.hist(q.kind());
        }
        if step.txn.is_some() {
            out.hist(if step.txn == Some(true) { "txn_ok" } else { "txn_fail" });
        }
        let (pre, _) = dump(d, false);
        CTL.with(|c| c.borrow_mut().start());
        let res = run_step(d, &step);
        CTL.with(|c| c.borrow_mut().stop());
        let res = match res {
            Ok(s) => s,
            Err(b) => {
                out.violation(
                    case,
                    line,
                    &format!("{prop}/panic-in-query/{}", b.site()),
                    "query must not panic",
                    "result or error",
                    &b.line(),
                );
                b.line()
            }
        };
        out.hist(if res.starts_with("ok") { "res_ok" } else { "res_err" });
        let (post, _) = dump(d, false);
        let changed = pre.text != post.text;
        let (wal, cls, _cls_actual, open, (stride, offset)) =
            evaluate(out, ro, prop, case, line, &pre, &post, &what);
        let trace = CTL.with(|c| c.borrow().trace.clone());
        out.hist(&format!("trace_len_{}", bucket(trace.len())));
        out.hist(&format!("commit_points_{}", trace.matches('f').count().min(9)));
        if changed && trace.len() >= 3 {
            nontrivial = true;
        }
        let extra = if prop == "C02" { format!("open={open}") } else { format!("cls={cls}") };
        let body: String = trace.chars().filter(|c| *c != 'f').collect();
        out.emit(
            &format!("{what} | {res} {} {} {stride} {offset}", changed as u8, rle(&body)),
            &format!("{res} trace={} wal={wal} {extra}", rle(&trace)),
            None,
        );
        let _ = i;
    }
    drop(guarded(move || drop(db)));
    out.case_done(&case_text, nontrivial);
}

fn bucket(n: usize) -> &'static str {
    match n {
        0..=1 => "0-1",
        2..=9 => "2-9",
        10..=29 => "10-29",
        30..=99 => "30-99",
        _ => "100+",
    }
}

/// Generates a history by running it on a scratch database (ids/aliases are taken from the live state).
pub fn gen_history(rng: &mut Rng, dir: &str, max_steps: u64) -> Vec<String> {
    let path = format!("{dir}/gen.agdb");
    let _ = std::fs::remove_file(&path);
    let _ = std::fs::remove_file(wal_name(&path));
    let mut lines = vec![];
    {
        let mut db = DbFile::new(&path).expect("gen db");
        let n = rng.range(2, max_steps);
        let mut live = Live::default();
        for _ in 0..n {
            let step = gen_step(rng, &live);
            lines.push(step.line());
            let _ = guarded(|| {
                let _ = step.run(&mut db);
            });
            live = dump(&db, false).1;
        }
    }
    let _ = std::fs::remove_file(&path);
    let _ = std::fs::remove_file(wal_name(&path));
    lines
}

// ------------------------------------------------------------------ C32

/// call site a reopen problem is attributed to: the nesting counter left non-zero (log never
/// cleared again) or the in-memory state that is not reloaded after a failed write
fn site(stuck: bool) -> &'static str {
    if stuck { "Storage::end_transaction" } else { "DbImpl::transaction_mut" }
}

/// ops of a C32 case: steps, with one `fault <k> once|persist` line before the step it hits, `close` last.
pub fn run_fault_case(out: &mut Out, ro: &mut Reopener, case: u64, steps: &[String]) {
    let path = format!("{}/case.agdb", ro.dir);
    let twin_path = format!("{}/twin.agdb", ro.dir);
    for p in [&path, &twin_path] {
        let _ = std::fs::remove_file(p);
        let _ = std::fs::remove_file(wal_name(p));
    }
    CTL.with(|c| {
        let mut c = c.borrow_mut();
        c.path = path.clone();
        c.recording = false;
        c.fault = Fault::None;
    });
    let mut db = DbImpl::<CrashStorage>::new(&path).ok();
    // the twin runs the same history without the faulted step
    let mut twin = DbFile::new(&twin_path).ok();
    let mut pending = Fault::None;
    let mut fired_any = false;
    let mut case_text = String::new();
    let mut after_fault = 0;
    let mut stuck = false;
    for l in steps {
        let line = out.ops.len();
        let what = l.split(" | ").next().unwrap_or(l).to_string();
        case_text.push_str(&what);
        case_text.push('\n');
        let toks: Vec<&str> = what.split(' ').collect();
        match toks[0] {
            "fault" => {
                let k = toks.get(1).and_then(|t| t.parse::<usize>().ok());
                let mode = toks.get(2).copied().unwrap_or("");
                match (k, mode) {
                    (Some(k), "once") if k > 0 => pending = Fault::Once(k),
                    (Some(k), "persist") if k > 0 => pending = Fault::Persist(k),
                    _ => {
                        out.emit(&what, "bad-op", None);
                        continue;
                    }
                }
                out.emit(&what, "armed", None);
            }
            "close" => {
                let (Some(d), Some(t)) = (db.take(), twin.take()) else {
                    out.emit(&what, "bad-op", None);
                    continue;
                };
                let (before_close, _) = dump(&d, false);
                let (twin_dump, _) = dump(&t, false);
                CTL.with(|c| c.borrow_mut().start());
                let r = guarded(move || drop(d));
                CTL.with(|c| c.borrow_mut().stop());
                drop(t);
                let trace = CTL.with(|c| c.borrow().trace.clone());
                let data = std::fs::read(&path).unwrap_or_default();
                let wal = std::fs::read(wal_name(&path)).unwrap_or_default();
                let reopened = ro.reopen(&data, &wal, false);
                out.evaluations += 1;
                let res = match r {
                    Ok(()) => "ok".to_string(),
                    Err(b) => b.line(),
                };
                if fired_any {
                    match &reopened {
                        Reopen::Ok(dmp) if dmp.read_errors.is_empty() => {
                            if dmp.text != before_close.text {
                                out.violation(
                                    case,
                                    line,
                                    &format!("C32/later-work-lost-after-reopen/{}", site(stuck)),
                                    "state after close+reopen must equal the in-process state before close",
                                    &short(&before_close.text),
                                    &short(&dmp.text),
                                );
                            }
                        }
                        other => {
                            out.violation(
                                case,
                                line,
                                &format!("C32/unreadable-after-reopen/{}", site(stuck)),
                                "the file must open and read after a failed write followed by successful queries",
                                "opens and reads",
                                &format!("{}: {}", other.letter(), short(&other.text())),
                            );
                        }
                    }
                    if before_close.text != twin_dump.text {
                        out.violation(
                            case,
                            line,
                            "C32/failed-query-has-effect/DbImpl::transaction_mut",
                            "final in-process state must equal the state of the same history without the failed query",
                            &short(&twin_dump.text),
                            &short(&before_close.text),
                        );
                    }
                }
                let same = (reopened.text() == before_close.text) as u8;
                let body: String = trace.chars().filter(|c| *c != 'f').collect();
                // after a fired fault the reopen outcome is judged by the oracle only
                let out_line = if fired_any {
                    format!("{res} trace=* walend=* reopen=*")
                } else {
                    format!(
                        "{res} trace={} walend={} reopen={}{same}",
                        rle(&trace),
                        if wal.is_empty() { 'e' } else { 'n' },
                        reopened.letter()
                    )
                };
                out.emit(&format!("close | {res} 0 {}", rle(&body)), &out_line, None);
            }
            _ => {
                let Some(step) = Step::parse(&what) else {
                    out.emit(&what, "bad-op", None);
                    continue;
                };
                let (Some(d), Some(t)) = (db.as_mut(), twin.as_mut()) else {
                    out.emit(&what, "bad-op", None);
                    continue;
                };
                for q in &step.queries {
                    out.hist(q.kind());
                }
                let faulted = pending != Fault::None;
                let (pre, _) = dump(d, false);
                CTL.with(|c| {
                    let mut c = c.borrow_mut();
                    c.start();
                    c.fault = pending;
                });
                pending = Fault::None;
                let res = run_step(d, &step);
                let fired = CTL.with(|c| c.borrow().fired);
                CTL.with(|c| c.borrow_mut().stop());
                let trace = CTL.with(|c| c.borrow().trace.clone());
                let wal_after = CTL.with(|c| c.borrow().snaps.last().map(|s| s.wal.is_empty()).unwrap_or(true));
                let res = match res {
                    Ok(s) => s,
                    Err(b) => {
                        let key = if fired_any || fired {
                            "C32/panic-after-failed-write/DbImpl::transaction_mut".to_string()
                        } else {
                            format!("C32/panic-in-query/{}", b.site())
                        };
                        out.violation(case, line, &key, "query must not panic", "result or error", &b.line());
                        b.line()
                    }
                };
                let (post, _) = dump(d, false);
                out.evaluations += 1;
                let mut eff = 0;
                if fired {
                    fired_any = true;
                    out.hist("fault_fired");
                    out.hist(&format!("fault_at_call_{}", bucket(trace.find('!').unwrap_or(0))));
                    if res.starts_with("ok") {
                        out.violation(
                            case,
                            line,
                            "C32/failed-write-not-reported/DbImpl::transaction_mut",
                            "a query during which a storage write failed must report an error",
                            "err",
                            &res,
                        );
                    }
                    if post.text != pre.text {
                        eff = 1;
                        out.violation(
                            case,
                            line,
                            "C32/failed-query-has-effect/DbImpl::transaction_mut",
                            "a query that reported a write failure must have no effect",
                            &short(&pre.text),
                            &short(&post.text),
                        );
                    }
                    if !post.read_errors.is_empty() {
                        out.violation(
                            case,
                            line,
                            "C32/unusable-after-failed-write/DbImpl::transaction_mut",
                            "the database must stay readable after a failed write",
                            "no read errors",
                            &post.read_errors.join(","),
                        );
                    }
                } else {
                    if faulted {
                        out.hist("fault_not_reached");
                    }
                    // fault-free step: the twin executes it too and must agree
                    let tr = guarded(|| match step.run(t) {
                        Ok(n) => format!("ok:{n}"),
                        Err(_) => "err".to_string(),
                    })
                    .unwrap_or_else(|b| b.line());
                    if fired_any {
                        after_fault += 1;
                        let (td, _) = dump(t, false);
                        if tr != res || td.text != post.text {
                            out.violation(
                                case,
                                line,
                                "C32/failed-query-has-effect/DbImpl::transaction_mut",
                                "queries after a failed write must behave as if the failed query had not been issued",
                                &format!("{tr} {}", short(&td.text)),
                                &format!("{res} {}", short(&post.text)),
                            );
                        }
                        if !wal_after {
                            stuck = true;
                            out.violation(
                                case,
                                line,
                                "C32/later-work-not-committed/Storage::end_transaction",
                                "a successful query after a failed write must be committed (log cleared) when it returns",
                                "log empty",
                                "log not empty",
                            );
                        }
                    }
                }
                let body: String = trace.chars().filter(|c| *c != 'f').collect();
                out.emit(
                    &format!("{what} | {res} {} {}", (pre.text != post.text) as u8, rle(&body)),
                    &format!(
                        "{res} trace={} walend={} eff={eff}",
                        rle(&trace),
                        if wal_after { 'e' } else { 'n' }
                    ),
                    None,
                );
            }
        }
    }
    drop(guarded(move || drop(db)));
    drop(twin);
    out.case_done(&case_text, fired_any && after_fault > 0);
}
