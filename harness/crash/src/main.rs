//! harness_crash: drives the real agdb code for properties C03, C32, C02, C07, C05.
//!
//!   harness_crash gen    --prop <ID> --seed <u64> --tier quick|thorough --out <dir> [--corpus <dir>]
//!   harness_crash replay --prop <ID> --ops <file> --out <dir>

mod crash;
mod damaged;
mod dump;
mod guard;
mod maint;
mod queries;
mod rng;
mod store;

use std::collections::BTreeMap;
use std::collections::HashSet;
use std::io::Write;

#[global_allocator]
static ALLOC: guard::LimitAlloc = guard::LimitAlloc;

pub struct Out {
    pub ops: Vec<String>,
    pub impl_lines: Vec<String>,
    /// (op line index relative to `base`, json with the placeholder @L@ for the line)
    pub oracle: Vec<(usize, String)>,
    pub evaluations: u64,
    pub histogram: BTreeMap<String, u64>,
    pub distinct: HashSet<u64>,
    pub samples: Vec<String>,
    pub rule: String,
    pub cases: u64,
    /// crash points evaluated per step before sampling sets in
    pub limit: usize,
    /// index of the first op line of the current case in the global ops list
    pub base: usize,
    pub case_counter: u64,
    pub inject_prop: bool,
}

pub fn json_str(s: &str) -> String {
    let mut o = String::from("\"");
    for c in s.chars() {
        match c {
            '"' => o.push_str("\\\""),
            '\\' => o.push_str("\\\\"),
            '\n' => o.push_str("\\n"),
            '\r' => o.push_str("\\r"),
            '\t' => o.push_str("\\t"),
            c if (c as u32) < 0x20 => o.push_str(&format!("\\u{:04x}", c as u32)),
            c => o.push(c),
        }
    }
    o.push('"');
    o
}

impl Out {
    fn new() -> Self {
        Out {
            ops: vec![],
            impl_lines: vec![],
            oracle: vec![],
            evaluations: 0,
            histogram: BTreeMap::new(),
            distinct: HashSet::new(),
            samples: vec![],
            rule: String::new(),
            cases: 0,
            limit: 40,
            base: 0,
            case_counter: 0,
            inject_prop: true,
        }
    }

    /// one op line and the implementation's output line for it
    pub fn emit(&mut self, op: &str, out: &str, _x: Option<()>) {
        self.ops.push(op.to_string());
        self.impl_lines.push(out.to_string());
    }

    /// global index of the next op line
    pub fn next_line(&self) -> usize {
        self.base + self.ops.len()
    }

    pub fn merge(&mut self, o: Out) {
        let offset = self.ops.len();
        self.ops.extend(o.ops);
        self.impl_lines.extend(o.impl_lines);
        self.oracle.extend(o.oracle.into_iter().map(|(l, j)| (l + offset, j)));
        self.evaluations += o.evaluations;
        for (k, v) in o.histogram {
            *self.histogram.entry(k).or_insert(0) += v;
        }
        self.distinct.extend(o.distinct);
        for smp in o.samples {
            if self.samples.len() < 5 {
                self.samples.push(smp);
            }
        }
        self.cases += o.cases;
    }

    pub fn hist(&mut self, k: &str) {
        *self.histogram.entry(k.to_string()).or_insert(0) += 1;
    }

    pub fn violation(&mut self, case: u64, line: usize, key: &str, rule: &str, expected: &str, observed: &str) {
        self.hist(&format!("violation:{key}"));
        self.oracle.push((line, format!(
            "{{\"case\":{case},\"line\":@L@,\"key\":{},\"rule\":{},\"expected\":{},\"observed\":{}}}",
            json_str(key),
            json_str(rule),
            json_str(expected),
            json_str(observed)
        )));
    }

    pub fn case_done(&mut self, text: &str, nontrivial: bool) {
        self.cases += 1;
        if nontrivial {
            self.distinct.insert(dump::fnv(text.as_bytes()));
        }
        if self.samples.len() < 5 && nontrivial {
            self.samples.push(text.to_string());
        }
    }

    fn write(&self, dir: &str) {
        std::fs::create_dir_all(dir).expect("out dir");
        let mut f = std::fs::File::create(format!("{dir}/ops.txt")).unwrap();
        for l in &self.ops {
            writeln!(f, "{l}").unwrap();
        }
        let mut f = std::fs::File::create(format!("{dir}/impl.txt")).unwrap();
        for l in &self.impl_lines {
            writeln!(f, "{l}").unwrap();
        }
        let mut f = std::fs::File::create(format!("{dir}/oracle.jsonl")).unwrap();
        for (line, j) in &self.oracle {
            writeln!(f, "{}", j.replace("@L@", &line.to_string())).unwrap();
        }
        let hist: Vec<String> = self
            .histogram
            .iter()
            .map(|(k, v)| format!("{}:{v}", json_str(k)))
            .collect();
        let samples: Vec<String> = self.samples.iter().map(|s| json_str(s)).collect();
        let mut f = std::fs::File::create(format!("{dir}/stats.json")).unwrap();
        writeln!(
            f,
            "{{\"evaluations\":{},\"distinct_nontrivial\":{},\"cases\":{},\"rule\":{},\"samples\":[{}],\"histogram\":{{{}}}}}",
            self.evaluations,
            self.distinct.len(),
            self.cases,
            json_str(&self.rule),
            samples.join(","),
            hist.join(",")
        )
        .unwrap();
    }
}

fn arg(args: &[String], name: &str) -> Option<String> {
    args.iter()
        .position(|a| a == name)
        .and_then(|i| args.get(i + 1).cloned())
}

/// splits an ops file into cases: (case number, lines)
fn split_cases(text: &str) -> Vec<(u64, Vec<String>)> {
    let mut cases: Vec<(u64, Vec<String>)> = vec![];
    for l in text.lines() {
        let l = l.trim_end();
        if l.is_empty() {
            continue;
        }
        if let Some(n) = l.strip_prefix("case ") {
            cases.push((n.trim().parse().unwrap_or(0), vec![]));
        } else if let Some(c) = cases.last_mut() {
            c.1.push(l.to_string());
        } else {
            cases.push((0, vec![l.to_string()]));
        }
    }
    cases
}

fn run_case_inner(out: &mut Out, ro: &mut crash::Reopener, prop: &str, n: u64, lines: &[String]) {
    out.emit(&format!("case {n}"), &format!("case {n}"), None);
    // the stream tag line: always present in generated cases; a replayed case keeps its own line count
    if out.inject_prop || lines.iter().any(|l| l.starts_with("prop ")) {
        out.emit(&format!("prop {prop}"), &format!("prop {prop}"), None);
    }
    let lines: Vec<String> = lines.iter().filter(|l| !l.starts_with("prop ")).cloned().collect();
    let lines = &lines[..];
    match prop {
        "C03" | "C02" => crash::run_crash_case(out, ro, prop, n, lines),
        "C32" => crash::run_fault_case(out, ro, n, lines),
        "C07" => damaged::run_case(out, ro, n, lines),
        "C05" => maint::run_case(out, ro, n, lines),
        _ => {
            for l in lines {
                out.emit(l, "bad-op", None);
            }
        }
    }
}

/// Runs one case in its own thread under a watchdog; a case that does not finish is abandoned
/// (its thread keeps running detached) and every op line of it gets the output `timeout`.
pub fn run_case(out: &mut Out, dir: &str, prop: &str, n: u64, lines: &[String]) {
    let (tx, rx) = std::sync::mpsc::channel();
    let prop_s = prop.to_string();
    let lines_v: Vec<String> = lines.to_vec();
    let limit = out.limit;
    let inject = out.inject_prop;
    out.case_counter += 1;
    let dir = format!("{dir}/c{}", out.case_counter);
    let dir2 = dir.clone();
    std::thread::Builder::new()
        .stack_size(64 * 1024 * 1024)
        .spawn(move || {
            guard::install_thread();
            let mut local = Out::new();
            local.limit = limit;
            local.inject_prop = inject;
            let mut ro = crash::Reopener::new(&dir2);
            run_case_inner(&mut local, &mut ro, &prop_s, n, &lines_v);
            let _ = tx.send(local);
        })
        .expect("spawn case thread");
    let secs = std::env::var("VERIF_CASE_TIMEOUT").ok().and_then(|s| s.parse().ok()).unwrap_or(120);
    match rx.recv_timeout(std::time::Duration::from_secs(secs)) {
        Ok(local) => {
            out.merge(local);
            let _ = std::fs::remove_dir_all(&dir);
        }
        Err(_) => {
            let line = out.ops.len();
            out.emit(&format!("case {n}"), &format!("case {n}"), None);
            if out.inject_prop || lines.iter().any(|l| l.starts_with("prop ")) {
                out.emit(&format!("prop {prop}"), &format!("prop {prop}"), None);
            }
            for l in lines.iter().filter(|l| !l.starts_with("prop ")) {
                let l = l.split(" | ").next().unwrap_or(l);
                out.emit(&format!("{l} | timeout"), "timeout", None);
            }
            let key = if prop == "C32" {
                "C32/hang-after-failed-write/DbImpl::transaction_mut".to_string()
            } else {
                format!("{prop}/timeout/in-process-step")
            };
            out.violation(n, line, &key, "every step of a case must terminate", "terminates", &format!("no result after {secs}s"));
            out.cases += 1;
        }
    }
}

/// Runs independent cases on a pool of threads; results are merged in case order.
pub fn run_cases_parallel(out: &mut Out, dir: &str, prop: &str, cases: Vec<(u64, Vec<String>)>) {
    let threads = std::thread::available_parallelism().map(|n| n.get()).unwrap_or(4).clamp(1, 12);
    let n = cases.len();
    let cases = std::sync::Arc::new(cases);
    let next = std::sync::Arc::new(std::sync::atomic::AtomicUsize::new(0));
    let results: std::sync::Arc<std::sync::Mutex<Vec<Option<Out>>>> =
        std::sync::Arc::new(std::sync::Mutex::new((0..n).map(|_| None).collect()));
    let mut handles = vec![];
    for t in 0..threads {
        let cases = cases.clone();
        let next = next.clone();
        let results = results.clone();
        let dir = format!("{dir}/p{t}");
        let prop = prop.to_string();
        let limit = out.limit;
        let inject = out.inject_prop;
        handles.push(std::thread::spawn(move || {
            loop {
                let i = next.fetch_add(1, std::sync::atomic::Ordering::SeqCst);
                if i >= cases.len() {
                    break;
                }
                let mut local = Out::new();
                local.limit = limit;
                local.inject_prop = inject;
                local.case_counter = i as u64;
                run_case(&mut local, &dir, &prop, cases[i].0, &cases[i].1);
                results.lock().unwrap()[i] = Some(local);
            }
        }));
    }
    for h in handles {
        let _ = h.join();
    }
    let mut results = results.lock().unwrap();
    for r in results.iter_mut() {
        if let Some(local) = r.take() {
            out.merge(local);
        }
    }
}

fn main() {
    let args: Vec<String> = std::env::args().collect();
    if args.len() < 2 {
        eprintln!("usage: harness_crash gen|replay --prop <ID> ...");
        std::process::exit(2);
    }
    guard::install_panic_hook();
    let mode = args[1].clone();
    let prop = arg(&args, "--prop").expect("--prop");
    let out_dir = arg(&args, "--out").expect("--out");
    let tmp = format!("{out_dir}/tmp");
    let _ = std::fs::remove_dir_all(&tmp);
    std::fs::create_dir_all(&tmp).expect("tmp dir");
    let mut out = Out::new();
    out.rule = match prop.as_str() {
        "C03" | "C02" => "evaluations = crash points reopened; non-trivial case = a history with at least one step that changed the observable state through >= 3 storage calls".to_string(),
        "C32" => "evaluations = steps compared (in-process and after reopen); non-trivial case = the injected failure fired and at least one later step ran".to_string(),
        "C07" => "evaluations = damaged images opened; non-trivial case = a mutant that differs from its valid base file".to_string(),
        "C05" => "evaluations = dumps compared before/after a maintenance operation; non-trivial case = a history with >= 3 elements followed by at least one maintenance op".to_string(),
        _ => String::new(),
    };

    match mode.as_str() {
        "gen" => {
            let seed: u64 = arg(&args, "--seed").and_then(|s| s.parse().ok()).unwrap_or(1);
            let tier = arg(&args, "--tier").unwrap_or_else(|| "quick".to_string());
            let thorough = tier == "thorough";
            if thorough {
                out.limit = 400;
            }
            let mut case_no = 0;
            // corpus first
            let corpus = arg(&args, "--corpus").unwrap_or_else(|| format!("/verif/corpus/{prop}"));
            if let Ok(rd) = std::fs::read_dir(&corpus) {
                let mut files: Vec<_> = rd
                    .filter_map(|e| e.ok())
                    .map(|e| e.path())
                    .filter(|p| p.extension().map(|e| e == "ops").unwrap_or(false))
                    .collect();
                files.sort();
                for f in files {
                    if let Ok(text) = std::fs::read_to_string(&f) {
                        for (_, lines) in split_cases(&text) {
                            case_no += 1;
                            out.hist("corpus_case");
                            run_case(&mut out, &tmp, &prop, case_no, &lines);
                        }
                    }
                }
            }
            let mut rng = rng::Rng::new(seed);
            match prop.as_str() {
                "C03" | "C02" => {
                    let n = if thorough { 1500 } else { 40 };
                    for _ in 0..n {
                        case_no += 1;
                        let mut lines = crash::gen_history(&mut rng, &tmp, if thorough { 16 } else { 12 });
                        lines.push("close".to_string());
                        run_case(&mut out, &tmp, &prop, case_no, &lines);
                    }
                }
                "C32" => {
                    let n = if thorough { 1500 } else { 120 };
                    for _ in 0..n {
                        case_no += 1;
                        let mut lines = crash::gen_history(&mut rng, &tmp, 10);
                        let at = rng.below(lines.len() as u64) as usize;
                        let span = if rng.chance(1, 2) { 6 } else { 30 };
                        let k = 1 + rng.below(span);
                        let mode = if rng.chance(3, 4) { "once" } else { "persist" };
                        lines.insert(at, format!("fault {k} {mode}"));
                        lines.push("close".to_string());
                        run_case(&mut out, &tmp, &prop, case_no, &lines);
                    }
                }
                "C07" => {
                    let n = if thorough { 300_000 } else { 3000 };
                    damaged::generate(&mut out, &mut rng, &mut case_no, n, &tmp);
                }
                "C05" => {
                    let n = if thorough { 5000 } else { 150 };
                    for _ in 0..n {
                        case_no += 1;
                        let lines = maint::gen_case(&mut rng, &tmp, if thorough { 120 } else { 40 });
                        run_case(&mut out, &tmp, &prop, case_no, &lines);
                    }
                }
                _ => {
                    eprintln!("unknown property {prop}");
                    std::process::exit(2);
                }
            }
        }
        "replay" => {
            let ops = arg(&args, "--ops").expect("--ops");
            let text = std::fs::read_to_string(&ops).expect("ops file");
            out.inject_prop = false;
            for (n, lines) in split_cases(&text) {
                run_case(&mut out, &tmp, &prop, n, &lines);
            }
        }
        _ => {
            eprintln!("unknown mode {mode}");
            std::process::exit(2);
        }
    }
    let _ = std::fs::remove_dir_all(&tmp);
    out.write(&out_dir);
}
