//! Query specs: textual form <-> agdb query structs, execution, generation.

use crate::rng::Rng;
use agdb::DbError;
use agdb::DbF64;
use agdb::DbId;
use agdb::DbImpl;
use agdb::DbKeyValue;
use agdb::DbValue;
use agdb::InsertAliasesQuery;
use agdb::InsertEdgesQuery;
use agdb::InsertIndexQuery;
use agdb::InsertNodesQuery;
use agdb::InsertValuesQuery;
use agdb::QueryId;
use agdb::QueryIds;
use agdb::QueryResult;
use agdb::QueryValues;
use agdb::RemoveAliasesQuery;
use agdb::RemoveIndexQuery;
use agdb::RemoveQuery;
use agdb::RemoveValuesQuery;
use agdb::SelectValuesQuery;
use agdb::StorageData;
use agdb::TransactionMut;

pub fn hex(b: &[u8]) -> String {
    if b.is_empty() {
        return "-".to_string();
    }
    let mut s = String::with_capacity(b.len() * 2);
    for x in b {
        s.push_str(&format!("{x:02x}"));
    }
    s
}

pub fn unhex(s: &str) -> Option<Vec<u8>> {
    if s == "-" {
        return Some(vec![]);
    }
    if s.len() % 2 != 0 {
        return None;
    }
    let mut v = Vec::with_capacity(s.len() / 2);
    let b = s.as_bytes();
    for i in (0..b.len()).step_by(2) {
        let h = (b[i] as char).to_digit(16)?;
        let l = (b[i + 1] as char).to_digit(16)?;
        v.push((h * 16 + l) as u8);
    }
    Some(v)
}

pub fn val_str(v: &DbValue) -> String {
    match v {
        DbValue::I64(i) => format!("i{i}"),
        DbValue::U64(u) => format!("u{u}"),
        DbValue::F64(f) => format!("f{:x}", f.to_f64().to_bits()),
        DbValue::String(s) => format!("s{}", hex(s.as_bytes())),
        DbValue::Bytes(b) => format!("b{}", hex(b)),
        DbValue::VecI64(v) => format!(
            "I{}",
            v.iter().map(|x| x.to_string()).collect::<Vec<_>>().join(".")
        ),
        DbValue::VecU64(v) => format!(
            "U{}",
            v.iter().map(|x| x.to_string()).collect::<Vec<_>>().join(".")
        ),
        DbValue::VecF64(v) => format!(
            "F{}",
            v.iter()
                .map(|x| format!("{:x}", x.to_f64().to_bits()))
                .collect::<Vec<_>>()
                .join(".")
        ),
        DbValue::VecString(v) => format!(
            "S{}",
            v.iter().map(|x| hex(x.as_bytes())).collect::<Vec<_>>().join(".")
        ),
    }
}

pub fn parse_val(s: &str) -> Option<DbValue> {
    let (t, r) = s.split_at(1);
    Some(match t {
        "i" => DbValue::I64(r.parse().ok()?),
        "u" => DbValue::U64(r.parse().ok()?),
        "f" => DbValue::F64(DbF64::from(f64::from_bits(u64::from_str_radix(r, 16).ok()?))),
        "s" => DbValue::String(String::from_utf8(unhex(r)?).ok()?),
        "b" => DbValue::Bytes(unhex(r)?),
        "I" => {
            if r.is_empty() {
                DbValue::VecI64(vec![])
            } else {
                DbValue::VecI64(r.split('.').map(|x| x.parse().ok()).collect::<Option<_>>()?)
            }
        }
        "U" => {
            if r.is_empty() {
                DbValue::VecU64(vec![])
            } else {
                DbValue::VecU64(r.split('.').map(|x| x.parse().ok()).collect::<Option<_>>()?)
            }
        }
        _ => return None,
    })
}

pub fn kvs_str(kvs: &[DbKeyValue]) -> String {
    if kvs.is_empty() {
        return "-".to_string();
    }
    kvs.iter()
        .map(|kv| format!("{}={}", val_str(&kv.key), val_str(&kv.value)))
        .collect::<Vec<_>>()
        .join(",")
}

fn parse_kvs(s: &str) -> Option<Vec<DbKeyValue>> {
    if s == "-" {
        return Some(vec![]);
    }
    s.split(',')
        .map(|p| {
            let (k, v) = p.split_once('=')?;
            Some(DbKeyValue {
                key: parse_val(k)?,
                value: parse_val(v)?,
            })
        })
        .collect()
}

fn parse_vals(s: &str) -> Option<Vec<DbValue>> {
    if s == "-" {
        return Some(vec![]);
    }
    s.split(',').map(parse_val).collect()
}

fn parse_ids(s: &str) -> Option<Vec<QueryId>> {
    if s == "-" {
        return Some(vec![]);
    }
    s.split(',')
        .map(|p| {
            if let Some(a) = p.strip_prefix('@') {
                Some(QueryId::Alias(String::from_utf8(unhex(a)?).ok()?))
            } else {
                Some(QueryId::Id(DbId(p.parse().ok()?)))
            }
        })
        .collect()
}

fn parse_aliases(s: &str) -> Option<Vec<String>> {
    if s == "-" {
        return Some(vec![]);
    }
    s.split(',')
        .map(|p| String::from_utf8(unhex(p)?).ok())
        .collect()
}

#[derive(Debug, Clone)]
pub enum Q {
    InsertNodes(InsertNodesQuery),
    InsertEdges(InsertEdgesQuery),
    InsertAliases(InsertAliasesQuery),
    InsertValues(InsertValuesQuery),
    InsertIndex(InsertIndexQuery),
    Remove(RemoveQuery),
    RemoveAliases(RemoveAliasesQuery),
    RemoveValues(RemoveValuesQuery),
    RemoveIndex(RemoveIndexQuery),
}

impl Q {
    pub fn kind(&self) -> &'static str {
        match self {
            Q::InsertNodes(_) => "insert_nodes",
            Q::InsertEdges(_) => "insert_edges",
            Q::InsertAliases(_) => "insert_aliases",
            Q::InsertValues(_) => "insert_values",
            Q::InsertIndex(_) => "insert_index",
            Q::Remove(_) => "remove",
            Q::RemoveAliases(_) => "remove_aliases",
            Q::RemoveValues(_) => "remove_values",
            Q::RemoveIndex(_) => "remove_index",
        }
    }

    pub fn parse(toks: &[&str]) -> Option<Q> {
        match *toks.first()? {
            "in" => Some(Q::InsertNodes(InsertNodesQuery {
                count: toks.get(1)?.parse().ok()?,
                values: QueryValues::Single(parse_kvs(toks.get(2)?)?),
                aliases: vec![],
                ids: QueryIds::Ids(vec![]),
            })),
            "ina" => Some(Q::InsertNodes(InsertNodesQuery {
                count: 0,
                values: QueryValues::Single(parse_kvs(toks.get(2)?)?),
                aliases: parse_aliases(toks.get(1)?)?,
                ids: QueryIds::Ids(vec![]),
            })),
            "ie" => Some(Q::InsertEdges(InsertEdgesQuery {
                from: QueryIds::Ids(parse_ids(toks.get(1)?)?),
                to: QueryIds::Ids(parse_ids(toks.get(2)?)?),
                ids: QueryIds::Ids(vec![]),
                each: *toks.get(3)? == "1",
                values: QueryValues::Single(parse_kvs(toks.get(4)?)?),
            })),
            "ia" => Some(Q::InsertAliases(InsertAliasesQuery {
                ids: QueryIds::Ids(parse_ids(toks.get(1)?)?),
                aliases: parse_aliases(toks.get(2)?)?,
            })),
            "iv" => Some(Q::InsertValues(InsertValuesQuery {
                ids: QueryIds::Ids(parse_ids(toks.get(1)?)?),
                values: QueryValues::Single(parse_kvs(toks.get(2)?)?),
            })),
            "ix" => Some(Q::InsertIndex(InsertIndexQuery(parse_val(toks.get(1)?)?))),
            "rm" => Some(Q::Remove(RemoveQuery(QueryIds::Ids(parse_ids(toks.get(1)?)?)))),
            "ra" => Some(Q::RemoveAliases(RemoveAliasesQuery(parse_aliases(toks.get(1)?)?))),
            "rv" => Some(Q::RemoveValues(RemoveValuesQuery(SelectValuesQuery {
                ids: QueryIds::Ids(parse_ids(toks.get(1)?)?),
                keys: parse_vals(toks.get(2)?)?,
            }))),
            "rx" => Some(Q::RemoveIndex(RemoveIndexQuery(parse_val(toks.get(1)?)?))),
            _ => None,
        }
    }

    pub fn exec<S: StorageData>(&self, t: &mut TransactionMut<S>) -> Result<QueryResult, DbError> {
        match self {
            Q::InsertNodes(q) => t.exec_mut(q),
            Q::InsertEdges(q) => t.exec_mut(q),
            Q::InsertAliases(q) => t.exec_mut(q),
            Q::InsertValues(q) => t.exec_mut(q),
            Q::InsertIndex(q) => t.exec_mut(q),
            Q::Remove(q) => t.exec_mut(q),
            Q::RemoveAliases(q) => t.exec_mut(q),
            Q::RemoveValues(q) => t.exec_mut(q),
            Q::RemoveIndex(q) => t.exec_mut(q),
        }
    }
}

/// A step of a history: a single exec_mut or a multi-query transaction_mut.
#[derive(Debug, Clone)]
pub struct Step {
    pub queries: Vec<Q>,
    pub specs: Vec<String>,
    /// `None` = exec_mut of the single query; Some(true) = transaction whose closure
    /// returns Ok; Some(false) = transaction whose closure returns Err at its end.
    pub txn: Option<bool>,
}

impl Step {
    pub fn line(&self) -> String {
        match self.txn {
            None => format!("q {}", self.specs[0]),
            Some(ok) => format!("t {} {}", if ok { "ok" } else { "fail" }, self.specs.join(" ; ")),
        }
    }

    /// parse "q <spec>" / "t ok|fail <spec> ; <spec>" (anything after " | " is a hint, ignored)
    pub fn parse(line: &str) -> Option<Step> {
        let line = line.split(" | ").next()?;
        let toks: Vec<&str> = line.split(' ').filter(|t| !t.is_empty()).collect();
        match *toks.first()? {
            "q" => {
                let q = Q::parse(&toks[1..])?;
                Some(Step {
                    queries: vec![q],
                    specs: vec![toks[1..].join(" ")],
                    txn: None,
                })
            }
            "t" => {
                let ok = match *toks.get(1)? {
                    "ok" => true,
                    "fail" => false,
                    _ => return None,
                };
                let mut queries = vec![];
                let mut specs = vec![];
                for part in toks[2..].split(|t| *t == ";") {
                    if part.is_empty() {
                        continue;
                    }
                    queries.push(Q::parse(part)?);
                    specs.push(part.join(" "));
                }
                Some(Step {
                    queries,
                    specs,
                    txn: Some(ok),
                })
            }
            _ => None,
        }
    }

    /// Executes the step; returns "ok:<sum of results>" or "err".
    pub fn run<S: StorageData>(&self, db: &mut DbImpl<S>) -> Result<u64, DbError> {
        match self.txn {
            None => db
                .transaction_mut(|t| self.queries[0].exec(t))
                .map(|r| r.result),
            Some(ok) => db.transaction_mut(|t| -> Result<u64, DbError> {
                let mut sum = 0;
                for q in &self.queries {
                    sum += q.exec(t)?.result;
                }
                if ok {
                    Ok(sum)
                } else {
                    Err(DbError::new(
                        agdb::DbErrorCategory::Query,
                        agdb::DbErrorType::NotAllowed,
                        "closure failed",
                    ))
                }
            }),
        }
    }
}

// ---------------------------------------------------------------- generation

/// What the generator knows about the live database (read from the real db after every step).
#[derive(Default, Clone)]
pub struct Live {
    pub nodes: Vec<i64>,
    pub edges: Vec<i64>,
    pub aliases: Vec<String>,
    pub keys: Vec<DbValue>,
    pub indexes: Vec<DbValue>,
}

fn gen_key(rng: &mut Rng) -> DbValue {
    match rng.below(6) {
        0 => DbValue::String("k".to_string()),
        1 => DbValue::String("name".to_string()),
        2 => DbValue::I64(rng.below(3) as i64),
        3 => DbValue::String("a_rather_long_key_name".to_string()),
        4 => DbValue::U64(7),
        _ => DbValue::String(format!("key{}", rng.below(4))),
    }
}

fn gen_value(rng: &mut Rng) -> DbValue {
    match rng.below(9) {
        0 => DbValue::I64(rng.below(5) as i64 - 2),
        1 => DbValue::U64(rng.below(4)),
        2 => DbValue::String("x".repeat(rng.below(4) as usize)),
        // around the 15-byte inline limit of DbValueIndex
        3 => DbValue::String("y".repeat(rng.range(13, 18) as usize)),
        4 => DbValue::String("long string value ".repeat(rng.range(2, 6) as usize)),
        5 => DbValue::Bytes((0..rng.below(24)).map(|i| i as u8).collect()),
        6 => DbValue::F64(DbF64::from(rng.below(4) as f64 * 0.5)),
        7 => DbValue::VecI64((0..rng.below(5)).map(|i| i as i64 - 1).collect()),
        _ => DbValue::I64(1),
    }
}

fn gen_kvs(rng: &mut Rng, max: u64) -> Vec<DbKeyValue> {
    let n = rng.below(max + 1);
    let mut v: Vec<DbKeyValue> = vec![];
    for _ in 0..n {
        let key = gen_key(rng);
        if v.iter().any(|kv| kv.key == key) {
            continue;
        }
        v.push(DbKeyValue {
            key,
            value: gen_value(rng),
        });
    }
    v
}

fn gen_alias(rng: &mut Rng) -> String {
    match rng.below(3) {
        0 => format!("a{}", rng.below(6)),
        1 => format!("alias_number_{}_is_quite_long", rng.below(3)),
        _ => format!("n{}", rng.below(12)),
    }
}

fn some_id(rng: &mut Rng, live: &Live) -> String {
    let r = rng.below(20);
    if r == 0 {
        return format!("{}", rng.below(40) as i64 - 20); // possibly invalid
    }
    if r < 4 && !live.aliases.is_empty() {
        return format!("@{}", hex(rng.pick(&live.aliases).as_bytes()));
    }
    if r < 8 && !live.edges.is_empty() {
        return format!("{}", rng.pick(&live.edges));
    }
    if !live.nodes.is_empty() {
        return format!("{}", rng.pick(&live.nodes));
    }
    "1".to_string()
}

fn some_node(rng: &mut Rng, live: &Live) -> String {
    if rng.below(25) == 0 || live.nodes.is_empty() {
        return format!("{}", rng.below(30));
    }
    if rng.below(5) == 0 && !live.aliases.is_empty() {
        return format!("@{}", hex(rng.pick(&live.aliases).as_bytes()));
    }
    format!("{}", rng.pick(&live.nodes))
}

pub fn gen_spec(rng: &mut Rng, live: &Live) -> String {
    let empty = live.nodes.is_empty();
    let r = if empty { rng.below(3) } else { rng.below(100) };
    match r {
        0..=14 => format!("in {} {}", rng.range(1, 4), kvs_str(&gen_kvs(rng, 3))),
        15..=21 => {
            let n = rng.range(1, 2);
            let mut al: Vec<String> = vec![];
            for _ in 0..n {
                let a = gen_alias(rng);
                if !al.contains(&a) {
                    al.push(a);
                }
            }
            format!(
                "ina {} {}",
                al.iter().map(|a| hex(a.as_bytes())).collect::<Vec<_>>().join(","),
                kvs_str(&gen_kvs(rng, 2))
            )
        }
        22..=39 => {
            let nf = rng.range(1, 2);
            let nt = rng.range(1, 2);
            let from: Vec<String> = (0..nf).map(|_| some_node(rng, live)).collect();
            let to: Vec<String> = (0..nt).map(|_| some_node(rng, live)).collect();
            format!(
                "ie {} {} {} {}",
                from.join(","),
                to.join(","),
                if nf != nt || rng.chance(1, 3) { 1 } else { 0 },
                kvs_str(&gen_kvs(rng, 2))
            )
        }
        40..=47 => format!(
            "ia {} {}",
            some_node(rng, live),
            hex(gen_alias(rng).as_bytes())
        ),
        48..=63 => {
            let n = rng.range(1, 2);
            let ids: Vec<String> = (0..n).map(|_| some_id(rng, live)).collect();
            let mut kvs = gen_kvs(rng, 3);
            if kvs.is_empty() {
                kvs.push(DbKeyValue {
                    key: gen_key(rng),
                    value: gen_value(rng),
                });
            }
            format!("iv {} {}", ids.join(","), kvs_str(&kvs))
        }
        64..=69 => format!("ix {}", val_str(&gen_key(rng))),
        70..=84 => {
            let n = rng.range(1, 2);
            let ids: Vec<String> = (0..n).map(|_| some_id(rng, live)).collect();
            format!("rm {}", ids.join(","))
        }
        85..=88 => {
            let a = if !live.aliases.is_empty() && rng.chance(4, 5) {
                rng.pick(&live.aliases).clone()
            } else {
                gen_alias(rng)
            };
            format!("ra {}", hex(a.as_bytes()))
        }
        89..=95 => {
            let k = if !live.keys.is_empty() && rng.chance(4, 5) {
                rng.pick(&live.keys).clone()
            } else {
                gen_key(rng)
            };
            format!("rv {} {}", some_id(rng, live), val_str(&k))
        }
        _ => {
            let k = if !live.indexes.is_empty() && rng.chance(4, 5) {
                rng.pick(&live.indexes).clone()
            } else {
                gen_key(rng)
            };
            format!("rx {}", val_str(&k))
        }
    }
}

pub fn gen_step(rng: &mut Rng, live: &Live) -> Step {
    let line = if rng.chance(1, 5) && !live.nodes.is_empty() {
        let n = rng.range(2, 3);
        let specs: Vec<String> = (0..n).map(|_| gen_spec(rng, live)).collect();
        format!(
            "t {} {}",
            if rng.chance(2, 3) { "ok" } else { "fail" },
            specs.join(" ; ")
        )
    } else {
        format!("q {}", gen_spec(rng, live))
    };
    Step::parse(&line).unwrap_or_else(|| panic!("generated unparsable step: {line}"))
}
