//! Public `StorageData` wrapper around `agdb::FileStorage`: snapshots both files before every
//! mutating call (crash point at call granularity) and optionally fails the k-th call.

use agdb::DbError;
use agdb::DbErrorCategory;
use agdb::DbErrorType;
use agdb::FileStorage;
use agdb::StorageData;
use agdb::StorageSlice;
use std::cell::RefCell;

pub fn wal_name(path: &str) -> String {
    // same convention as write_ahead_log.rs `wal_filename`
    let pos = path.rfind('/').map(|p| p + 1).unwrap_or(0);
    let mut s = path.to_string();
    s.insert(pos, '.');
    s
}

#[derive(Clone)]
pub struct Snap {
    pub data: Vec<u8>,
    pub wal: Vec<u8>,
    /// index into `Ctl::commits` of the data image at the last commit point before this snapshot
    pub commit: usize,
}

#[derive(Clone, Copy, PartialEq, Eq, Debug)]
pub enum Fault {
    None,
    /// fail the k-th (1-based) mutating call, once
    Once(usize),
    /// fail the k-th call and every later one until disarmed
    Persist(usize),
}

pub struct Ctl {
    pub path: String,
    pub recording: bool,
    pub trace: String,
    pub snaps: Vec<Snap>,
    pub commits: Vec<Vec<u8>>,
    pub fault: Fault,
    pub calls: usize,
    pub fired: bool,
}

thread_local! {
    pub static CTL: RefCell<Ctl> = RefCell::new(Ctl {
        path: String::new(),
        recording: false,
        trace: String::new(),
        snaps: vec![],
        commits: vec![],
        fault: Fault::None,
        calls: 0,
        fired: false,
    });
}

fn read_file(p: &str) -> Vec<u8> {
    std::fs::read(p).unwrap_or_default()
}

impl Ctl {
    pub fn snapshot(&mut self) {
        let data = read_file(&self.path);
        let wal = read_file(&wal_name(&self.path));
        if self.commits.is_empty() {
            // the image at the start of recording is a commit image iff the log is empty;
            // otherwise (stuck transaction) the committed image is unknown: use undo by the real code
            self.commits.push(data.clone());
        }
        self.snaps.push(Snap {
            data,
            wal,
            commit: self.commits.len() - 1,
        });
    }

    pub fn start(&mut self) {
        self.recording = true;
        self.trace.clear();
        self.snaps.clear();
        self.commits.clear();
        self.calls = 0;
        self.fired = false;
    }

    /// stops recording and takes the final snapshot (crash point after the last call)
    pub fn stop(&mut self) {
        if self.recording {
            self.snapshot();
        }
        self.recording = false;
        self.fault = Fault::None;
    }

    /// returns true if this call must fail
    fn before(&mut self, kind: char) -> bool {
        if !self.recording {
            return false;
        }
        self.snapshot();
        self.calls += 1;
        let fail = match self.fault {
            Fault::None => false,
            Fault::Once(k) => self.calls == k,
            Fault::Persist(k) => self.calls >= k,
        };
        if fail {
            self.fired = true;
            self.trace.push(if kind == 'f' { 'F' } else { '!' });
        } else {
            self.trace.push(kind);
        }
        fail
    }

    fn after_flush(&mut self) {
        if self.recording {
            let data = read_file(&self.path);
            self.commits.push(data);
        }
    }
}

fn injected() -> DbError {
    DbError::new(
        DbErrorCategory::Storage,
        DbErrorType::NotAllowed,
        "injected write failure",
    )
}

pub struct CrashStorage {
    inner: FileStorage,
}

/// marks the call being executed as `p` (panicked, no effect) if the real call unwinds
struct PanicMark;

impl Drop for PanicMark {
    fn drop(&mut self) {
        if std::thread::panicking() {
            CTL.with(|c| {
                if let Ok(mut c) = c.try_borrow_mut()
                    && c.recording
                {
                    c.trace.pop();
                    c.trace.push('p');
                }
            });
        }
    }
}

impl StorageData for CrashStorage {
    fn backup(&self, name: &str) -> Result<(), DbError> {
        self.inner.backup(name)
    }

    fn copy(&self, name: &str) -> Result<Self, DbError> {
        Ok(Self {
            inner: self.inner.copy(name)?,
        })
    }

    fn flush(&mut self) -> Result<(), DbError> {
        if CTL.with(|c| c.borrow_mut().before('f')) {
            return Err(injected());
        }
        let r = self.inner.flush();
        if r.is_ok() {
            CTL.with(|c| c.borrow_mut().after_flush());
        }
        r
    }

    fn len(&self) -> u64 {
        self.inner.len()
    }

    fn name(&self) -> &str {
        self.inner.name()
    }

    fn new(name: &str) -> Result<Self, DbError> {
        Ok(Self {
            inner: FileStorage::new(name)?,
        })
    }

    fn read(&'_ self, pos: u64, value_len: u64) -> Result<StorageSlice<'_>, DbError> {
        self.inner.read(pos, value_len)
    }

    fn rename(&mut self, new_name: &str) -> Result<(), DbError> {
        self.inner.rename(new_name)
    }

    fn resize(&mut self, new_len: u64) -> Result<(), DbError> {
        if CTL.with(|c| c.borrow_mut().before('z')) {
            return Err(injected());
        }
        let _mark = PanicMark;
        self.inner.resize(new_len)
    }

    fn write(&mut self, pos: u64, bytes: &[u8]) -> Result<(), DbError> {
        if CTL.with(|c| c.borrow_mut().before(if bytes.is_empty() { 'o' } else { 'w' })) {
            return Err(injected());
        }
        let _mark = PanicMark;
        self.inner.write(pos, bytes)
    }
}
