//! C05 (placeholder, filled in later)
use crate::Out;
use crate::crash::Reopener;
use crate::rng::Rng;

pub fn run_case(out: &mut Out, _ro: &mut Reopener, _case: u64, lines: &[String]) {
    for l in lines {
        out.emit(l, "bad-op", None);
    }
}

pub fn gen_case(_rng: &mut Rng, _tmp: &str, _max: u64) -> Vec<String> {
    vec![]
}
