//! C05: reopen / optimize / shrink_to_fit / backup / copy / rename / other file-backed variant
//! preserve every query result.
//!
//! ops of a case:
//!   new <variant>          variant = mmap | file | memory | any_mmap | any_file | any_memory
//!   q … / t …              history steps (hint after ` | `: the observed result)
//!   m reopen|optimize|shrink|backup|copy|rename|as_mmap|as_file|as_any_file|as_any_mmap
//! output of an `m` line: `same` (deep dump before == after) | `diff` | `err` | `n/a`

use crate::Out;
use crate::crash::Reopener;
use crate::crash::short;
use crate::dump::Dump;
use crate::dump::dump;
use crate::guard::guarded;
use crate::queries::Live;
use crate::queries::Step;
use crate::queries::gen_step;
use crate::queries::hex;
use crate::rng::Rng;
use crate::store::wal_name;
use agdb::Db;
use agdb::DbAny;
use agdb::DbError;
use agdb::DbFile;
use agdb::DbMemory;

enum AnyDb {
    Mmap(Db),
    File(DbFile),
    Mem(DbMemory),
    Any(DbAny),
}

macro_rules! with_db {
    ($self:expr, $db:ident, $body:expr) => {
        match $self {
            AnyDb::Mmap($db) => $body,
            AnyDb::File($db) => $body,
            AnyDb::Mem($db) => $body,
            AnyDb::Any($db) => $body,
        }
    };
}

fn open(variant: &str, path: &str) -> Result<AnyDb, DbError> {
    Ok(match variant {
        "mmap" => AnyDb::Mmap(Db::new(path)?),
        "file" => AnyDb::File(DbFile::new(path)?),
        "memory" => AnyDb::Mem(DbMemory::new(path)?),
        "any_mmap" => AnyDb::Any(DbAny::new_mapped(path)?),
        "any_file" => AnyDb::Any(DbAny::new_file(path)?),
        _ => AnyDb::Any(DbAny::new_memory(path)?),
    })
}

fn is_memory(variant: &str) -> bool {
    variant == "memory" || variant == "any_memory"
}

fn ddump(db: &AnyDb) -> (Dump, Live) {
    with_db!(db, d, dump(d, true))
}

fn rm(path: &str) {
    let _ = std::fs::remove_file(path);
    let _ = std::fs::remove_file(wal_name(path));
}

pub fn run_case(out: &mut Out, ro: &mut Reopener, case: u64, lines: &[String]) {
    let dir = ro.dir.clone();
    let mut counter = 0;
    let mut path = format!("{dir}/m0.agdb");
    rm(&path);
    let mut variant = "file".to_string();
    let mut db: Option<AnyDb> = None;
    let mut text = String::new();
    let mut maint = 0;
    let mut max_elems = 0;
    let mut files: Vec<String> = vec![path.clone()];
    for l in lines {
        let line = out.ops.len();
        let what = l.split(" | ").next().unwrap_or(l).to_string();
        text.push_str(&what);
        text.push('\n');
        let toks: Vec<&str> = what.split(' ').collect();
        match toks[0] {
            "new" => {
                let v = toks.get(1).copied().unwrap_or("");
                if !["mmap", "file", "memory", "any_mmap", "any_file", "any_memory"].contains(&v) {
                    out.emit(&what, "bad-op", None);
                    continue;
                }
                variant = v.to_string();
                db = open(&variant, &path).ok();
                out.hist(&format!("variant_{variant}"));
                out.emit(&what, if db.is_some() { "ok" } else { "err" }, None);
            }
            "m" => {
                let op = toks.get(1).copied().unwrap_or("");
                let Some(d) = db.take() else {
                    out.emit(&what, "bad-op", None);
                    continue;
                };
                let (before, _) = ddump(&d);
                max_elems = max_elems.max(before.elements);
                counter += 1;
                let fresh = format!("{dir}/m{counter}.agdb");
                rm(&fresh);
                files.push(fresh.clone());
                out.hist(&format!("maint_{op}"));
                // every arm returns the database to continue with and the dump to compare
                let res: Result<Option<(AnyDb, Dump)>, String> = (|| -> Result<Option<(AnyDb, Dump)>, String> {
                    let e = |e: DbError| format!("{}/{}", e.category, e.ty);
                    match op {
                        "optimize" => {
                            let mut d = d;
                            with_db!(&mut d, x, x.optimize_storage()).map_err(e)?;
                            let a = ddump(&d).0;
                            Ok(Some((d, a)))
                        }
                        "shrink" => {
                            let mut d = d;
                            with_db!(&mut d, x, x.shrink_to_fit()).map_err(e)?;
                            let a = ddump(&d).0;
                            Ok(Some((d, a)))
                        }
                        "backup" => {
                            with_db!(&d, x, x.backup(&fresh)).map_err(e)?;
                            let a = {
                                let b = open(if is_memory(&variant) { "memory" } else { "file" }, &fresh).map_err(e)?;
                                ddump(&b).0
                            };
                            Ok(Some((d, a)))
                        }
                        "copy" => {
                            let c = match &d {
                                AnyDb::Mmap(x) => AnyDb::Mmap(x.copy(&fresh).map_err(e)?),
                                AnyDb::File(x) => AnyDb::File(x.copy(&fresh).map_err(e)?),
                                AnyDb::Mem(x) => AnyDb::Mem(x.copy(&fresh).map_err(e)?),
                                AnyDb::Any(x) => AnyDb::Any(x.copy(&fresh).map_err(e)?),
                            };
                            drop(d);
                            path = fresh.clone();
                            let a = ddump(&c).0;
                            Ok(Some((c, a)))
                        }
                        "rename" => {
                            let mut d = d;
                            with_db!(&mut d, x, x.rename(&fresh)).map_err(e)?;
                            path = fresh.clone();
                            let a = ddump(&d).0;
                            Ok(Some((d, a)))
                        }
                        "reopen" | "as_mmap" | "as_file" | "as_any_file" | "as_any_mmap" => {
                            let target = if op == "reopen" { variant.clone() } else { op[3..].to_string() };
                            if is_memory(&variant) {
                                if op != "reopen" {
                                    return Ok(None);
                                }
                                // in-memory: persist through a backup file and load that
                                with_db!(&d, x, x.backup(&fresh)).map_err(e)?;
                                drop(d);
                                path = fresh.clone();
                            } else {
                                drop(d);
                            }
                            let n = open(&target, &path).map_err(e)?;
                            variant = target;
                            let a = ddump(&n).0;
                            Ok(Some((n, a)))
                        }
                        _ => Err("bad-op".to_string()),
                    }
                })();
                out.evaluations += 1;
                match res {
                    Ok(Some((nd, after))) => {
                        maint += 1;
                        let same = after.text == before.text && after.read_errors.is_empty();
                        if !same {
                            out.violation(
                                case,
                                line,
                                &format!("C05/result-changed/{op}"),
                                "every query result must be the same after the maintenance operation",
                                &short(&before.text),
                                &short(&after.text),
                            );
                        }
                        db = Some(nd);
                        out.emit(&what, if same { "same" } else { "diff" }, None);
                    }
                    Ok(None) => {
                        // not applicable to this variant: reopen what we had
                        db = open(&variant, &path).ok();
                        out.emit(&what, "n/a", None);
                    }
                    Err(e) if e == "bad-op" => {
                        db = open(&variant, &path).ok();
                        out.emit(&what, "bad-op", None);
                    }
                    Err(e) => {
                        out.violation(
                            case,
                            line,
                            &format!("C05/operation-failed/{op}"),
                            "the maintenance operation must succeed on a healthy database",
                            "ok",
                            &e,
                        );
                        db = open(&variant, &path).ok();
                        out.emit(&what, "err", None);
                    }
                }
            }
            "q" | "t" => {
                let (Some(step), Some(d)) = (Step::parse(&what), db.as_mut()) else {
                    out.emit(&what, "bad-op", None);
                    continue;
                };
                for q in &step.queries {
                    out.hist(q.kind());
                }
                let r = guarded(|| match with_db!(d, x, step.run(x)) {
                    Ok(n) => format!("ok:{n}"),
                    Err(_) => "err".to_string(),
                })
                .unwrap_or_else(|b| b.line());
                out.emit(&format!("{what} | {r}"), &r, None);
            }
            _ => out.emit(&what, "bad-op", None),
        }
    }
    drop(db);
    for f in files {
        rm(&f);
    }
    out.case_done(&text, maint > 0 && max_elems >= 3);
}

pub fn gen_case(rng: &mut Rng, tmp: &str, max: u64) -> Vec<String> {
    let variants = ["mmap", "file", "memory", "any_mmap", "any_file", "any_memory"];
    let variant = variants[rng.below(6) as usize];
    let mut lines = vec![format!("new {variant}")];
    // run the history on a scratch DbFile to keep ids/aliases valid
    let path = format!("{tmp}/gen.agdb");
    rm(&path);
    {
        let mut db = DbFile::new(&path).expect("gen db");
        let mut live = Live::default();
        let n = rng.range(4, max);
        let ops = ["reopen", "optimize", "shrink", "backup", "copy", "rename", "as_mmap", "as_file", "as_any_file", "as_any_mmap"];
        // bulk profile (1 case in 3): grow the persistent hash maps / vectors past one or two capacity doublings, then
        // remove most of the entries so that they shrink again (rehash to a smaller capacity, vector resize downwards)
        // before the maintenance operations — nothing of this is reachable with the small alias/key pools of gen_step.
        let mut bulk: Vec<String> = vec![];
        if rng.chance(1, 3) {
            let na = rng.range(58, 150);
            let al: Vec<String> = (0..na).map(|i| hex(format!("b{i}").as_bytes())).collect();
            if rng.chance(1, 2) {
                bulk.push("q ix s6b".to_string());
            }
            bulk.push(format!("q ina {} s6b=i1", al.join(",")));
            if rng.chance(1, 2) {
                bulk.push(format!("q in {} s6b=i{}", rng.range(40, 120), rng.below(3)));
            }
            bulk.push("m reopen".to_string());
            // removals: nodes 1..=na are the aliased ones (fresh database)
            let keep = rng.range(0, na / 2);
            let mut ids: Vec<u64> = (1..=na).collect();
            // deterministic shuffle
            for i in (1..ids.len()).rev() {
                let j = rng.below(i as u64 + 1) as usize;
                ids.swap(i, j);
            }
            ids.truncate((na - keep) as usize);
            for chunk in ids.chunks(rng.range(8, 40) as usize) {
                if rng.chance(1, 4) {
                    for id in chunk {
                        bulk.push(format!("q ra {}", hex(format!("b{}", id - 1).as_bytes())));
                    }
                } else {
                    bulk.push(format!("q rm {}", chunk.iter().map(|i| i.to_string()).collect::<Vec<_>>().join(",")));
                }
            }
            bulk.push(format!("m {}", ops[rng.below(ops.len() as u64) as usize]));
        }
        for b in bulk {
            if let Some(step) = Step::parse(&b) {
                lines.push(step.line());
                let _ = guarded(|| {
                    let _ = step.run(&mut db);
                });
            } else if b.starts_with("m ") {
                lines.push(b);
            } else {
                panic!("bulk: unparsable step {b}");
            }
        }
        live = dump(&db, false).1;
        for i in 0..n {
            let step = gen_step(rng, &live);
            lines.push(step.line());
            let _ = guarded(|| {
                let _ = step.run(&mut db);
            });
            live = dump(&db, false).1;
            if rng.chance(1, 5) || i + 1 == n {
                lines.push(format!("m {}", ops[rng.below(ops.len() as u64) as usize]));
                if rng.chance(1, 3) {
                    lines.push(format!("m {}", ops[rng.below(ops.len() as u64) as usize]));
                }
            }
        }
    }
    rm(&path);
    lines
}
