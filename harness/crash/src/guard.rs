//! Allocation-limiting global allocator, panic hook recording the site, watchdog runner.

use std::alloc::GlobalAlloc;
use std::alloc::Layout;
use std::alloc::System;
use std::cell::Cell;
use std::cell::RefCell;
use std::sync::mpsc;
use std::time::Duration;

pub const ALLOC_LIMIT: usize = 256 * 1024 * 1024;

pub struct LimitAlloc;

thread_local! {
    static IN_HOOK: Cell<bool> = const { Cell::new(false) };
    static HUGE: RefCell<Option<(usize, String)>> = const { RefCell::new(None) };
    static PANIC_SITE: RefCell<Option<String>> = const { RefCell::new(None) };
    static GUARDED: Cell<u32> = const { Cell::new(0) };
}

fn site_from_backtrace() -> String {
    let bt = std::backtrace::Backtrace::force_capture().to_string();
    // first frame that belongs to the agdb crate (not the harness, not std)
    for line in bt.lines() {
        let l = line.trim();
        // lines look like "12: agdb::storage::Storage<D>::read_records"
        if let Some(pos) = l.find(": ") {
            let f = &l[pos + 2..];
            if (f.starts_with("agdb::") || f.starts_with("<agdb::")) && !f.contains("harness_crash") {
                return clean_fn(f);
            }
        }
    }
    "unknown".to_string()
}

fn clean_fn(f: &str) -> String {
    // strip generic arguments and hashes: keep a stable `module::Type::function`
    let mut out = String::new();
    let mut depth = 0i32;
    for c in f.chars() {
        match c {
            '<' => depth += 1,
            '>' => depth -= 1,
            _ => {
                if depth == 0 {
                    out.push(c)
                }
            }
        }
    }
    let out = out.replace(" as ", "::").replace(' ', "");
    let mut parts: Vec<&str> = out.split("::").filter(|p| !p.is_empty()).collect();
    if let Some(last) = parts.last()
        && last.starts_with('h')
        && last.len() == 17
    {
        parts.pop();
    }
    parts.retain(|p| !p.starts_with("{{"));
    if f.starts_with('<') {
        // "<agdb::a::B as agdb::c::D>::f" -> take the text inside the first <> up to " as "
        let inner = f.trim_start_matches('<');
        let ty = inner.split(" as ").next().unwrap_or(inner);
        let ty = clean_fn_simple(ty);
        let func = f.rsplit("::").find(|p| !(p.starts_with('h') && p.len() == 17)).unwrap_or("");
        return format!("{ty}::{func}");
    }
    parts.join("::")
}

fn clean_fn_simple(f: &str) -> String {
    let mut out = String::new();
    let mut depth = 0i32;
    for c in f.chars() {
        match c {
            '<' => depth += 1,
            '>' => depth -= 1,
            _ => {
                if depth == 0 {
                    out.push(c)
                }
            }
        }
    }
    out.replace(' ', "")
}

unsafe impl GlobalAlloc for LimitAlloc {
    unsafe fn alloc(&self, layout: Layout) -> *mut u8 {
        if layout.size() > ALLOC_LIMIT {
            huge(layout.size());
        }
        unsafe { System.alloc(layout) }
    }
    unsafe fn alloc_zeroed(&self, layout: Layout) -> *mut u8 {
        if layout.size() > ALLOC_LIMIT {
            huge(layout.size());
        }
        unsafe { System.alloc_zeroed(layout) }
    }
    unsafe fn dealloc(&self, ptr: *mut u8, layout: Layout) {
        unsafe { System.dealloc(ptr, layout) }
    }
    unsafe fn realloc(&self, ptr: *mut u8, layout: Layout, new_size: usize) -> *mut u8 {
        if new_size > ALLOC_LIMIT {
            huge(new_size);
        }
        unsafe { System.realloc(ptr, layout, new_size) }
    }
}

fn huge(size: usize) {
    let reentrant = IN_HOOK.with(|h| h.replace(true));
    if !reentrant {
        let site = site_from_backtrace();
        HUGE.with(|h| *h.borrow_mut() = Some((size, site)));
        IN_HOOK.with(|h| h.set(false));
    }
    panic!("hugealloc");
}

/// per-thread initialisation (thread locals are lazily created; nothing to do yet)
pub fn install_thread() {}

pub fn install_panic_hook() {
    std::panic::set_hook(Box::new(|info| {
        let reentrant = IN_HOOK.with(|h| h.replace(true));
        if reentrant {
            return;
        }
        if GUARDED.with(|g| g.get()) == 0 {
            eprintln!("harness panic outside guard: {info}");
        }
        let is_huge = HUGE.with(|h| h.borrow().is_some());
        if !is_huge {
            let loc = info
                .location()
                .map(|l| {
                    let f = l.file();
                    let f = f.rsplit("/src/").next().unwrap_or(f);
                    f.to_string()
                })
                .unwrap_or_default();
            let func = site_from_backtrace();
            let func = if func == "unknown" { loc } else { func };
            PANIC_SITE.with(|p| *p.borrow_mut() = Some(func));
        }
        IN_HOOK.with(|h| h.set(false));
    }));
}

#[derive(Debug, Clone, PartialEq, Eq)]
pub enum Bad {
    Panic(String),
    HugeAlloc(String, usize),
    Timeout,
}

impl Bad {
    pub fn line(&self) -> String {
        match self {
            Bad::Panic(s) => format!("panic:{s}"),
            Bad::HugeAlloc(s, _) => format!("hugealloc:{s}"),
            Bad::Timeout => "timeout".to_string(),
        }
    }
    pub fn kind(&self) -> &'static str {
        match self {
            Bad::Panic(_) => "panic",
            Bad::HugeAlloc(..) => "hugealloc",
            Bad::Timeout => "timeout",
        }
    }
    pub fn site(&self) -> String {
        match self {
            Bad::Panic(s) => s.clone(),
            Bad::HugeAlloc(s, _) => s.clone(),
            Bad::Timeout => "-".to_string(),
        }
    }
}

/// Runs `f` on the current thread under catch_unwind, mapping panics / huge allocations.
pub fn guarded<T>(f: impl FnOnce() -> T) -> Result<T, Bad> {
    HUGE.with(|h| *h.borrow_mut() = None);
    PANIC_SITE.with(|p| *p.borrow_mut() = None);
    GUARDED.with(|g| g.set(g.get() + 1));
    let r = std::panic::catch_unwind(std::panic::AssertUnwindSafe(f));
    GUARDED.with(|g| g.set(g.get() - 1));
    match r {
        Ok(v) => Ok(v),
        Err(_) => {
            if let Some((size, site)) = HUGE.with(|h| h.borrow_mut().take()) {
                Err(Bad::HugeAlloc(site, size))
            } else {
                let site = PANIC_SITE
                    .with(|p| p.borrow_mut().take())
                    .unwrap_or_else(|| "unknown".to_string());
                Err(Bad::Panic(site))
            }
        }
    }
}

type Job = Box<dyn FnOnce() + Send + 'static>;

/// A persistent worker thread with a watchdog: jobs run under `guarded`; a job that does not
/// finish in time is abandoned together with its thread and a new worker is started.
pub struct Worker {
    tx: Option<mpsc::Sender<Job>>,
}

impl Worker {
    pub fn new() -> Self {
        Worker { tx: None }
    }

    fn spawn() -> mpsc::Sender<Job> {
        let (tx, rx) = mpsc::channel::<Job>();
        std::thread::Builder::new()
            .stack_size(16 * 1024 * 1024)
            .spawn(move || {
                while let Ok(job) = rx.recv() {
                    job();
                }
            })
            .expect("spawn");
        tx
    }

    pub fn run<T: Send + 'static>(
        &mut self,
        timeout: Duration,
        f: impl FnOnce() -> T + Send + 'static,
    ) -> Result<T, Bad> {
        let (rtx, rrx) = mpsc::channel();
        let job: Job = Box::new(move || {
            let r = guarded(f);
            let _ = rtx.send(r);
        });
        if self.tx.is_none() {
            self.tx = Some(Self::spawn());
        }
        if let Err(e) = self.tx.as_ref().unwrap().send(job) {
            // worker died: restart once
            self.tx = Some(Self::spawn());
            let _ = self.tx.as_ref().unwrap().send(e.0);
        }
        match rrx.recv_timeout(timeout) {
            Ok(r) => r,
            Err(_) => {
                self.tx = None; // abandon the stuck thread
                Err(Bad::Timeout)
            }
        }
    }
}
