//! Canonical dump of everything a query can observe.

use crate::queries::Live;
use crate::queries::kvs_str;
use crate::queries::val_str;
use agdb::DbId;
use agdb::DbImpl;
use agdb::DbValue;
use agdb::QueryId;
use agdb::QueryIds;
use agdb::SearchQuery;
use agdb::SearchQueryAlgorithm;
use agdb::SelectAllAliasesQuery;
use agdb::SelectEdgeCountQuery;
use agdb::SelectIndexesQuery;
use agdb::SelectKeyCountQuery;
use agdb::SelectKeysQuery;
use agdb::SelectNodeCountQuery;
use agdb::SelectValuesQuery;
use agdb::StorageData;

#[derive(Clone, Debug, Default, PartialEq, Eq)]
pub struct Dump {
    /// canonical text (order-insensitive parts sorted)
    pub text: String,
    /// read errors met while dumping ("<what>:<category>/<type>")
    pub read_errors: Vec<String>,
    pub elements: usize,
}

fn search(alg: SearchQueryAlgorithm, origin: i64, destination: i64) -> SearchQuery {
    SearchQuery {
        algorithm: alg,
        origin: QueryId::Id(DbId(origin)),
        destination: QueryId::Id(DbId(destination)),
        limit: 0,
        offset: 0,
        order_by: vec![],
        conditions: vec![],
    }
}

fn err_str(what: &str, e: &agdb::DbError) -> String {
    // innermost cause carries the real category
    let mut c = e;
    while let Some(n) = &c.cause {
        c = n;
    }
    format!("{what}:{}/{}", c.category, c.ty)
}

/// dump under catch_unwind: a panic / huge allocation while reading becomes a read error
pub fn dump<S: StorageData>(db: &DbImpl<S>, deep: bool) -> (Dump, Live) {
    match crate::guard::guarded(|| dump_raw(db, deep)) {
        Ok(r) => r,
        Err(b) => (
            Dump {
                text: format!("ERR {}\n", b.line()),
                read_errors: vec![b.line()],
                elements: 0,
            },
            Live::default(),
        ),
    }
}

/// `deep` adds traversals from every node, keys, key counts and index searches in result order.
pub fn dump_raw<S: StorageData>(db: &DbImpl<S>, deep: bool) -> (Dump, Live) {
    let mut d = Dump::default();
    let mut live = Live::default();
    let mut t = String::new();

    match db.exec(SelectNodeCountQuery {}) {
        Ok(r) => t.push_str(&format!("nodes {}\n", r.result)),
        Err(e) => d.read_errors.push(err_str("node_count", &e)),
    }

    let all = SelectValuesQuery {
        keys: vec![],
        ids: QueryIds::Search(search(SearchQueryAlgorithm::Elements, 0, 0)),
    };
    let mut index_probe: Vec<(DbValue, DbValue)> = vec![];
    match db.exec(&all) {
        Ok(r) => {
            d.elements = r.elements.len();
            for e in &r.elements {
                t.push_str(&format!(
                    "e {} {} {} {}\n",
                    e.id.0,
                    e.from.0,
                    e.to.0,
                    kvs_str(&e.values)
                ));
                if e.id.0 > 0 {
                    live.nodes.push(e.id.0);
                } else {
                    live.edges.push(e.id.0);
                }
                for kv in &e.values {
                    if !live.keys.contains(&kv.key) {
                        live.keys.push(kv.key.clone());
                    }
                    let p = (kv.key.clone(), kv.value.clone());
                    if !index_probe.contains(&p) {
                        index_probe.push(p);
                    }
                }
            }
        }
        Err(e) => {
            d.read_errors.push(err_str("elements", &e));
            // fall back to ids only, then element by element, to find what is readable
            if let Ok(ids) = db.exec(search(SearchQueryAlgorithm::Elements, 0, 0)) {
                for id in ids.ids() {
                    let one = SelectValuesQuery {
                        keys: vec![],
                        ids: QueryIds::Ids(vec![QueryId::Id(id)]),
                    };
                    match db.exec(&one) {
                        Ok(r) => {
                            for e in &r.elements {
                                t.push_str(&format!(
                                    "e {} {} {} {}\n",
                                    e.id.0,
                                    e.from.0,
                                    e.to.0,
                                    kvs_str(&e.values)
                                ));
                            }
                        }
                        Err(e) => {
                            t.push_str(&format!("e {} ERR\n", id.0));
                            d.read_errors.push(err_str("values", &e));
                        }
                    }
                }
            }
        }
    }

    for n in &live.nodes {
        let q = SelectEdgeCountQuery {
            ids: QueryIds::Ids(vec![QueryId::Id(DbId(*n))]),
            from: true,
            to: true,
        };
        match db.exec(&q) {
            Ok(r) => {
                for e in &r.elements {
                    t.push_str(&format!("ec {} {}\n", e.id.0, kvs_str(&e.values)));
                }
            }
            Err(e) => d.read_errors.push(err_str("edge_count", &e)),
        }
    }

    match db.exec(SelectAllAliasesQuery {}) {
        Ok(r) => {
            for e in &r.elements {
                let a = e.values.first().map(|kv| val_str(&kv.value)).unwrap_or_default();
                t.push_str(&format!("a {} {}\n", a, e.id.0));
                if let Some(kv) = e.values.first()
                    && let DbValue::String(s) = &kv.value
                {
                    live.aliases.push(s.clone());
                }
            }
        }
        Err(e) => d.read_errors.push(err_str("aliases", &e)),
    }

    match db.exec(SelectIndexesQuery {}) {
        Ok(r) => {
            for e in &r.elements {
                let mut lines = vec![];
                for kv in &e.values {
                    lines.push(format!("x {} {}\n", val_str(&kv.key), val_str(&kv.value)));
                    live.indexes.push(kv.key.clone());
                }
                lines.sort();
                for l in lines {
                    t.push_str(&l);
                }
            }
        }
        Err(e) => d.read_errors.push(err_str("indexes", &e)),
    }

    let mut xs = vec![];
    for (k, v) in &index_probe {
        if !live.indexes.contains(k) {
            continue;
        }
        let q = SearchQuery {
            algorithm: SearchQueryAlgorithm::Index,
            origin: QueryId::Id(DbId(0)),
            destination: QueryId::Id(DbId(0)),
            limit: 0,
            offset: 0,
            order_by: vec![],
            conditions: vec![agdb::QueryCondition {
                logic: agdb::QueryConditionLogic::And,
                modifier: agdb::QueryConditionModifier::None,
                data: agdb::QueryConditionData::KeyValue(agdb::KeyValueComparison {
                    key: k.clone(),
                    value: agdb::Comparison::Equal(v.clone()),
                }),
            }],
        };
        match db.exec(&q) {
            Ok(r) => {
                let mut ids: Vec<i64> = r.ids().iter().map(|i| i.0).collect();
                if !deep {
                    ids.sort();
                }
                xs.push(format!("xs {} {} {:?}\n", val_str(k), val_str(v), ids));
            }
            Err(e) => d.read_errors.push(err_str("index_search", &e)),
        }
    }
    xs.sort();
    for l in xs {
        t.push_str(&l);
    }

    if deep {
        for n in &live.nodes {
            for (name, q) in [
                ("bfs", search(SearchQueryAlgorithm::BreadthFirst, *n, 0)),
                ("dfs", search(SearchQueryAlgorithm::DepthFirst, *n, 0)),
                ("bfsr", search(SearchQueryAlgorithm::BreadthFirst, 0, *n)),
                ("dfsr", search(SearchQueryAlgorithm::DepthFirst, 0, *n)),
            ] {
                match db.exec(&q) {
                    Ok(r) => {
                        let ids: Vec<i64> = r.ids().iter().map(|i| i.0).collect();
                        t.push_str(&format!("{name} {n} {ids:?}\n"));
                    }
                    Err(e) => d.read_errors.push(err_str(name, &e)),
                }
            }
        }
        let ids: Vec<QueryId> = live
            .nodes
            .iter()
            .chain(live.edges.iter())
            .map(|i| QueryId::Id(DbId(*i)))
            .collect();
        if !ids.is_empty() {
            match db.exec(SelectKeysQuery(QueryIds::Ids(ids.clone()))) {
                Ok(r) => {
                    for e in &r.elements {
                        let ks: Vec<String> = e.values.iter().map(|kv| val_str(&kv.key)).collect();
                        t.push_str(&format!("k {} {}\n", e.id.0, ks.join(",")));
                    }
                }
                Err(e) => d.read_errors.push(err_str("keys", &e)),
            }
            match db.exec(SelectKeyCountQuery(QueryIds::Ids(ids))) {
                Ok(r) => {
                    for e in &r.elements {
                        t.push_str(&format!("kc {} {}\n", e.id.0, kvs_str(&e.values)));
                    }
                }
                Err(e) => d.read_errors.push(err_str("key_count", &e)),
            }
        }
    }

    d.read_errors.sort();
    d.read_errors.dedup();
    for e in &d.read_errors {
        t.push_str(&format!("ERR {e}\n"));
    }
    d.text = t;
    (d, live)
}

pub fn fnv(s: &[u8]) -> u64 {
    let mut h: u64 = 0xcbf29ce484222325;
    for b in s {
        h ^= *b as u64;
        h = h.wrapping_mul(0x100000001b3);
    }
    h
}
