//! C07 (placeholder, filled in later)
use crate::Out;
use crate::crash::Reopener;
use crate::rng::Rng;

pub fn run_case(out: &mut Out, _ro: &mut Reopener, _case: u64, lines: &[String]) {
    for l in lines {
        out.emit(l, "bad-op", None);
    }
}

pub fn generate(_out: &mut Out, _rng: &mut Rng, _case_no: &mut u64, _n: u64, _tmp: &str) {}
