//! C07: opening / reading damaged database files never crashes the process.
//!
//! op line:  `open <variant> <data hex> <wal hex>`   variant = file | mmap | memory
//! output:   `ok:<read>` | `err` | `panic:<site>` | `hugealloc:<site>` | `timeout`
//!           where <read> = `ok` | `err` | `panic:<site>` | `hugealloc:<site>` (full read of the opened db)

use crate::Out;
use crate::crash::Reopener;
use crate::crash::gen_history;
use crate::dump::dump;
use crate::guard::Bad;
use crate::queries::Step;
use crate::queries::hex;
use crate::queries::unhex;
use crate::rng::Rng;
use crate::store::CTL;
use crate::store::CrashStorage;
use crate::store::Fault;
use crate::store::wal_name;
use agdb::Db;
use agdb::DbFile;
use agdb::DbImpl;
use agdb::DbMemory;
use std::time::Duration;

fn open_and_read(ro: &mut Reopener, variant: &str, data: &[u8], wal: &[u8]) -> String {
    ro.counter += 1;
    let path = format!("{}/d{}.agdb", ro.dir, ro.counter);
    let wal_path = wal_name(&path);
    std::fs::write(&path, data).expect("write mutant");
    if !wal.is_empty() {
        std::fs::write(&wal_path, wal).expect("write mutant wal");
    }
    let p = path.clone();
    let v = variant.to_string();
    let secs = std::env::var("VERIF_OPEN_TIMEOUT").ok().and_then(|s| s.parse().ok()).unwrap_or(20);
    let r = ro.worker.run(Duration::from_secs(secs), move || -> Result<(), ()> {
        match v.as_str() {
            "file" => DbFile::new(&p).map(|_| ()).map_err(|_| ()),
            "mmap" => Db::new(&p).map(|_| ()).map_err(|_| ()),
            _ => DbMemory::new(&p).map(|_| ()).map_err(|_| ()),
        }
    });
    // the open result first (the db is dropped = defragmented), then a second open for the full read
    let line = match r {
        Err(b) => b.line(),
        Ok(Err(())) => "err".to_string(),
        Ok(Ok(())) => {
            // restore the mutant (the first open may have rewritten the file on drop)
            std::fs::write(&path, data).expect("write mutant");
            if !wal.is_empty() {
                std::fs::write(&wal_path, wal).expect("write mutant wal");
            } else {
                let _ = std::fs::remove_file(&wal_path);
            }
            let p = path.clone();
            let v = variant.to_string();
            let r2 = ro.worker.run(Duration::from_secs(10), move || -> Option<Vec<String>> {
                match v.as_str() {
                    "file" => DbFile::new(&p).ok().map(|db| dump(&db, true).0.read_errors),
                    "mmap" => Db::new(&p).ok().map(|db| dump(&db, true).0.read_errors),
                    _ => DbMemory::new(&p).ok().map(|db| dump(&db, true).0.read_errors),
                }
            });
            match r2 {
                Err(b) => format!("ok:{}", b.line()),
                Ok(None) => "ok:reopen-err".to_string(),
                Ok(Some(errs)) => {
                    if let Some(b) = errs.iter().find(|e| e.starts_with("panic:") || e.starts_with("hugealloc:") || *e == "timeout") {
                        format!("ok:{b}")
                    } else if errs.is_empty() {
                        "ok:ok".to_string()
                    } else {
                        "ok:err".to_string()
                    }
                }
            }
        }
    };
    let _ = std::fs::remove_file(&path);
    let _ = std::fs::remove_file(&wal_path);
    line
}

fn bad_of(line: &str) -> Option<(String, String)> {
    let l = line.strip_prefix("ok:").unwrap_or(line);
    if let Some(s) = l.strip_prefix("panic:") {
        Some(("panic".to_string(), s.to_string()))
    } else if let Some(s) = l.strip_prefix("hugealloc:") {
        Some(("hugealloc".to_string(), s.to_string()))
    } else if l == "timeout" {
        Some(("timeout".to_string(), "open-path".to_string()))
    } else {
        None
    }
}

pub fn run_case(out: &mut Out, ro: &mut Reopener, case: u64, lines: &[String]) {
    let mut text = String::new();
    let mut nontrivial = false;
    for l in lines {
        let line = out.ops.len();
        let toks: Vec<&str> = l.split(' ').collect();
        if toks.len() != 4 || toks[0] != "open" || !["file", "mmap", "memory"].contains(&toks[1]) {
            out.emit(l, "bad-op", None);
            continue;
        }
        let (Some(data), Some(wal)) = (unhex(toks[2]), unhex(toks[3])) else {
            out.emit(l, "bad-op", None);
            continue;
        };
        let res = open_and_read(ro, toks[1], &data, &wal);
        out.evaluations += 1;
        out.hist(&format!("variant_{}", toks[1]));
        let class = res.split(':').take(2).collect::<Vec<_>>().join(":");
        out.hist(&format!("outcome_{}", if class.len() > 40 { &class[..40] } else { &class }));
        if let Some((kind, site)) = bad_of(&res) {
            let phase = if res.starts_with("ok:") { "read" } else { "open" };
            out.violation(
                case,
                line,
                &format!("C07/{kind}/{site}"),
                "opening/reading a damaged file must return a result or an error",
                "ok or err",
                &format!("{phase}: {res} (variant {}, {} data bytes, {} log bytes)", toks[1], data.len(), wal.len()),
            );
        }
        text.push_str(&format!("{} {} {}\n", toks[1], crate::dump::fnv(&data), crate::dump::fnv(&wal)));
        nontrivial = true;
        out.emit(l, &res, None);
    }
    let _ = Bad::Timeout;
    out.case_done(&text, nontrivial);
}

/// Valid base images: (data, wal) pairs — closed files and mid-transaction snapshots.
fn base_images(rng: &mut Rng, tmp: &str, n: usize) -> Vec<(Vec<u8>, Vec<u8>)> {
    let mut bases = vec![];
    for _ in 0..n {
        let steps = gen_history(rng, tmp, 7);
        let path = format!("{tmp}/base.agdb");
        let _ = std::fs::remove_file(&path);
        let _ = std::fs::remove_file(wal_name(&path));
        CTL.with(|c| {
            let mut c = c.borrow_mut();
            c.path = path.clone();
            c.recording = false;
            c.fault = Fault::None;
        });
        let mut mid: Option<(Vec<u8>, Vec<u8>)> = None;
        {
            let Ok(mut db) = DbImpl::<CrashStorage>::new(&path) else { continue };
            let last = steps.len().saturating_sub(1);
            for (i, l) in steps.iter().enumerate() {
                let Some(step) = Step::parse(l) else { continue };
                if i == last {
                    CTL.with(|c| c.borrow_mut().start());
                }
                let _ = crate::guard::guarded(|| {
                    let _ = step.run(&mut db);
                });
                if i == last {
                    CTL.with(|c| c.borrow_mut().stop());
                    // a snapshot from the middle of the last step: data + non-empty log
                    let snaps = CTL.with(|c| c.borrow().snaps.clone());
                    if snaps.len() > 2 {
                        let s = &snaps[snaps.len() / 2];
                        mid = Some((s.data.clone(), s.wal.clone()));
                    }
                }
            }
        }
        let data = std::fs::read(&path).unwrap_or_default();
        if !data.is_empty() && data.len() < 6000 {
            bases.push((data, vec![]));
        }
        if let Some((d, w)) = mid
            && d.len() < 6000
            && w.len() < 6000
        {
            bases.push((d, w));
        }
        let _ = std::fs::remove_file(&path);
        let _ = std::fs::remove_file(wal_name(&path));
    }
    bases
}

const INTERESTING: [u64; 14] = [
    0,
    1,
    2,
    7,
    16,
    24,
    0xFFFF,
    1 << 32,
    1 << 40,
    1 << 62,
    (1 << 63) - 1,
    1 << 63,
    u64::MAX - 15,
    u64::MAX,
];

/// offsets of the 16-byte record headers of a valid image
fn record_offsets(data: &[u8]) -> Vec<usize> {
    let mut v = vec![];
    let mut pos = 24usize;
    while pos + 16 <= data.len() {
        v.push(pos);
        let size = u64::from_le_bytes(data[pos + 8..pos + 16].try_into().unwrap());
        if size > data.len() as u64 {
            break;
        }
        pos += 16 + size as usize;
    }
    v
}

fn mutate(rng: &mut Rng, data: &[u8], wal: &[u8], out: &mut Out) -> (Vec<u8>, Vec<u8>) {
    let mut d = data.to_vec();
    let mut w = wal.to_vec();
    let recs = record_offsets(data);
    let kind = rng.below(if wal.is_empty() { 9 } else { 13 });
    match kind {
        0 => {
            out.hist("mut_truncate");
            d.truncate(rng.below(d.len() as u64 + 1) as usize);
        }
        1 => {
            out.hist("mut_truncate_near_record");
            if let Some(r) = recs.get(rng.below(recs.len() as u64) as usize) {
                let at = (*r + rng.below(20) as usize).min(d.len());
                d.truncate(at);
            }
        }
        2 => {
            out.hist("mut_bitflip_header");
            let at = if rng.chance(1, 3) || recs.is_empty() {
                rng.below(24.min(d.len() as u64)) as usize
            } else {
                recs[rng.below(recs.len() as u64) as usize] + rng.below(16) as usize
            };
            if at < d.len() {
                d[at] ^= 1 << rng.below(8);
            }
        }
        3 => {
            out.hist("mut_double_bitflip");
            for _ in 0..2 {
                let at = if recs.is_empty() {
                    rng.below(d.len() as u64) as usize
                } else {
                    recs[rng.below(recs.len() as u64) as usize] + rng.below(16) as usize
                };
                if at < d.len() {
                    d[at] ^= 1 << rng.below(8);
                }
            }
        }
        4 => {
            out.hist("mut_overwrite_record_size");
            if !recs.is_empty() {
                let r = recs[rng.below(recs.len() as u64) as usize];
                let v = pick_u64(rng, d.len() as u64);
                if r + 16 <= d.len() {
                    d[r + 8..r + 16].copy_from_slice(&v.to_le_bytes());
                }
            }
        }
        5 => {
            out.hist("mut_overwrite_record_index");
            if !recs.is_empty() {
                let r = recs[rng.below(recs.len() as u64) as usize];
                let v = pick_u64(rng, recs.len() as u64);
                if r + 8 <= d.len() {
                    d[r..r + 8].copy_from_slice(&v.to_le_bytes());
                }
            }
        }
        6 => {
            out.hist("mut_overwrite_u64_in_value");
            // overwrite an aligned u64 inside record payloads: lengths, storage indexes, capacities
            if d.len() > 48 {
                let at = 40 + 8 * rng.below(((d.len() - 40) / 8) as u64) as usize;
                let v = pick_u64(rng, d.len() as u64);
                if at + 8 <= d.len() {
                    d[at..at + 8].copy_from_slice(&v.to_le_bytes());
                }
            }
        }
        7 => {
            out.hist("mut_bitflip_anywhere");
            if !d.is_empty() {
                let at = rng.below(d.len() as u64) as usize;
                d[at] ^= 1 << rng.below(8);
            }
        }
        8 => {
            out.hist("mut_garbage_log");
            let n = rng.range(1, 64) as usize;
            w = (0..n).map(|_| rng.next() as u8).collect();
            if rng.chance(1, 2) {
                // a well-formed header with a hostile length
                let mut g = vec![];
                g.extend_from_slice(&rng.below(d.len() as u64 + 1).to_le_bytes());
                g.extend_from_slice(&pick_u64(rng, 64).to_le_bytes());
                g.extend((0..rng.below(24)).map(|i| i as u8));
                w = g;
            }
        }
        9 => {
            out.hist("mut_truncate_log");
            w.truncate(rng.below(w.len() as u64 + 1) as usize);
        }
        10 => {
            out.hist("mut_log_record_size");
            if w.len() >= 16 {
                let v = pick_u64(rng, w.len() as u64);
                w[8..16].copy_from_slice(&v.to_le_bytes());
            }
        }
        11 => {
            out.hist("mut_log_record_pos");
            if w.len() >= 8 {
                let v = pick_u64(rng, d.len() as u64);
                w[0..8].copy_from_slice(&v.to_le_bytes());
            }
        }
        _ => {
            out.hist("mut_log_bitflip");
            if !w.is_empty() {
                let at = rng.below(w.len().min(32) as u64) as usize;
                w[at] ^= 1 << rng.below(8);
            }
        }
    }
    (d, w)
}

fn pick_u64(rng: &mut Rng, around: u64) -> u64 {
    match rng.below(4) {
        0 => *rng.pick(&INTERESTING),
        1 => around.wrapping_add(rng.below(40)).wrapping_sub(20),
        2 => rng.below(64),
        _ => rng.next(),
    }
}

pub fn generate(out: &mut Out, rng: &mut Rng, case_no: &mut u64, n: u64, tmp: &str) {
    let n_bases = if n > 10_000 { 60 } else { 8 };
    let bases = base_images(rng, tmp, n_bases);
    out.hist(&format!("base_images_{}", bases.len()));
    let per_case = 25;
    let mut produced = 0;
    let variants = ["file", "mmap", "memory"];
    let mut cases = vec![];
    while produced < n {
        *case_no += 1;
        let mut lines = vec![];
        for _ in 0..per_case {
            let v = variants[rng.below(3) as usize];
            let (d, w) = if rng.chance(1, 15) || bases.is_empty() {
                out.hist("mut_random_file");
                let len = rng.below(200) as usize;
                let d: Vec<u8> = (0..len).map(|_| if rng.chance(1, 2) { 0 } else { rng.next() as u8 }).collect();
                (d, vec![])
            } else {
                let (bd, bw) = &bases[rng.below(bases.len() as u64) as usize];
                mutate(rng, bd, bw, out)
            };
            lines.push(format!("open {v} {} {}", hex(&d), hex(&w)));
            produced += 1;
        }
        cases.push((*case_no, lines));
    }
    crate::run_cases_parallel(out, tmp, "C07", cases);
}
