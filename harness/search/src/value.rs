//! Harness-side value type (independent of `agdb::DbValue`), its line-protocol
//! syntax and the two comparison semantics used by the reference evaluator.

use std::cmp::Ordering;

#[derive(Clone, Debug, PartialEq, Eq, Hash)]
pub enum Val {
    Bytes(Vec<u8>),
    I64(i64),
    U64(u64),
    /// bit pattern
    F64(u64),
    Str(String),
    VI64(Vec<i64>),
    VU64(Vec<u64>),
    /// bit patterns
    VF64(Vec<u64>),
    VStr(Vec<String>),
}

#[derive(Clone, Copy, Debug, PartialEq, Eq)]
pub enum Cmp {
    Eq,
    Gt,
    Ge,
    Lt,
    Le,
    Ne,
    Contains,
    Starts,
    Ends,
}

pub const ALL_CMP: [Cmp; 9] = [
    Cmp::Eq,
    Cmp::Gt,
    Cmp::Ge,
    Cmp::Lt,
    Cmp::Le,
    Cmp::Ne,
    Cmp::Contains,
    Cmp::Starts,
    Cmp::Ends,
];

impl Cmp {
    pub fn name(self) -> &'static str {
        match self {
            Cmp::Eq => "eq",
            Cmp::Gt => "gt",
            Cmp::Ge => "ge",
            Cmp::Lt => "lt",
            Cmp::Le => "le",
            Cmp::Ne => "ne",
            Cmp::Contains => "contains",
            Cmp::Starts => "starts",
            Cmp::Ends => "ends",
        }
    }

    pub fn parse(s: &str) -> Option<Cmp> {
        ALL_CMP.iter().copied().find(|c| c.name() == s)
    }
}

/// Comparison semantics of the reference evaluator.
/// `Strict` is the documented one ("type strict"); `VariantOrder` orders values of
/// different kinds by the kind (Bytes < I64 < U64 < F64 < String < VecI64 < VecU64 <
/// VecF64 < VecString) and is only used to classify a disagreement as the known
/// cross-type defect.
#[derive(Clone, Copy, Debug, PartialEq, Eq)]
pub enum Sem {
    Strict,
    VariantOrder,
}

fn hex(bytes: &[u8], empty: &str) -> String {
    if bytes.is_empty() {
        return empty.to_string();
    }
    let mut s = String::with_capacity(bytes.len() * 2);
    for b in bytes {
        s.push_str(&format!("{b:02x}"));
    }
    s
}

fn unhex(s: &str) -> Option<Vec<u8>> {
    if s == "_" {
        return Some(vec![]);
    }
    if s.is_empty() || s.len() % 2 != 0 {
        return None;
    }
    let b = s.as_bytes();
    let mut out = Vec::with_capacity(b.len() / 2);
    for pair in b.chunks(2) {
        let hi = nib(pair[0])?;
        let lo = nib(pair[1])?;
        out.push(hi * 16 + lo);
    }
    Some(out)
}

fn nib(c: u8) -> Option<u8> {
    match c {
        b'0'..=b'9' => Some(c - b'0'),
        b'a'..=b'f' => Some(c - b'a' + 10),
        _ => None,
    }
}

pub fn parse_i64(s: &str) -> Option<i64> {
    let v: i64 = s.parse().ok()?;
    if v.to_string() == s { Some(v) } else { None }
}

pub fn parse_u64(s: &str) -> Option<u64> {
    let v: u64 = s.parse().ok()?;
    if v.to_string() == s { Some(v) } else { None }
}

fn parse_list<T>(s: &str, f: impl Fn(&str) -> Option<T>) -> Option<Vec<T>> {
    if s == "~" {
        return Some(vec![]);
    }
    s.split(',').map(f).collect()
}

fn join<T>(xs: &[T], f: impl Fn(&T) -> String) -> String {
    if xs.is_empty() {
        return "~".to_string();
    }
    xs.iter().map(f).collect::<Vec<_>>().join(",")
}

impl Val {
    pub fn s(text: &str) -> Val {
        Val::Str(text.to_string())
    }

    pub fn f(x: f64) -> Val {
        Val::F64(x.to_bits())
    }

    pub fn parse(tok: &str) -> Option<Val> {
        let (tag, rest) = tok.split_once(':')?;
        match tag {
            "i" => parse_i64(rest).map(Val::I64),
            "u" => parse_u64(rest).map(Val::U64),
            "f" => parse_u64(rest).map(Val::F64),
            "s" => String::from_utf8(unhex(rest)?).ok().map(Val::Str),
            "b" => unhex(rest).map(Val::Bytes),
            "vi" => parse_list(rest, parse_i64).map(Val::VI64),
            "vu" => parse_list(rest, parse_u64).map(Val::VU64),
            "vf" => parse_list(rest, parse_u64).map(Val::VF64),
            "vs" => parse_list(rest, |x| String::from_utf8(unhex(x)?).ok()).map(Val::VStr),
            _ => None,
        }
    }

    pub fn fmt(&self) -> String {
        match self {
            Val::I64(v) => format!("i:{v}"),
            Val::U64(v) => format!("u:{v}"),
            Val::F64(v) => format!("f:{v}"),
            Val::Str(v) => format!("s:{}", hex(v.as_bytes(), "_")),
            Val::Bytes(v) => format!("b:{}", hex(v, "_")),
            Val::VI64(v) => format!("vi:{}", join(v, |x| x.to_string())),
            Val::VU64(v) => format!("vu:{}", join(v, |x| x.to_string())),
            Val::VF64(v) => format!("vf:{}", join(v, |x| x.to_string())),
            Val::VStr(v) => format!("vs:{}", join(v, |x| hex(x.as_bytes(), "_"))),
        }
    }

    /// position of the value kind in the kind order
    pub fn rank(&self) -> u8 {
        match self {
            Val::Bytes(_) => 0,
            Val::I64(_) => 1,
            Val::U64(_) => 2,
            Val::F64(_) => 3,
            Val::Str(_) => 4,
            Val::VI64(_) => 5,
            Val::VU64(_) => 6,
            Val::VF64(_) => 7,
            Val::VStr(_) => 8,
        }
    }

    /// ordering between two values of the SAME kind: integers numeric, f64 by IEEE
    /// total order, strings/bytes by bytes, vectors lexicographic.
    pub fn cmp_same_kind(&self, other: &Val) -> Option<Ordering> {
        Some(match (self, other) {
            (Val::Bytes(a), Val::Bytes(b)) => a.cmp(b),
            (Val::I64(a), Val::I64(b)) => a.cmp(b),
            (Val::U64(a), Val::U64(b)) => a.cmp(b),
            (Val::F64(a), Val::F64(b)) => fcmp(*a, *b),
            (Val::Str(a), Val::Str(b)) => a.as_bytes().cmp(b.as_bytes()),
            (Val::VI64(a), Val::VI64(b)) => a.cmp(b),
            (Val::VU64(a), Val::VU64(b)) => a.cmp(b),
            (Val::VF64(a), Val::VF64(b)) => lex(a, b, |x, y| fcmp(*x, *y)),
            (Val::VStr(a), Val::VStr(b)) => lex(a, b, |x, y| x.as_bytes().cmp(y.as_bytes())),
            _ => return None,
        })
    }

    /// total order: kind first, then the order within the kind
    pub fn cmp_variant_order(&self, other: &Val) -> Ordering {
        match self.cmp_same_kind(other) {
            Some(o) => o,
            None => self.rank().cmp(&other.rank()),
        }
    }
}

fn fcmp(a: u64, b: u64) -> Ordering {
    f64::from_bits(a).total_cmp(&f64::from_bits(b))
}

fn lex<T>(a: &[T], b: &[T], f: impl Fn(&T, &T) -> Ordering) -> Ordering {
    for (x, y) in a.iter().zip(b.iter()) {
        let o = f(x, y);
        if o != Ordering::Equal {
            return o;
        }
    }
    a.len().cmp(&b.len())
}

fn all_in<T: PartialEq>(hay: &[T], needles: &[T]) -> bool {
    needles.iter().all(|n| hay.contains(n))
}

/// `left <cmp> right` where `left` is the value stored on the element and `right`
/// the value given in the condition.
pub fn compare(left: &Val, cmp: Cmp, right: &Val, sem: Sem) -> bool {
    let ord = match sem {
        Sem::Strict => left.cmp_same_kind(right),
        Sem::VariantOrder => Some(left.cmp_variant_order(right)),
    };
    match cmp {
        Cmp::Eq => left == right,
        Cmp::Ne => left != right,
        Cmp::Gt => ord == Some(Ordering::Greater),
        Cmp::Ge => matches!(ord, Some(Ordering::Greater | Ordering::Equal)),
        Cmp::Lt => ord == Some(Ordering::Less),
        Cmp::Le => matches!(ord, Some(Ordering::Less | Ordering::Equal)),
        Cmp::Contains => match (left, right) {
            (Val::Str(l), Val::Str(r)) => l.contains(r.as_str()),
            (Val::Str(l), Val::VStr(r)) => r.iter().all(|x| l.contains(x.as_str())),
            (Val::VI64(l), Val::I64(r)) => l.contains(r),
            (Val::VI64(l), Val::VI64(r)) => all_in(l, r),
            (Val::VU64(l), Val::U64(r)) => l.contains(r),
            (Val::VU64(l), Val::VU64(r)) => all_in(l, r),
            (Val::VF64(l), Val::F64(r)) => l.contains(r),
            (Val::VF64(l), Val::VF64(r)) => all_in(l, r),
            (Val::VStr(l), Val::Str(r)) => l.contains(r),
            (Val::VStr(l), Val::VStr(r)) => all_in(l, r),
            _ => false,
        },
        Cmp::Starts => match (left, right) {
            (Val::Str(l), Val::Str(r)) => l.starts_with(r.as_str()),
            (Val::Str(l), Val::VStr(r)) => l.starts_with(r.concat().as_str()),
            (Val::VI64(l), Val::I64(r)) => l.first() == Some(r),
            (Val::VI64(l), Val::VI64(r)) => l.starts_with(r),
            (Val::VU64(l), Val::U64(r)) => l.first() == Some(r),
            (Val::VU64(l), Val::VU64(r)) => l.starts_with(r),
            (Val::VF64(l), Val::F64(r)) => l.first() == Some(r),
            (Val::VF64(l), Val::VF64(r)) => l.starts_with(r),
            (Val::VStr(l), Val::Str(r)) => l.first() == Some(r),
            (Val::VStr(l), Val::VStr(r)) => l.starts_with(r),
            _ => false,
        },
        Cmp::Ends => match (left, right) {
            (Val::Str(l), Val::Str(r)) => l.ends_with(r.as_str()),
            (Val::Str(l), Val::VStr(r)) => l.ends_with(r.concat().as_str()),
            (Val::VI64(l), Val::I64(r)) => l.last() == Some(r),
            (Val::VI64(l), Val::VI64(r)) => l.ends_with(r),
            (Val::VU64(l), Val::U64(r)) => l.last() == Some(r),
            (Val::VU64(l), Val::VU64(r)) => l.ends_with(r),
            (Val::VF64(l), Val::F64(r)) => l.last() == Some(r),
            (Val::VF64(l), Val::VF64(r)) => l.ends_with(r),
            (Val::VStr(l), Val::Str(r)) => l.last() == Some(r),
            (Val::VStr(l), Val::VStr(r)) => l.ends_with(r),
            _ => false,
        },
    }
}
