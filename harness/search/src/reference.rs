//! Reference implementations written from the documentation
//! (agdb_web/content/docs/03.references/01.queries.md, "Search" ... "Truth tables"):
//! condition evaluator, breadth-first / depth-first / elements traversals and the
//! path-search checker (Dijkstra + "is the result explained by a minimum-cost path").

use crate::mirror::Mirror;
use crate::ops::CData;
use crate::ops::Cond;
use crate::ops::Logic;
use crate::ops::Modi;
use crate::ops::CC;
use crate::value::Sem;
use crate::value::compare;
use std::cell::Cell;
use std::cmp::Reverse;
use std::collections::BinaryHeap;
use std::collections::HashMap;
use std::collections::HashSet;
use std::collections::VecDeque;

#[derive(Clone, Copy, Debug, PartialEq, Eq)]
pub enum Kind {
    Continue,
    Stop,
}

/// (traversal control, "include the element in the result")
pub type Ctl = (Kind, bool);

pub struct Ctx<'a> {
    pub g: &'a Mirror,
    pub sem: Sem,
    /// number of key-value comparisons between values of different kinds
    pub cross: Cell<u64>,
    /// number of key-value comparisons evaluated
    pub kv_evals: Cell<u64>,
}

impl<'a> Ctx<'a> {
    pub fn new(g: &'a Mirror, sem: Sem) -> Ctx<'a> {
        Ctx {
            g,
            sem,
            cross: Cell::new(0),
            kv_evals: Cell::new(0),
        }
    }
}

#[derive(Clone, Copy, Debug, PartialEq, Eq)]
pub enum Dir {
    Fwd,
    Rev,
}

// ------------------------------------------------------------ truth tables

fn and(l: Ctl, r: Ctl) -> Ctl {
    let b = l.1 && r.1;
    match (l.0, r.0) {
        (Kind::Continue, Kind::Continue) => (Kind::Continue, b),
        _ => (Kind::Stop, b),
    }
}

fn or(l: Ctl, r: Ctl) -> Ctl {
    let b = l.1 || r.1;
    match (l.0, r.0) {
        (Kind::Stop, Kind::Stop) => (Kind::Stop, b),
        _ => (Kind::Continue, b),
    }
}

fn distance(cc: CC, k: u64, d: u64) -> Ctl {
    match cc {
        CC::Eq => {
            if d < k {
                (Kind::Continue, false)
            } else if d == k {
                (Kind::Stop, true)
            } else {
                (Kind::Stop, false)
            }
        }
        CC::Lt => {
            if d < k {
                (Kind::Continue, true)
            } else {
                (Kind::Stop, false)
            }
        }
        CC::Le => {
            if d <= k {
                (Kind::Continue, true)
            } else {
                (Kind::Stop, false)
            }
        }
        CC::Gt | CC::Ge | CC::Ne => (Kind::Continue, cc.holds(d, k)),
    }
}

fn eval_data(ctx: &Ctx, data: &CData, id: i64, dist: u64) -> Ctl {
    let g = ctx.g;
    match data {
        CData::Node => (Kind::Continue, id > 0),
        CData::Edge => (Kind::Continue, id < 0),
        CData::Dist(cc, k) => distance(*cc, *k, dist),
        CData::Ec(cc, k) => (
            Kind::Continue,
            g.nodes
                .get(&id)
                .is_some_and(|n| cc.holds((n.out.len() + n.inc.len()) as u64, *k)),
        ),
        CData::Ecf(cc, k) => (
            Kind::Continue,
            g.nodes
                .get(&id)
                .is_some_and(|n| cc.holds(n.out.len() as u64, *k)),
        ),
        CData::Ect(cc, k) => (
            Kind::Continue,
            g.nodes
                .get(&id)
                .is_some_and(|n| cc.holds(n.inc.len() as u64, *k)),
        ),
        CData::Ids(ids) => (Kind::Continue, ids.contains(&id)),
        CData::Keys(keys) => (
            Kind::Continue,
            keys.iter().all(|k| g.value(id, k).is_some()),
        ),
        CData::Kv(key, cmp, right) => (
            Kind::Continue,
            match g.value(id, key) {
                Some(left) => {
                    ctx.kv_evals.set(ctx.kv_evals.get() + 1);
                    if left.rank() != right.rank() {
                        ctx.cross.set(ctx.cross.get() + 1);
                    }
                    compare(left, *cmp, right, ctx.sem)
                }
                None => false,
            },
        ),
        CData::Where(list) => eval_conds(ctx, list, id, dist),
    }
}

/// Folds the conditions left to right starting from Continue(true).
pub fn eval_conds(ctx: &Ctx, conds: &[Cond], id: i64, dist: u64) -> Ctl {
    let mut acc: Ctl = (Kind::Continue, true);
    for c in conds {
        let mut r = eval_data(ctx, &c.data, id, dist);
        match c.modi {
            Modi::None => {}
            Modi::Not => r.1 = !r.1,
            // traversal only, selection-neutral: carries the value accumulated so far
            Modi::Beyond => {
                r = if r.1 || dist == 0 {
                    (Kind::Continue, acc.1)
                } else {
                    (Kind::Stop, acc.1)
                }
            }
            Modi::NotBeyond => {
                r = if r.1 {
                    (Kind::Stop, acc.1)
                } else {
                    (Kind::Continue, acc.1)
                }
            }
        }
        acc = match c.logic {
            Logic::And => and(acc, r),
            Logic::Or => or(acc, r),
        };
    }
    acc
}

pub fn has_dist(conds: &[Cond]) -> bool {
    conds.iter().any(|c| match &c.data {
        CData::Dist(..) => true,
        CData::Where(l) => has_dist(l),
        _ => false,
    })
}

// ------------------------------------------------------------ traversals

/// successors of an element: a node leads to its edges (most recent first), an edge to
/// its far end.
fn next_of(g: &Mirror, x: i64, dir: Dir) -> Vec<i64> {
    if x > 0 {
        match g.nodes.get(&x) {
            Some(n) => match dir {
                Dir::Fwd => n.out.clone(),
                Dir::Rev => n.inc.clone(),
            },
            None => vec![],
        }
    } else {
        match g.edges.get(&x) {
            Some((from, to)) => vec![match dir {
                Dir::Fwd => *to,
                Dir::Rev => *from,
            }],
            None => vec![],
        }
    }
}

/// level-order traversal, plain FIFO queue, visited checked on removal from the queue
pub fn bfs(ctx: &Ctx, origin: i64, dir: Dir, conds: &[Cond]) -> Vec<i64> {
    let mut out = vec![];
    let mut visited: HashSet<i64> = HashSet::new();
    let mut queue: VecDeque<(i64, u64)> = VecDeque::new();
    queue.push_back((origin, 0));
    while let Some((x, d)) = queue.pop_front() {
        if !visited.insert(x) {
            continue;
        }
        let (kind, add) = eval_conds(ctx, conds, x, d);
        if add {
            out.push(x);
        }
        if kind == Kind::Continue {
            for y in next_of(ctx.g, x, dir) {
                queue.push_back((y, d + 1));
            }
        }
    }
    out
}

fn dfs_visit(
    ctx: &Ctx,
    x: i64,
    d: u64,
    dir: Dir,
    conds: &[Cond],
    visited: &mut HashSet<i64>,
    out: &mut Vec<i64>,
) {
    if !visited.insert(x) {
        return;
    }
    let (kind, add) = eval_conds(ctx, conds, x, d);
    if add {
        out.push(x);
    }
    if kind == Kind::Continue {
        for y in next_of(ctx.g, x, dir) {
            dfs_visit(ctx, y, d + 1, dir, conds, visited, out);
        }
    }
}

/// recursive pre-order
pub fn dfs(ctx: &Ctx, origin: i64, dir: Dir, conds: &[Cond]) -> Vec<i64> {
    let mut out = vec![];
    let mut visited = HashSet::new();
    dfs_visit(ctx, origin, 0, dir, conds, &mut visited, &mut out);
    out
}

/// every live element once in increasing |id|, distance = position, Stop is irrelevant
pub fn elements(ctx: &Ctx, conds: &[Cond]) -> Vec<i64> {
    ctx.g
        .elements_by_slot()
        .into_iter()
        .enumerate()
        .filter(|(pos, id)| eval_conds(ctx, conds, *id, *pos as u64).1)
        .map(|(_, id)| id)
        .collect()
}

// ------------------------------------------------------------ path search

#[derive(Clone, Debug, PartialEq, Eq)]
pub enum PathVerdict {
    Ok,
    /// oracle not applicable (distance conditions on a big graph / empty result with distance conditions)
    Skipped,
    /// emptiness is wrong: (rule text)
    Empty(String),
    NotAPath,
    /// (minimum cost, cheapest cost explaining the observed result)
    NotOptimal(u64, u64),
    /// explained only when edges are evaluated at distance + 1
    EdgeDistance,
    /// distance-dependent conditions: (cheapest usable simple path, cheapest simple path explaining the observed
    /// result or `None` when no usable simple path explains it, e.g. an empty result although a usable path exists)
    DistanceDependent(u64, Option<u64>),
}

pub const DYNAMIC_MAX_NODES: usize = 8;
pub const DYNAMIC_MAX_EDGES: usize = 24;

struct Static {
    usable: bool,
    pass: bool,
    cost: u64,
}

fn step(observed: &[i64], pass: bool, x: i64, k: usize) -> Option<usize> {
    if pass {
        if k < observed.len() && observed[k] == x {
            Some(k + 1)
        } else {
            None
        }
    } else {
        Some(k)
    }
}

fn check_static(ctx: &Ctx, from: i64, to: i64, conds: &[Cond], observed: &[i64]) -> PathVerdict {
    let g = ctx.g;
    // distance-independent apart from "distance == 0" (the origin): evaluate others at 1
    let mut info: HashMap<i64, Static> = HashMap::new();
    for x in g.elements_by_slot() {
        let (kind, pass) = eval_conds(ctx, conds, x, 1);
        info.insert(
            x,
            Static {
                usable: kind == Kind::Continue,
                pass,
                cost: if pass { 1 } else { 2 },
            },
        );
    }
    let origin_pass = eval_conds(ctx, conds, from, 0).1;

    // minimum cost over usable elements (origin costs 0 and is always usable)
    let mut best: HashMap<i64, u64> = HashMap::new();
    let mut heap = BinaryHeap::new();
    best.insert(from, 0);
    heap.push(Reverse((0u64, from)));
    while let Some(Reverse((c, n))) = heap.pop() {
        if best.get(&n).is_some_and(|b| *b < c) {
            continue;
        }
        for e in &g.nodes[&n].out {
            let ei = &info[e];
            let t = g.edges[e].1;
            let ti = &info[&t];
            if !ei.usable || !ti.usable {
                continue;
            }
            let nc = c + ei.cost + ti.cost;
            if best.get(&t).is_none_or(|b| nc < *b) {
                best.insert(t, nc);
                heap.push(Reverse((nc, t)));
            }
        }
    }
    // `best[to]` for to == from is excluded by the caller
    let cstar = match best.get(&to) {
        Some(c) => *c,
        None => {
            return if observed.is_empty() {
                PathVerdict::Ok
            } else {
                PathVerdict::Empty("no usable path exists: result must be empty".into())
            };
        }
    };

    // cheapest walk origin -> destination whose passing elements are exactly `observed`
    let start_k = if origin_pass {
        if observed.first() == Some(&from) {
            Some(1usize)
        } else {
            None
        }
    } else {
        Some(0usize)
    };
    let mut cobs: Option<u64> = None;
    if let Some(k0) = start_k {
        let mut best2: HashMap<(i64, usize), u64> = HashMap::new();
        let mut heap2 = BinaryHeap::new();
        best2.insert((from, k0), 0);
        heap2.push(Reverse((0u64, from, k0)));
        while let Some(Reverse((c, n, k))) = heap2.pop() {
            if best2.get(&(n, k)).is_some_and(|b| *b < c) {
                continue;
            }
            if n == to && k == observed.len() && !(n == from && c == 0) {
                cobs = Some(c);
                break;
            }
            for e in &g.nodes[&n].out {
                let ei = &info[e];
                if !ei.usable {
                    continue;
                }
                let Some(k1) = step(observed, ei.pass, *e, k) else {
                    continue;
                };
                let t = g.edges[e].1;
                let ti = &info[&t];
                if !ti.usable {
                    continue;
                }
                let Some(k2) = step(observed, ti.pass, t, k1) else {
                    continue;
                };
                let nc = c + ei.cost + ti.cost;
                if best2.get(&(t, k2)).is_none_or(|b| nc < *b) {
                    best2.insert((t, k2), nc);
                    heap2.push(Reverse((nc, t, k2)));
                }
            }
        }
    }
    match cobs {
        None => {
            if observed.is_empty() {
                PathVerdict::Empty(
                    "a usable path exists and every such path has passing elements: result must not be empty".into(),
                )
            } else {
                PathVerdict::NotAPath
            }
        }
        Some(c) if c > cstar => PathVerdict::NotOptimal(cstar, c),
        Some(_) => PathVerdict::Ok,
    }
}

struct Dyn<'a, 'b> {
    ctx: &'a Ctx<'b>,
    conds: &'a [Cond],
    observed: &'a [i64],
    to: i64,
    /// extra distance added when an edge is evaluated
    edge_bump: u64,
    on_path: HashSet<i64>,
    budget: u64,
    exhausted: bool,
}

impl Dyn<'_, '_> {
    /// node `n` is at distance `d`, `k` result elements matched so far
    fn go(&mut self, n: i64, d: u64, k: usize) -> bool {
        if self.budget == 0 {
            self.exhausted = true;
            return false;
        }
        self.budget -= 1;
        let outs = self.ctx.g.nodes[&n].out.clone();
        for e in outs {
            let (ek, ep) = eval_conds(self.ctx, self.conds, e, d + 1 + self.edge_bump);
            if ek == Kind::Stop {
                continue;
            }
            let Some(k1) = step(self.observed, ep, e, k) else {
                continue;
            };
            let t = self.ctx.g.edges[&e].1;
            if self.on_path.contains(&t) {
                continue;
            }
            let (tk, tp) = eval_conds(self.ctx, self.conds, t, d + 2);
            if tk == Kind::Stop {
                continue;
            }
            let Some(k2) = step(self.observed, tp, t, k1) else {
                continue;
            };
            if t == self.to {
                if k2 == self.observed.len() {
                    return true;
                }
                continue;
            }
            self.on_path.insert(t);
            let found = self.go(t, d + 2, k2);
            self.on_path.remove(&t);
            if found {
                return true;
            }
        }
        false
    }
}

impl Dyn<'_, '_> {
    /// exhaustive variant: minimum cost over usable simple paths n -> to; when `matching` the path must also
    /// explain `observed` from position `k` on. `cost` = cost so far. Result in `best`.
    fn go_min(&mut self, n: i64, d: u64, k: usize, cost: u64, matching: bool, best: &mut Option<u64>) {
        if self.budget == 0 {
            self.exhausted = true;
            return;
        }
        self.budget -= 1;
        if best.is_some_and(|b| cost >= b) {
            return;
        }
        let outs = self.ctx.g.nodes[&n].out.clone();
        for e in outs {
            let (ek, ep) = eval_conds(self.ctx, self.conds, e, d + 1);
            if ek == Kind::Stop {
                continue;
            }
            let k1 = if matching {
                match step(self.observed, ep, e, k) {
                    Some(k1) => k1,
                    None => continue,
                }
            } else {
                k
            };
            let t = self.ctx.g.edges[&e].1;
            if self.on_path.contains(&t) {
                continue;
            }
            let (tk, tp) = eval_conds(self.ctx, self.conds, t, d + 2);
            if tk == Kind::Stop {
                continue;
            }
            let k2 = if matching {
                match step(self.observed, tp, t, k1) {
                    Some(k2) => k2,
                    None => continue,
                }
            } else {
                k1
            };
            let c = cost + if ep { 1 } else { 2 } + if tp { 1 } else { 2 };
            if t == self.to {
                if (!matching || k2 == self.observed.len()) && best.is_none_or(|b| c < b) {
                    *best = Some(c);
                }
                continue;
            }
            self.on_path.insert(t);
            self.go_min(t, d + 2, k2, c, matching, best);
            self.on_path.remove(&t);
        }
    }
}

/// (cheapest usable simple path, cheapest one explaining `observed`); `None` = budget exhausted
fn dynamic_optimum(ctx: &Ctx, from: i64, to: i64, conds: &[Cond], observed: &[i64]) -> Option<(Option<u64>, Option<u64>)> {
    let origin_pass = eval_conds(ctx, conds, from, 0).1;
    let mut d = Dyn {
        ctx,
        conds,
        observed,
        to,
        edge_bump: 0,
        on_path: HashSet::from([from]),
        budget: 2_000_000,
        exhausted: false,
    };
    let mut best_any = None;
    d.go_min(from, 0, 0, 0, false, &mut best_any);
    if d.exhausted {
        return None;
    }
    let mut best_obs = None;
    if let Some(k0) = step(observed, origin_pass, from, 0) {
        d.go_min(from, 0, k0, 0, true, &mut best_obs);
        if d.exhausted {
            return None;
        }
    }
    Some((best_any, best_obs))
}

fn explained_dynamic(
    ctx: &Ctx,
    from: i64,
    to: i64,
    conds: &[Cond],
    observed: &[i64],
    edge_bump: u64,
) -> Option<bool> {
    let origin_pass = eval_conds(ctx, conds, from, 0).1;
    let Some(k0) = step(observed, origin_pass, from, 0) else {
        return Some(false);
    };
    let mut d = Dyn {
        ctx,
        conds,
        observed,
        to,
        edge_bump,
        on_path: HashSet::from([from]),
        budget: 2_000_000,
        exhausted: false,
    };
    let found = d.go(from, 0, k0);
    if !found && d.exhausted { None } else { Some(found) }
}

/// `observed` is the result of `search from -> to` with `conds` (no limit/offset/order).
pub fn check_path(ctx: &Ctx, from: i64, to: i64, conds: &[Cond], observed: &[i64]) -> PathVerdict {
    let g = ctx.g;
    if from == to || !g.is_node(from) || !g.is_node(to) {
        return if observed.is_empty() {
            PathVerdict::Ok
        } else {
            PathVerdict::Empty(
                "origin == destination or an endpoint is not a node: result must be empty".into(),
            )
        };
    }
    if !has_dist(conds) {
        return check_static(ctx, from, to, conds, observed);
    }
    if g.nodes.len() > DYNAMIC_MAX_NODES || g.edges.len() > DYNAMIC_MAX_EDGES {
        return PathVerdict::Skipped;
    }
    if observed.is_empty() {
        // empty is right iff no usable simple path exists or some cheapest one has no passing element
        return match dynamic_optimum(ctx, from, to, conds, observed) {
            None => PathVerdict::Skipped,
            Some((None, _)) => PathVerdict::Ok,
            Some((Some(c), Some(o))) if o <= c => PathVerdict::Ok,
            Some((Some(c), o)) => PathVerdict::DistanceDependent(c, o),
        };
    }
    match explained_dynamic(ctx, from, to, conds, observed, 0) {
        Some(true) => match dynamic_optimum(ctx, from, to, conds, observed) {
            Some((Some(c), Some(o))) if o > c => PathVerdict::DistanceDependent(c, Some(o)),
            _ => PathVerdict::Ok,
        },
        None => PathVerdict::Skipped,
        Some(false) => match explained_dynamic(ctx, from, to, conds, observed, 1) {
            Some(true) => PathVerdict::EdgeDistance,
            None => PathVerdict::Skipped,
            Some(false) => PathVerdict::NotAPath,
        },
    }
}
