//! Case generators. Every op is produced as a text line and executed through the same
//! parse + execute path that `replay` uses; ids come from the implementation's answers.

use crate::ops::ALL_CC;
use crate::ops::Alg;
use crate::ops::CData;
use crate::ops::Cond;
use crate::ops::Logic;
use crate::ops::Modi;
use crate::ops::Op;
use crate::ops::Search;
use crate::ops::CC;
use crate::prng::Rng;
use crate::reference::Ctx;
use crate::reference::Dir;
use crate::reference::bfs;
use crate::reference::has_dist;
use crate::runner::Prop;
use crate::runner::Runner;
use crate::value::ALL_CMP;
use crate::value::Sem;
use crate::value::Val;
use std::collections::BTreeSet;

pub fn key_pool() -> Vec<Val> {
    vec![
        Val::s("k"),
        Val::s("age"),
        Val::s("name"),
        Val::I64(1),
        Val::U64(7),
    ]
}

/// Values deliberately mixing kinds around the same numeric value.
pub fn value_pool() -> Vec<Val> {
    vec![
        Val::I64(5),
        Val::I64(30),
        Val::I64(31),
        Val::I64(-1),
        Val::U64(5),
        Val::U64(30),
        Val::U64(31),
        Val::f(5.0),
        Val::f(30.0),
        Val::f(-0.0),
        Val::f(0.0),
        Val::F64(0x7ff8_0000_0000_0000),
        Val::f(f64::NEG_INFINITY),
        Val::s(""),
        Val::s("abc"),
        Val::s("abd"),
        Val::s("b"),
        Val::s("c"),
        Val::Bytes(vec![]),
        Val::Bytes(vec![0x0a, 0x1e]),
        Val::VI64(vec![]),
        Val::VI64(vec![30]),
        Val::VI64(vec![5, 30]),
        Val::VU64(vec![30]),
        Val::VU64(vec![5, 30]),
        Val::VF64(vec![30.0f64.to_bits()]),
        Val::VF64(vec![5.0f64.to_bits(), 30.0f64.to_bits()]),
        Val::VStr(vec![]),
        Val::VStr(vec!["abc".into()]),
        Val::VStr(vec!["ab".into(), "c".into()]),
    ]
}

struct GraphOpts {
    max_nodes: u64,
    props: bool,
    /// percentage of cases that go through removal / re-insert rounds
    removal_pct: u64,
    max_rounds: u64,
    /// upper bound (percent of the live elements) removed per round
    removal_share: u64,
}

pub struct Gen<'a> {
    pub r: &'a mut Runner,
    rng: Rng,
    keys: Vec<Val>,
    vals: Vec<Val>,
    thorough: bool,
}

fn ok_id(out: &str) -> Option<i64> {
    out.strip_prefix("ok ")?.parse().ok()
}

impl<'a> Gen<'a> {
    pub fn new(r: &'a mut Runner, seed: u64, thorough: bool) -> Gen<'a> {
        Gen {
            r,
            rng: Rng::new(seed),
            keys: key_pool(),
            vals: value_pool(),
            thorough,
        }
    }

    pub fn run(&mut self) {
        match self.r.prop {
            Prop::C14 => self.gen_c14(),
            Prop::C15 => self.gen_c15(),
            Prop::C16 => self.gen_c16(),
            Prop::C17 => self.gen_c17(),
            Prop::C18 => self.gen_c18(),
        }
    }

    fn scale(&self, quick: u64) -> u64 {
        if self.thorough { quick * 10 } else { quick }
    }

    // ------------------------------------------------------------ op helpers

    fn case(&mut self) {
        self.r.run_line("case 0");
    }

    fn node(&mut self) -> Option<i64> {
        ok_id(&self.r.run_op(&Op::Node))
    }

    fn edge(&mut self, a: i64, b: i64) -> Option<i64> {
        ok_id(&self.r.run_op(&Op::Edge(a, b)))
    }

    fn remove(&mut self, id: i64) {
        self.r.run_op(&Op::Remove(id));
    }

    fn kv(&mut self, id: i64, k: Val, v: Val) {
        if id != 0 {
            self.r.run_op(&Op::Kv(id, k, v));
        }
    }

    fn search(&mut self, s: Search) {
        self.r.run_op(&Op::Search(s));
    }

    // ------------------------------------------------------------ random graphs

    /// an id that is not live: a removed one, one past the end, either sign
    fn missing_id(&mut self, allow_zero: bool) -> i64 {
        let past = self.r.mirror.max_slot() + 1 + self.rng.below(3) as i64;
        let x = self.rng.below(100);
        let grave: Vec<i64> = self
            .r
            .mirror
            .graveyard
            .iter()
            .copied()
            .filter(|g| !self.r.mirror.is_live(*g))
            .collect();
        if x < 45 && !grave.is_empty() {
            *self.rng.pick(&grave)
        } else if x < 50 && allow_zero {
            0
        } else if x < 75 {
            past
        } else {
            -past
        }
    }

    fn random_node(&mut self) -> Option<i64> {
        let nodes = self.r.mirror.node_ids();
        if nodes.is_empty() {
            None
        } else {
            Some(*self.rng.pick(&nodes))
        }
    }

    fn random_edge_id(&mut self) -> Option<i64> {
        let edges = self.r.mirror.edge_ids();
        if edges.is_empty() {
            None
        } else {
            Some(*self.rng.pick(&edges))
        }
    }

    fn random_edge(&mut self) {
        let nodes = self.r.mirror.node_ids();
        if nodes.is_empty() {
            return;
        }
        if self.rng.chance(3) {
            // missing / edge ids as endpoints -> errors
            let bad = if self.rng.chance(40) {
                self.random_edge_id().unwrap_or(0)
            } else {
                self.missing_id(true)
            };
            let good = *self.rng.pick(&nodes);
            if self.rng.chance(50) {
                self.edge(bad, good);
            } else {
                self.edge(good, bad);
            }
            return;
        }
        let existing = self.random_edge_id().map(|e| self.r.mirror.edges[&e]);
        let p = self.rng.below(100);
        let (a, b) = if p < 12 {
            let a = *self.rng.pick(&nodes);
            (a, a)
        } else if p < 27 && existing.is_some() {
            existing.unwrap()
        } else if p < 42 && existing.is_some() {
            let (a, b) = existing.unwrap();
            (b, a)
        } else {
            (*self.rng.pick(&nodes), *self.rng.pick(&nodes))
        };
        self.edge(a, b);
    }

    fn random_props(&mut self) {
        for id in self.r.mirror.elements_by_slot() {
            if !self.rng.chance(55) {
                continue;
            }
            let n = self.rng.range(1, 3);
            for _ in 0..n {
                let k = self.rng.pick(&self.keys).clone();
                let v = self.rng.pick(&self.vals).clone();
                self.kv(id, k, v);
            }
            if self.rng.chance(10) {
                // overwrite an existing key
                if let Some(kvs) = self.r.mirror.values.get(&id)
                    && !kvs.is_empty()
                {
                    let k = kvs[self.rng.below(kvs.len() as u64) as usize].0.clone();
                    let v = self.rng.pick(&self.vals).clone();
                    self.kv(id, k, v);
                }
            }
        }
        if self.rng.chance(3) {
            let id = self.missing_id(false);
            let k = self.rng.pick(&self.keys).clone();
            let v = self.rng.pick(&self.vals).clone();
            self.kv(id, k, v);
        }
    }

    fn removal_round(&mut self, share: u64) {
        let live = self.r.mirror.live_count() as u64;
        let k = self.rng.range(1, (live * share / 100).max(1));
        for _ in 0..k {
            if self.rng.chance(4) {
                let id = self.missing_id(true);
                self.remove(id);
                continue;
            }
            let pick_node = self.rng.chance(40);
            let id = if pick_node {
                self.random_node().or_else(|| self.random_edge_id())
            } else {
                self.random_edge_id().or_else(|| self.random_node())
            };
            match id {
                Some(id) => self.remove(id),
                None => break,
            }
        }
        let re = self.rng.range(0, k + 2);
        for _ in 0..re {
            if self.rng.chance(45) {
                self.node();
            } else {
                self.random_edge();
            }
        }
    }

    fn random_graph(&mut self, o: &GraphOpts) {
        let n = if self.rng.chance(50) {
            self.rng.range(1, 8.min(o.max_nodes))
        } else {
            self.rng.range(1, o.max_nodes)
        };
        for _ in 0..n {
            self.node();
        }
        let m = if self.rng.chance(30) {
            self.rng.range(0, n)
        } else {
            self.rng.range(0, n * 2 + 2)
        };
        for _ in 0..m {
            self.random_edge();
        }
        if self.rng.chance(o.removal_pct) {
            if o.props && self.rng.chance(50) {
                // values on elements that are about to be removed: reused slots must not inherit them
                self.random_props();
            }
            let rounds = self.rng.range(1, o.max_rounds);
            for _ in 0..rounds {
                self.removal_round(o.removal_share);
            }
        }
        if o.props {
            self.random_props();
        }
    }

    // ------------------------------------------------------------ random conditions

    fn random_cc(&mut self) -> CC {
        *self.rng.pick(&ALL_CC)
    }

    fn random_cond(&mut self, depth: u32, allow_dist: bool) -> Cond {
        let logic = if self.rng.chance(60) { Logic::And } else { Logic::Or };
        let m = self.rng.below(100);
        let modi = if m < 55 {
            Modi::None
        } else if m < 70 {
            Modi::Not
        } else if m < 85 {
            Modi::Beyond
        } else {
            Modi::NotBeyond
        };
        let data = loop {
            let x = self.rng.below(100);
            break if x < 8 {
                CData::Node
            } else if x < 16 {
                CData::Edge
            } else if x < 30 {
                if !allow_dist {
                    continue;
                }
                CData::Dist(self.random_cc(), self.rng.below(7))
            } else if x < 35 {
                CData::Ec(self.random_cc(), self.rng.below(5))
            } else if x < 40 {
                CData::Ecf(self.random_cc(), self.rng.below(4))
            } else if x < 45 {
                CData::Ect(self.random_cc(), self.rng.below(4))
            } else if x < 57 {
                let n = self.rng.range(1, 4);
                let live = self.r.mirror.elements_by_slot();
                let mut ids = vec![];
                for _ in 0..n {
                    if !live.is_empty() && self.rng.chance(85) {
                        ids.push(*self.rng.pick(&live));
                    } else {
                        ids.push(self.missing_id(true));
                    }
                }
                CData::Ids(ids)
            } else if x < 67 {
                let n = self.rng.range(1, 2);
                let keys = (0..n).map(|_| self.rng.pick(&self.keys).clone()).collect();
                CData::Keys(keys)
            } else if x < 92 {
                let key = self.rng.pick(&self.keys).clone();
                let cmp = *self.rng.pick(&ALL_CMP);
                // often compare against a value some element really has under that key
                let mut present: Vec<Val> = vec![];
                for id in self.r.mirror.elements_by_slot() {
                    if let Some(v) = self.r.mirror.value(id, &key)
                        && !present.contains(v)
                    {
                        present.push(v.clone());
                    }
                }
                let v = if !present.is_empty() && self.rng.chance(65) {
                    let p = self.rng.pick(&present).clone();
                    let same_kind: Vec<Val> = self
                        .vals
                        .iter()
                        .filter(|v| v.rank() == p.rank())
                        .cloned()
                        .collect();
                    if self.rng.chance(35) || same_kind.is_empty() {
                        p
                    } else {
                        self.rng.pick(&same_kind).clone()
                    }
                } else {
                    self.rng.pick(&self.vals).clone()
                };
                CData::Kv(key, cmp, v)
            } else {
                if depth >= 3 {
                    continue;
                }
                let n = self.rng.range(1, 3);
                CData::Where((0..n).map(|_| self.random_cond(depth + 1, allow_dist)).collect())
            };
        };
        Cond { logic, modi, data }
    }

    fn random_conds(&mut self, allow_dist: bool) -> Vec<Cond> {
        let n = self.rng.range(1, 4);
        (0..n).map(|_| self.random_cond(1, allow_dist)).collect()
    }

    // ------------------------------------------------------------ random search shapes

    fn pick_origin(&mut self, edge_pct: u64) -> i64 {
        if self.rng.chance(3) {
            return self.missing_id(false);
        }
        let want_edge = self.rng.chance(edge_pct);
        let id = if want_edge {
            self.random_edge_id().or_else(|| self.random_node())
        } else {
            self.random_node()
        };
        id.unwrap_or_else(|| self.missing_id(false))
    }

    fn path_endpoints(&mut self) -> (i64, i64) {
        let x = self.rng.below(100);
        let a = self.random_node();
        let b = self.random_node();
        let (Some(a), Some(mut b)) = (a, b) else {
            return (self.missing_id(false), self.missing_id(false));
        };
        if self.rng.chance(60) {
            // prefer a destination that can be reached at all
            let ctx = Ctx::new(&self.r.mirror, Sem::Strict);
            let reach: Vec<i64> = bfs(&ctx, a, Dir::Fwd, &[])
                .into_iter()
                .filter(|i| *i > 0 && *i != a)
                .collect();
            if !reach.is_empty() {
                b = *self.rng.pick(&reach);
            }
        }
        if x < 80 {
            (a, b)
        } else if x < 85 {
            (a, a)
        } else if x < 90 {
            let m = self.missing_id(false);
            if self.rng.chance(50) { (m, b) } else { (a, m) }
        } else {
            match self.random_edge_id() {
                Some(e) => {
                    if self.rng.chance(50) {
                        (e, b)
                    } else {
                        (a, e)
                    }
                }
                None => (a, b),
            }
        }
    }

    fn traversal(&mut self, edge_pct: u64) -> Search {
        let alg = if self.rng.chance(55) { Alg::Bfs } else { Alg::Dfs };
        let origin = self.pick_origin(edge_pct);
        if self.rng.chance(60) {
            Search::plain(alg, origin, 0)
        } else {
            Search::plain(alg, 0, origin)
        }
    }

    fn shape(&mut self, p_elements: u64, p_path: u64, edge_pct: u64) -> Search {
        let x = self.rng.below(100);
        if x < p_elements {
            Search::plain(Alg::Elements, 0, 0)
        } else if x < p_elements + p_path {
            let (a, b) = self.path_endpoints();
            let alg = if self.rng.chance(50) { Alg::Bfs } else { Alg::Dfs };
            Search::plain(alg, a, b)
        } else {
            self.traversal(edge_pct)
        }
    }

    // ------------------------------------------------------------ exhaustive small multigraphs

    /// (nodes, edges, index of the edge sequence in base nodes^2)
    fn small_graph_specs(&mut self) -> Vec<(u64, u64, u64)> {
        let mut specs = vec![];
        for n in 1..=3u64 {
            for m in 0..=4u64 {
                let total = (n * n).pow(m as u32);
                if self.thorough || m <= 3 || n <= 2 {
                    for i in 0..total {
                        specs.push((n, m, i));
                    }
                } else {
                    let mut chosen = BTreeSet::new();
                    while (chosen.len() as u64) < 1500.min(total) {
                        chosen.insert(self.rng.below(total));
                    }
                    for i in chosen {
                        specs.push((n, m, i));
                    }
                }
            }
        }
        specs
    }

    fn build_small(&mut self, n: u64, m: u64, mut idx: u64) -> (Vec<i64>, Vec<i64>) {
        self.case();
        let mut nodes = vec![];
        for _ in 0..n {
            if let Some(id) = self.node() {
                nodes.push(id);
            }
        }
        let mut edges = vec![];
        if nodes.len() as u64 != n {
            return (nodes, edges);
        }
        let base = n * n;
        for _ in 0..m {
            let d = idx % base;
            idx /= base;
            let a = nodes[(d / n) as usize];
            let b = nodes[(d % n) as usize];
            if let Some(e) = self.edge(a, b) {
                edges.push(e);
            }
        }
        (nodes, edges)
    }

    // ------------------------------------------------------------ C14

    fn gen_c14(&mut self) {
        for (n, m, i) in self.small_graph_specs() {
            let (nodes, edges) = self.build_small(n, m, i);
            for origin in nodes.iter().chain(edges.iter()) {
                for alg in [Alg::Bfs, Alg::Dfs] {
                    self.search(Search::plain(alg, *origin, 0));
                    self.search(Search::plain(alg, 0, *origin));
                }
            }
        }
        let o = GraphOpts {
            max_nodes: 40,
            props: false,
            removal_pct: 60,
            max_rounds: 3,
            removal_share: 35,
        };
        for _ in 0..self.scale(160) {
            self.case();
            self.random_graph(&o);
            let k = self.rng.range(8, 16);
            for _ in 0..k {
                let s = self.traversal(50);
                self.search(s);
            }
        }
    }

    // ------------------------------------------------------------ C15

    fn chain(&mut self) -> (Vec<i64>, Vec<i64>) {
        let mut nodes = vec![];
        for _ in 0..4 {
            nodes.extend(self.node());
        }
        let mut edges = vec![];
        if nodes.len() == 4 {
            for w in 0..3 {
                edges.extend(self.edge(nodes[w], nodes[w + 1]));
            }
        }
        (nodes, edges)
    }

    fn c15_tables(&mut self) {
        let controls = [
            CData::Dist(CC::Ge, 0),  // Continue(true)
            CData::Dist(CC::Gt, 99), // Continue(false)
            CData::Dist(CC::Eq, 2),  // Stop(true) at distance 2
            CData::Dist(CC::Lt, 2),  // Stop(false) at distance 2
        ];
        // (i) control pairs under both logics
        self.case();
        let (nodes, _) = self.chain();
        if nodes.len() == 4 {
            for x in &controls {
                for y in &controls {
                    for l in [Logic::And, Logic::Or] {
                        let conds = vec![Cond::and(x.clone()), Cond::new(l, Modi::None, y.clone())];
                        for mut s in [
                            Search::plain(Alg::Bfs, nodes[0], 0),
                            Search::plain(Alg::Dfs, nodes[0], 0),
                            Search::plain(Alg::Bfs, 0, nodes[3]),
                            Search::plain(Alg::Elements, 0, 0),
                        ] {
                            s.conds = conds.clone();
                            self.search(s);
                        }
                    }
                }
            }
        }
        // (ii) distance comparisons alone
        self.case();
        let (nodes, _) = self.chain();
        if nodes.len() == 4 {
            for cc in ALL_CC {
                for k in 0..=5 {
                    for m in [Modi::None, Modi::Not] {
                        for mut s in [
                            Search::plain(Alg::Bfs, nodes[0], 0),
                            Search::plain(Alg::Dfs, 0, nodes[3]),
                            Search::plain(Alg::Elements, 0, 0),
                            Search::plain(Alg::Bfs, nodes[0], nodes[3]),
                        ] {
                            s.conds = vec![Cond::new(Logic::And, m, CData::Dist(cc, k))];
                            self.search(s);
                        }
                    }
                }
            }
        }
        // (iii) edge counts on a graph with a self-loop and a parallel edge
        self.case();
        let mut n = vec![];
        for _ in 0..3 {
            n.extend(self.node());
        }
        if n.len() == 3 {
            for (a, b) in [(0, 0), (0, 1), (1, 2), (2, 0), (0, 1)] {
                self.edge(n[a], n[b]);
            }
            for cc in ALL_CC {
                for k in 0..=3 {
                    for d in [CData::Ec(cc, k), CData::Ecf(cc, k), CData::Ect(cc, k)] {
                        for mut s in [
                            Search::plain(Alg::Elements, 0, 0),
                            Search::plain(Alg::Bfs, n[0], 0),
                        ] {
                            s.conds = vec![Cond::and(d.clone())];
                            self.search(s);
                        }
                    }
                }
            }
        }
        // (iv) the comparison table: one node per pool value, one elements search per (cmp, right)
        self.case();
        let vals = self.vals.clone();
        let mut ok = true;
        for v in &vals {
            match self.node() {
                Some(id) => self.kv(id, Val::s("k"), v.clone()),
                None => ok = false,
            }
        }
        if ok {
            for right in &vals {
                for cmp in ALL_CMP {
                    let mut s = Search::plain(Alg::Elements, 0, 0);
                    s.conds = vec![Cond::and(CData::Kv(Val::s("k"), cmp, right.clone()))];
                    self.search(s);
                }
            }
        }
        // (v) the total order of values
        self.case();
        for a in &vals {
            for b in &vals {
                self.r.run_op(&Op::Cmp(a.clone(), b.clone()));
            }
        }
        // (vi) modifiers x logic x accumulated value
        self.case();
        let (nodes, edges) = self.chain();
        if nodes.len() == 4 && edges.len() == 3 {
            self.kv(nodes[1], Val::s("k"), Val::I64(5));
            self.kv(edges[1], Val::s("k"), Val::I64(5));
            let firsts = [CData::Node, CData::Edge];
            let seconds = [
                CData::Ids(vec![nodes[2]]),
                CData::Ids(vec![edges[1], nodes[2]]),
                CData::Keys(vec![Val::s("k")]),
            ];
            for a in &firsts {
                for b in &seconds {
                    for l in [Logic::And, Logic::Or] {
                        for m in [Modi::None, Modi::Not, Modi::Beyond, Modi::NotBeyond] {
                            let conds = vec![Cond::and(a.clone()), Cond::new(l, m, b.clone())];
                            for mut s in [
                                Search::plain(Alg::Bfs, nodes[0], 0),
                                Search::plain(Alg::Dfs, nodes[0], 0),
                                Search::plain(Alg::Bfs, 0, nodes[3]),
                                Search::plain(Alg::Bfs, nodes[0], nodes[3]),
                            ] {
                                s.conds = conds.clone();
                                self.search(s);
                            }
                        }
                    }
                }
            }
        }
    }

    fn gen_c15(&mut self) {
        self.c15_tables();
        let o = GraphOpts {
            max_nodes: 40,
            props: true,
            removal_pct: 35,
            max_rounds: 2,
            removal_share: 30,
        };
        for _ in 0..self.scale(260) {
            self.case();
            self.random_graph(&o);
            let k = self.rng.range(8, 14);
            for _ in 0..k {
                // origins are nodes: searches from edges are C14's subject
                let mut s = self.shape(20, 20, 0);
                s.conds = self.random_conds(true);
                self.search(s);
            }
        }
    }

    // ------------------------------------------------------------ C16

    fn pick_lo(&mut self, len: u64, n: u64) -> u64 {
        let x = self.rng.below(100);
        if x < 15 {
            0
        } else if x < 60 {
            len.saturating_sub(2) + self.rng.below(6)
        } else {
            self.rng.below(n + 4)
        }
    }

    fn gen_c16(&mut self) {
        let o = GraphOpts {
            max_nodes: 40,
            props: true,
            removal_pct: 35,
            max_rounds: 2,
            removal_share: 30,
        };
        let huge = [u64::MAX, u64::MAX - 1, 1u64 << 63];
        let absent = Val::s("zz");
        for _ in 0..self.scale(240) {
            self.case();
            self.random_graph(&o);
            let k = self.rng.range(8, 14);
            for _ in 0..k {
                let mut s = self.shape(20, 20, 20);
                if self.rng.chance(50) {
                    s.conds = self.random_conds(true);
                }
                let len = self.r.probe(&s).map(|v| v.len() as u64).unwrap_or(0);
                let n = self.r.mirror.live_count() as u64;
                s.limit = self.pick_lo(len, n);
                s.offset = self.pick_lo(len, n);
                let ok = self.rng.below(100);
                let nkeys = if ok < 35 {
                    0
                } else if ok < 70 {
                    1
                } else if ok < 90 {
                    2
                } else {
                    3
                };
                for _ in 0..nkeys {
                    let key = if self.rng.chance(10) {
                        absent.clone()
                    } else {
                        self.rng.pick(&self.keys).clone()
                    };
                    s.order.push((self.rng.chance(50), key));
                }
                if self.rng.chance(1) || (self.rng.chance(1) && self.thorough) {
                    let h = *self.rng.pick(&huge);
                    match self.rng.below(3) {
                        0 => s.limit = h,
                        1 => s.offset = h,
                        _ => {
                            s.limit = h;
                            s.offset = self.rng.range(1, 3);
                        }
                    }
                }
                if !s.is_sliced() {
                    s.offset = 1 + self.rng.below(len + 2);
                }
                self.search(s);
            }
        }
    }

    // ------------------------------------------------------------ C17

    fn gen_c17(&mut self) {
        for (n, m, i) in self.small_graph_specs() {
            let (nodes, edges) = self.build_small(n, m, i);
            let some_edge = edges.first().copied().unwrap_or(-99);
            let sets: [Vec<Cond>; 3] = [
                vec![],
                vec![Cond::and(CData::Node)],
                vec![Cond::new(Logic::And, Modi::Not, CData::Ids(vec![some_edge]))],
            ];
            for a in &nodes {
                for b in &nodes {
                    for set in &sets {
                        let mut s = Search::plain(Alg::Bfs, *a, *b);
                        s.conds = set.clone();
                        self.search(s);
                    }
                }
            }
        }
        self.c17_distance_tables();
        let big = GraphOpts {
            max_nodes: 40,
            props: true,
            removal_pct: 35,
            max_rounds: 2,
            removal_share: 30,
        };
        let small = GraphOpts {
            max_nodes: 8,
            props: true,
            removal_pct: 35,
            max_rounds: 2,
            removal_share: 30,
        };
        for _ in 0..self.scale(170) {
            self.case();
            // ~10 % of the searches carry distance conditions; those are only checkable on small graphs
            let dist_case = self.rng.chance(12);
            self.random_graph(if dist_case { &small } else { &big });
            let k = self.rng.range(8, 14);
            for _ in 0..k {
                let (a, b) = self.path_endpoints();
                let mut s = Search::plain(if self.rng.chance(50) { Alg::Bfs } else { Alg::Dfs }, a, b);
                let x = self.rng.below(100);
                if dist_case && x < 85 {
                    s.conds = self.random_conds(true);
                    if !has_dist(&s.conds) {
                        let cc = self.random_cc();
                        let logic = if self.rng.chance(60) { Logic::And } else { Logic::Or };
                        s.conds.push(Cond::new(logic, Modi::None, CData::Dist(cc, self.rng.below(7))));
                    }
                } else if x < 90 {
                    s.conds = self.random_conds(false);
                }
                self.search(s);
            }
        }
    }

    /// distance conditions (alone and after a static condition) on two fixed graphs
    fn c17_distance_tables(&mut self) {
        for diamond in [false, true] {
            self.case();
            let mut n = vec![];
            for _ in 0..5 {
                n.extend(self.node());
            }
            if n.len() != 5 {
                continue;
            }
            let mut pairs = vec![(0, 1), (1, 2), (2, 3), (3, 4)];
            if diamond {
                pairs.push((0, 3));
                pairs.push((0, 2));
            }
            for (a, b) in pairs {
                self.edge(n[a], n[b]);
            }
            for cc in ALL_CC {
                for k in 0..=6 {
                    for m in [Modi::None, Modi::Not, Modi::Beyond, Modi::NotBeyond] {
                        for pre in [false, true] {
                            for dest in [2, 3, 4] {
                                let mut s = Search::plain(Alg::Bfs, n[0], n[dest]);
                                if pre {
                                    s.conds.push(Cond::and(CData::Node));
                                }
                                let l = if pre { Logic::Or } else { Logic::And };
                                s.conds.push(Cond::new(l, m, CData::Dist(cc, k)));
                                self.search(s);
                            }
                        }
                    }
                }
            }
        }
    }

    // ------------------------------------------------------------ C18

    fn gen_c18(&mut self) {
        let o = GraphOpts {
            max_nodes: 25,
            props: true,
            removal_pct: 95,
            max_rounds: 4,
            removal_share: 70,
        };
        for _ in 0..self.scale(230) {
            self.case();
            self.random_graph(&o);
            let k = self.rng.range(8, 14);
            for _ in 0..k {
                let mut s = Search::plain(Alg::Elements, 0, 0);
                let n = self.r.mirror.live_count() as u64;
                let x = self.rng.below(100);
                if x >= 25 && x < 50 || x >= 75 {
                    s.conds = self.random_conds(true);
                }
                if x >= 50 {
                    let len = if s.conds.is_empty() {
                        n
                    } else {
                        self.r.probe(&s).map(|v| v.len() as u64).unwrap_or(0)
                    };
                    s.limit = self.pick_lo(len, n);
                    s.offset = self.pick_lo(len, n);
                }
                self.search(s);
                // interleave a little more history between the searches
                if self.rng.chance(15) {
                    self.removal_round(40);
                }
            }
        }
    }
}
