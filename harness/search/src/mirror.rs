//! Abstract mirror of the database contents, maintained from the ops and the ids the
//! implementation handed out (the oracle never predicts ids).

use crate::value::Val;
use std::collections::BTreeMap;
use std::collections::HashMap;

#[derive(Default, Clone)]
pub struct NodeM {
    /// outgoing edges, most recently inserted first
    pub out: Vec<i64>,
    /// incoming edges, most recently inserted first
    pub inc: Vec<i64>,
}

#[derive(Default, Clone)]
pub struct Mirror {
    pub nodes: BTreeMap<i64, NodeM>,
    /// edge id -> (from, to)
    pub edges: BTreeMap<i64, (i64, i64)>,
    pub values: HashMap<i64, Vec<(Val, Val)>>,
    /// ids that were live once and are not now (for generators: "removed id" choices)
    pub graveyard: Vec<i64>,
}

impl Mirror {
    pub fn is_node(&self, id: i64) -> bool {
        self.nodes.contains_key(&id)
    }

    pub fn is_edge(&self, id: i64) -> bool {
        self.edges.contains_key(&id)
    }

    pub fn is_live(&self, id: i64) -> bool {
        self.is_node(id) || self.is_edge(id)
    }

    pub fn node_ids(&self) -> Vec<i64> {
        self.nodes.keys().copied().collect()
    }

    pub fn edge_ids(&self) -> Vec<i64> {
        // BTreeMap order is ascending = most negative first; present by magnitude
        let mut v: Vec<i64> = self.edges.keys().copied().collect();
        v.reverse();
        v
    }

    /// every live element in increasing |id|
    pub fn elements_by_slot(&self) -> Vec<i64> {
        let mut v: Vec<i64> = self
            .nodes
            .keys()
            .copied()
            .chain(self.edges.keys().copied())
            .collect();
        v.sort_by_key(|i| i.unsigned_abs());
        v
    }

    pub fn live_count(&self) -> usize {
        self.nodes.len() + self.edges.len()
    }

    pub fn max_slot(&self) -> i64 {
        self.elements_by_slot()
            .last()
            .map(|i| i.abs())
            .unwrap_or(0)
            .max(self.graveyard.iter().map(|i| i.abs()).max().unwrap_or(0))
    }

    /// false when the id is already live (desync)
    pub fn add_node(&mut self, id: i64) -> bool {
        if id <= 0 || self.is_live(id) || self.is_live(-id) {
            return false;
        }
        self.nodes.insert(id, NodeM::default());
        self.graveyard.retain(|g| g.abs() != id.abs());
        true
    }

    pub fn add_edge(&mut self, id: i64, from: i64, to: i64) -> bool {
        if id >= 0 || self.is_live(id) || self.is_live(-id) || !self.is_node(from) || !self.is_node(to) {
            return false;
        }
        self.edges.insert(id, (from, to));
        self.nodes.get_mut(&from).unwrap().out.insert(0, id);
        self.nodes.get_mut(&to).unwrap().inc.insert(0, id);
        self.graveyard.retain(|g| g.abs() != id.abs());
        true
    }

    fn drop_edge(&mut self, id: i64) {
        if let Some((from, to)) = self.edges.remove(&id) {
            if let Some(n) = self.nodes.get_mut(&from) {
                n.out.retain(|e| *e != id);
            }
            if let Some(n) = self.nodes.get_mut(&to) {
                n.inc.retain(|e| *e != id);
            }
            self.values.remove(&id);
            self.graveyard.push(id);
        }
    }

    /// removes the element (a node takes all its edges along); false if not live
    pub fn remove(&mut self, id: i64) -> bool {
        if self.is_edge(id) {
            self.drop_edge(id);
            true
        } else if let Some(n) = self.nodes.get(&id).cloned() {
            for e in n.out.iter().chain(n.inc.iter()) {
                self.drop_edge(*e);
            }
            self.nodes.remove(&id);
            self.values.remove(&id);
            self.graveyard.push(id);
            true
        } else {
            false
        }
    }

    pub fn set_kv(&mut self, id: i64, key: Val, value: Val) {
        let kvs = self.values.entry(id).or_default();
        if let Some(kv) = kvs.iter_mut().find(|kv| kv.0 == key) {
            kv.1 = value;
        } else {
            kvs.push((key, value));
        }
    }

    pub fn value(&self, id: i64, key: &Val) -> Option<&Val> {
        self.values
            .get(&id)
            .and_then(|kvs| kvs.iter().find(|kv| kv.0 == *key))
            .map(|kv| &kv.1)
    }
}
