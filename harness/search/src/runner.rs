//! Runs op lines through parse -> implementation -> mirror update -> oracle and
//! collects ops.txt / impl.txt / oracle.jsonl / stats.json.

use crate::exec::Worker;
use crate::exec::to_db;
use crate::mirror::Mirror;
use crate::ops::Alg;
use crate::ops::CData;
use crate::ops::Cond;
use crate::ops::Op;
use crate::ops::Search;
use crate::ops::fmt_op;
use crate::ops::parse_line;
use crate::reference::Ctx;
use crate::reference::Dir;
use crate::reference::PathVerdict;
use crate::reference::bfs;
use crate::reference::check_path;
use crate::reference::dfs;
use crate::reference::elements;
use crate::value::Sem;
use std::collections::BTreeMap;
use std::collections::HashSet;

#[derive(Clone, Copy, Debug, PartialEq, Eq)]
pub enum Prop {
    C14,
    C15,
    C16,
    C17,
    C18,
}

impl Prop {
    pub fn parse(s: &str) -> Option<Prop> {
        Some(match s {
            "C14" => Prop::C14,
            "C15" => Prop::C15,
            "C16" => Prop::C16,
            "C17" => Prop::C17,
            "C18" => Prop::C18,
            _ => return None,
        })
    }

    pub fn name(self) -> &'static str {
        match self {
            Prop::C14 => "C14",
            Prop::C15 => "C15",
            Prop::C16 => "C16",
            Prop::C17 => "C17",
            Prop::C18 => "C18",
        }
    }
}

/// JSON fragment for expected / observed
pub enum J {
    Ids(Vec<i64>),
    Str(String),
}

pub fn json_str(s: &str) -> String {
    let mut o = String::with_capacity(s.len() + 2);
    o.push('"');
    for c in s.chars() {
        match c {
            '"' => o.push_str("\\\""),
            '\\' => o.push_str("\\\\"),
            '\n' => o.push_str("\\n"),
            '\r' => o.push_str("\\r"),
            '\t' => o.push_str("\\t"),
            c if (c as u32) < 0x20 => o.push_str(&format!("\\u{:04x}", c as u32)),
            c => o.push(c),
        }
    }
    o.push('"');
    o
}

impl J {
    fn render(&self) -> String {
        match self {
            J::Ids(v) => format!(
                "[{}]",
                v.iter().map(|i| i.to_string()).collect::<Vec<_>>().join(",")
            ),
            J::Str(s) => json_str(s),
        }
    }
}

enum Outcome {
    Ok(Vec<i64>),
    Err,
    Panic(String),
    Timeout,
    Other,
}

fn parse_outcome(out: &str) -> Outcome {
    if out == "timeout" {
        return Outcome::Timeout;
    }
    if let Some(f) = out.strip_prefix("panic:") {
        return Outcome::Panic(f.to_string());
    }
    if out.starts_with("err:") {
        return Outcome::Err;
    }
    if out == "ok" {
        return Outcome::Ok(vec![]);
    }
    if let Some(rest) = out.strip_prefix("ok ") {
        let ids: Option<Vec<i64>> = rest.split(' ').map(|t| t.parse().ok()).collect();
        if let Some(ids) = ids {
            return Outcome::Ok(ids);
        }
    }
    Outcome::Other
}

fn fnv(h: &mut u64, s: &str) {
    for b in s.as_bytes().iter().chain(b"\n".iter()) {
        *h ^= *b as u64;
        *h = h.wrapping_mul(0x0000_0100_0000_01B3);
    }
}

pub struct Runner {
    pub prop: Prop,
    /// gen mode renumbers `case` lines so that numbers stay unique
    renumber: bool,
    next_case: u64,
    worker: Worker,
    pub mirror: Mirror,
    pub case_no: u64,
    case_lines: Vec<String>,
    case_mutations: Vec<Op>,
    case_nontrivial: bool,
    pub ops: Vec<String>,
    pub outs: Vec<String>,
    pub violations: Vec<String>,
    pub evaluations: u64,
    evaluated: bool,
    pub searches: u64,
    nontrivial: HashSet<u64>,
    samples: Vec<Vec<String>>,
    fallback_samples: Vec<Vec<String>>,
    pub hist: BTreeMap<String, u64>,
}

impl Runner {
    pub fn new(prop: Prop, renumber: bool) -> Runner {
        Runner {
            prop,
            renumber,
            next_case: 1,
            worker: Worker::spawn(),
            mirror: Mirror::default(),
            case_no: 0,
            case_lines: vec![],
            case_mutations: vec![],
            case_nontrivial: false,
            ops: vec![],
            outs: vec![],
            violations: vec![],
            evaluations: 0,
            evaluated: false,
            searches: 0,
            nontrivial: HashSet::new(),
            samples: vec![],
            fallback_samples: vec![],
            hist: BTreeMap::new(),
        }
    }

    fn bump(&mut self, key: &str) {
        *self.hist.entry(key.to_string()).or_insert(0) += 1;
    }

    fn bump_by(&mut self, key: &str, n: u64) {
        if n > 0 {
            *self.hist.entry(key.to_string()).or_insert(0) += n;
        }
    }

    fn finish_case(&mut self) {
        if self.case_lines.is_empty() {
            return;
        }
        let lines = std::mem::take(&mut self.case_lines);
        let mut h = 0xCBF2_9CE4_8422_2325u64;
        for l in &lines {
            fnv(&mut h, l);
        }
        let with_header = |lines: Vec<String>, n: u64| {
            let mut v = vec![format!("case {n}")];
            v.extend(lines);
            v
        };
        if self.case_nontrivial {
            let fresh = self.nontrivial.insert(h);
            if fresh && self.samples.len() < 5 && lines.len() <= 14 {
                self.samples.push(with_header(lines, self.case_no));
            }
        } else if self.fallback_samples.len() < 5 && lines.len() <= 14 {
            self.fallback_samples.push(with_header(lines, self.case_no));
        }
        self.case_nontrivial = false;
    }

    fn exec_raw(&mut self, op: &Op) -> String {
        match self.worker.exec(op) {
            Some(s) => s,
            None => {
                // hang: abandon the worker, rebuild the state of the case on a new one
                self.worker = Worker::spawn();
                let muts = self.case_mutations.clone();
                for m in &muts {
                    let _ = self.worker.exec(m);
                }
                "timeout".to_string()
            }
        }
    }

    /// Runs a search that is not part of the op stream (the C16 base query, generator probes).
    pub fn probe(&mut self, s: &Search) -> Option<Vec<i64>> {
        let out = self.exec_raw(&Op::Search(s.clone()));
        match parse_outcome(&out) {
            Outcome::Ok(v) => Some(v),
            _ => None,
        }
    }

    pub fn run_op(&mut self, op: &Op) -> String {
        self.run_line(&fmt_op(op))
    }

    /// Executes one op line; returns the implementation's output line.
    pub fn run_line(&mut self, line: &str) -> String {
        let parsed = parse_line(line);
        let (line_text, parsed) = match parsed {
            Some(Op::Case(n)) => {
                let n = if self.renumber {
                    let n = self.next_case;
                    self.next_case += 1;
                    n
                } else {
                    n
                };
                (format!("case {n}"), Some(Op::Case(n)))
            }
            p => (line.to_string(), p),
        };
        let idx = self.ops.len();
        self.ops.push(line_text.clone());
        let Some(op) = parsed else {
            self.bump("op:bad-op");
            self.outs.push("bad-op".to_string());
            self.case_lines.push(line_text);
            return "bad-op".to_string();
        };
        self.bump(&format!("op:{}", op.kind_name()));
        let out = match &op {
            Op::Case(n) => {
                self.finish_case();
                self.worker.reset();
                self.mirror = Mirror::default();
                self.case_mutations.clear();
                self.case_no = *n;
                format!("case {n}")
            }
            _ => {
                self.case_lines.push(line_text);
                let out = self.exec_raw(&op);
                if op.is_mutation() {
                    self.case_mutations.push(op.clone());
                }
                out
            }
        };
        self.outs.push(out.clone());
        self.after(&op, &out, idx);
        out
    }

    fn violation(&mut self, line: usize, key: &str, rule: &str, expected: J, observed: J) {
        self.bump(&format!("oracle:{key}"));
        self.violations.push(format!(
            "{{\"case\":{},\"line\":{},\"key\":{},\"rule\":{},\"expected\":{},\"observed\":{}}}",
            self.case_no,
            line,
            json_str(key),
            json_str(rule),
            expected.render(),
            observed.render()
        ));
    }

    fn desync(&mut self, line: usize, what: &str, out: &str) {
        let key = format!("{}/mirror-desync/{}", self.prop.name(), what);
        self.violation(
            line,
            &key,
            "harness self-check: the id returned by the implementation is inconsistent with the mirror graph",
            J::Str("an id consistent with the mirror".into()),
            J::Str(out.to_string()),
        );
    }

    fn after(&mut self, op: &Op, out: &str, idx: usize) {
        if let Some(e) = out.strip_prefix("err:") {
            self.bump(&format!("err:{e}"));
        }
        if let Some(f) = out.strip_prefix("panic:") {
            self.bump(&format!("panic:{f}"));
        }
        if out == "timeout" {
            self.bump("timeout");
        }
        match op {
            Op::Case(_) => {}
            Op::Node => {
                if let Outcome::Ok(v) = parse_outcome(out)
                    && v.len() == 1
                {
                    if !self.mirror.add_node(v[0]) {
                        self.desync(idx, "node", out);
                    }
                } else {
                    self.desync(idx, "node", out);
                }
            }
            Op::Edge(a, b) => match parse_outcome(out) {
                Outcome::Ok(v) => {
                    if v.len() != 1 || !self.mirror.add_edge(v[0], *a, *b) {
                        self.desync(idx, "edge", out);
                    }
                }
                Outcome::Err => {
                    if self.mirror.is_node(*a) && self.mirror.is_node(*b) {
                        self.desync(idx, "edge", out);
                    }
                }
                _ => self.desync(idx, "edge", out),
            },
            Op::Remove(id) => match parse_outcome(out) {
                Outcome::Ok(v) if v.len() == 1 => {
                    let removed = self.mirror.remove(*id);
                    if removed != (v[0] >= 1) {
                        self.desync(idx, "remove", out);
                    }
                }
                _ => self.desync(idx, "remove", out),
            },
            Op::Kv(id, k, v) => {
                if out == "ok" {
                    if self.mirror.is_live(*id) {
                        self.mirror.set_kv(*id, k.clone(), v.clone());
                    } else {
                        self.desync(idx, "kv", out);
                    }
                } else if self.mirror.is_live(*id) {
                    self.desync(idx, "kv", out);
                }
            }
            Op::Cmp(a, b) => {
                if a.rank() != b.rank() {
                    self.bump("cmp-op:cross-type");
                }
                let expected = match a.cmp_variant_order(b) {
                    std::cmp::Ordering::Less => "lt",
                    std::cmp::Ordering::Equal => "eq",
                    std::cmp::Ordering::Greater => "gt",
                };
                if out != expected {
                    let key = format!("{}/harness-selfcheck/value-order", self.prop.name());
                    self.violation(
                        idx,
                        &key,
                        "harness self-check: DbValue::cmp is the kind order (Bytes<I64<U64<F64<String<VecI64<VecU64<VecF64<VecString), then the order within the kind",
                        J::Str(expected.into()),
                        J::Str(out.into()),
                    );
                }
            }
            Op::Search(s) => {
                self.searches += 1;
                self.search_stats(s, out);
                self.oracle_search(s, out, idx);
            }
        }
    }

    fn cond_stats(&mut self, conds: &[Cond]) {
        for c in conds {
            self.bump(&format!("cond:{}", c.data.kind_name()));
            self.bump(&format!("modifier:{}", c.modi.name()));
            self.bump(match c.logic {
                crate::ops::Logic::And => "logic:and",
                crate::ops::Logic::Or => "logic:or",
            });
            match &c.data {
                CData::Kv(_, cmp, _) => self.bump(&format!("cmp:{}", cmp.name())),
                CData::Dist(cc, _) | CData::Ec(cc, _) | CData::Ecf(cc, _) | CData::Ect(cc, _) => {
                    self.bump(&format!("count-cmp:{}", cc.name()))
                }
                CData::Where(l) => self.cond_stats(l),
                _ => {}
            }
        }
    }

    fn origin_kind(&self, id: i64) -> &'static str {
        if self.mirror.is_node(id) {
            "node"
        } else if self.mirror.is_edge(id) {
            "edge"
        } else {
            "missing"
        }
    }

    fn search_stats(&mut self, s: &Search, out: &str) {
        let shape = if s.alg == Alg::Elements {
            "elements".to_string()
        } else if s.is_path() {
            "path".to_string()
        } else if s.from != 0 {
            format!("{}-forward", s.alg.name())
        } else if s.to != 0 {
            format!("{}-reverse", s.alg.name())
        } else {
            format!("{}-no-origin", s.alg.name())
        };
        self.bump(&format!("alg:{shape}"));
        if s.alg != Alg::Elements {
            if s.from != 0 {
                let k = self.origin_kind(s.from);
                self.bump(&format!("origin:{k}"));
            }
            if s.to != 0 {
                let k = self.origin_kind(s.to);
                self.bump(&format!("{}:{k}", if s.from != 0 { "destination" } else { "origin" }));
            }
        }
        if s.conds.is_empty() {
            self.bump("conditions:none");
        } else {
            self.bump("conditions:some");
        }
        if s.limit != 0 {
            self.bump("limit:set");
        }
        if s.offset != 0 {
            self.bump("offset:set");
        }
        if s.limit >= 1 << 62 || s.offset >= 1 << 62 {
            self.bump("limit-offset:huge");
        }
        self.bump(&format!("order-keys:{}", s.order.len()));
        let conds = s.conds.clone();
        self.cond_stats(&conds);
        match parse_outcome(out) {
            Outcome::Ok(v) => {
                if v.is_empty() {
                    self.bump("result:empty");
                } else {
                    self.bump("result:non-empty");
                }
                if v.len() >= 2 {
                    self.case_nontrivial = true;
                }
            }
            Outcome::Err => self.bump("result:err"),
            Outcome::Panic(_) => self.bump("result:panic"),
            Outcome::Timeout => self.bump("result:timeout"),
            Outcome::Other => self.bump("result:other"),
        }
    }

    // ------------------------------------------------------------ oracles

    fn panic_key(&self, file: &str) -> String {
        match file {
            "search_query.rs" => "C16/slice-panic/SearchQuery::slice".to_string(),
            "db_search_handlers.rs" => "C16/limit-overflow/LimitOffsetHandler::new".to_string(),
            f => format!("{}/panic/{}", self.prop.name(), f),
        }
    }

    fn oracle_search(&mut self, s: &Search, out: &str, idx: usize) {
        let g = std::mem::take(&mut self.mirror);
        self.evaluated = false;
        self.oracle_search_inner(&g, s, out, idx);
        if self.evaluated {
            self.evaluations += 1;
        }
        self.mirror = g;
    }

    fn oracle_search_inner(&mut self, g: &Mirror, s: &Search, out: &str, idx: usize) {
        let outcome = parse_outcome(out);
        if let Outcome::Other = outcome {
            return;
        }
        if let Outcome::Timeout = outcome {
            self.evaluated = true;
            let key = format!("{}/timeout/search", self.prop.name());
            self.violation(
                idx,
                &key,
                "a search terminates",
                J::Str("a result within 10 s".into()),
                J::Str("timeout".into()),
            );
            return;
        }
        if s.is_sliced() {
            self.oracle_sliced(g, s, out, outcome, idx);
            return;
        }
        if let Outcome::Panic(f) = &outcome {
            self.evaluated = true;
            let key = self.panic_key(f);
            self.violation(
                idx,
                &key,
                "a search never panics",
                J::Str("ok / err".into()),
                J::Str(out.to_string()),
            );
            return;
        }
        self.oracle_unsliced(g, s, out, outcome, idx);
    }

    fn oracle_unsliced(&mut self, g: &Mirror, s: &Search, out: &str, outcome: Outcome, idx: usize) {
        if s.alg == Alg::Elements {
            self.oracle_elements(g, s, out, outcome, idx);
        } else if s.is_path() {
            self.oracle_path(g, s, out, outcome, idx);
        } else {
            self.oracle_traversal(g, s, out, outcome, idx);
        }
    }

    /// C16: same query without limit/offset/order (run on the implementation), sorted and sliced here.
    fn oracle_sliced(&mut self, g: &Mirror, s: &Search, out: &str, outcome: Outcome, idx: usize) {
        let mut base_q = s.clone();
        base_q.limit = 0;
        base_q.offset = 0;
        base_q.order = vec![];
        let base = self.probe(&base_q);
        if self.prop != Prop::C16
            && let Some(b) = &base
        {
            // outside C16 the unsliced result is itself checked against the reference
            let mut base_out = String::from("ok");
            for i in b {
                base_out.push(' ');
                base_out.push_str(&i.to_string());
            }
            self.oracle_unsliced(g, &base_q, &base_out, Outcome::Ok(b.clone()), idx);
        }
        let expected = base.map(|mut ids| {
            let keys: Vec<(bool, crate::value::Val)> = s.order.clone();
            ids.sort_by(|l, r| {
                for (asc, key) in &keys {
                    let lv = g.value(*l, key).map(to_db);
                    let rv = g.value(*r, key).map(to_db);
                    let o = match (lv, rv) {
                        (None, None) => std::cmp::Ordering::Equal,
                        (None, Some(_)) => std::cmp::Ordering::Greater,
                        (Some(_), None) => std::cmp::Ordering::Less,
                        (Some(a), Some(b)) => {
                            if *asc {
                                a.cmp(&b)
                            } else {
                                b.cmp(&a)
                            }
                        }
                    };
                    if o != std::cmp::Ordering::Equal {
                        return o;
                    }
                }
                std::cmp::Ordering::Equal
            });
            let len = ids.len() as u128;
            let start = (s.offset as u128).min(len);
            let end = if s.limit == 0 {
                len
            } else {
                (s.offset as u128 + s.limit as u128).min(len)
            };
            ids[start as usize..end as usize].to_vec()
        });
        match outcome {
            Outcome::Panic(f) => {
                self.evaluated = true;
                let key = self.panic_key(&f);
                let exp = match expected {
                    Some(e) => J::Ids(e),
                    None => J::Str("ok / err".into()),
                };
                self.violation(
                    idx,
                    &key,
                    "an offset or limit beyond the end yields a shorter or empty result, never a failure",
                    exp,
                    J::Str(out.to_string()),
                );
            }
            Outcome::Ok(obs) => {
                if let Some(exp) = expected {
                    self.evaluated = true;
                    if obs != exp {
                        self.violation(
                            idx,
                            "C16/slice-mismatch/SearchQuery::search",
                            "result = positions offset..offset+limit (clipped) of the stable sort by the order keys of the same search without limit/offset/order",
                            J::Ids(exp),
                            J::Ids(obs),
                        );
                    }
                }
            }
            Outcome::Err => {
                if let Some(exp) = expected {
                    self.evaluated = true;
                    self.violation(
                        idx,
                        "C16/slice-mismatch/SearchQuery::search",
                        "the same search without limit/offset/order succeeds, so this one must too",
                        J::Ids(exp),
                        J::Str(out.to_string()),
                    );
                }
            }
            _ => {}
        }
    }

    fn note_cross(&mut self, ctx_cross: u64, ctx_kv: u64) {
        self.bump_by("kv-evaluations:cross-type", ctx_cross);
        self.bump_by("kv-evaluations:all", ctx_kv);
    }

    fn oracle_elements(&mut self, g: &Mirror, s: &Search, out: &str, outcome: Outcome, idx: usize) {
        self.evaluated = true;
        let obs = match outcome {
            Outcome::Ok(v) => v,
            _ => {
                let key = format!("{}/error/SearchQuery::search", self.prop.name());
                self.violation(
                    idx,
                    &key,
                    "an elements search does not fail",
                    J::Str("ok …".into()),
                    J::Str(out.to_string()),
                );
                return;
            }
        };
        let ctx = Ctx::new(g, Sem::Strict);
        let exp = elements(&ctx, &s.conds);
        self.note_cross(ctx.cross.get(), ctx.kv_evals.get());
        if obs == exp {
            return;
        }
        if !s.conds.is_empty() {
            let ctx2 = Ctx::new(g, Sem::VariantOrder);
            if elements(&ctx2, &s.conds) == obs {
                self.violation(
                    idx,
                    "C15/cross-type/Comparison::compare",
                    "key-value comparisons are type-strict: ordering comparisons hold only between values of the same kind",
                    J::Ids(exp),
                    J::Ids(obs),
                );
                return;
            }
        }
        let live: HashSet<i64> = g.elements_by_slot().into_iter().collect();
        let mut seen = HashSet::new();
        let removed = obs.iter().any(|i| !live.contains(i));
        let dup = obs.iter().any(|i| !seen.insert(*i));
        let missing = exp.iter().any(|i| !seen.contains(i));
        let extra = obs.iter().any(|i| live.contains(i) && !exp.contains(i));
        // outside C18 a wrong selection under conditions is a condition-evaluation finding
        let as_c15 = !s.conds.is_empty() && self.prop != Prop::C18;
        let mut keys: Vec<(&str, &str)> = vec![];
        if removed {
            keys.push(("C18/removed/ElementSearch::search", "never returns a removed element"));
        }
        if dup {
            keys.push(("C18/duplicate/ElementSearch::search", "every element exactly once"));
        }
        if as_c15 {
            if missing || extra {
                keys.push((
                    "C15/selection/DbImpl::evaluate_conditions",
                    "an elements search returns exactly the elements satisfying the conditions (distance = position in the scan)",
                ));
            }
        } else {
            if missing {
                keys.push((
                    "C18/missing/ElementSearch::search",
                    "every existing element (satisfying the conditions) is returned",
                ));
            }
            if extra {
                keys.push((
                    "C18/selection/ElementSearch::search",
                    "returns only the elements satisfying the conditions (distance = position in the scan)",
                ));
            }
        }
        if keys.is_empty() {
            keys.push((
                "C18/order/ElementSearch::search",
                "elements are returned in increasing order of the magnitude of their ids",
            ));
        }
        for (k, rule) in keys {
            self.violation(idx, k, rule, J::Ids(exp.clone()), J::Ids(obs.clone()));
        }
    }

    fn oracle_path(&mut self, g: &Mirror, s: &Search, out: &str, outcome: Outcome, idx: usize) {
        let both_exist = g.is_live(s.from) && g.is_live(s.to);
        let obs = match outcome {
            Outcome::Ok(v) => v,
            Outcome::Err => {
                self.evaluated = true;
                if both_exist {
                    self.violation(
                        idx,
                        "C17/error/SearchQuery::search",
                        "a path search between existing elements does not fail",
                        J::Str("ok …".into()),
                        J::Str(out.to_string()),
                    );
                }
                return;
            }
            _ => return,
        };
        if !both_exist {
            self.evaluated = true;
            self.violation(
                idx,
                "C17/missing-endpoint/SearchQuery::search",
                "origin and destination must exist in the database, otherwise an error is returned",
                J::Str("err:…".into()),
                J::Ids(obs),
            );
            return;
        }
        let ctx = Ctx::new(g, Sem::Strict);
        let verdict = check_path(&ctx, s.from, s.to, &s.conds, &obs);
        self.note_cross(ctx.cross.get(), ctx.kv_evals.get());
        if verdict == PathVerdict::Skipped {
            self.bump("path-oracle:skipped");
            return;
        }
        // optimality under distance-dependent conditions is C17's business only (a known finding there);
        // in the other properties' runs a path search with distance conditions is checked for validity only
        if matches!(verdict, PathVerdict::DistanceDependent(..)) && self.prop.name() != "C17" {
            self.bump("path-oracle:distance-dependent-not-C17");
            self.evaluated = true;
            return;
        }
        self.evaluated = true;
        if verdict == PathVerdict::Ok {
            return;
        }
        let ctx2 = Ctx::new(g, Sem::VariantOrder);
        if ctx.cross.get() > 0 && check_path(&ctx2, s.from, s.to, &s.conds, &obs) == PathVerdict::Ok {
            self.violation(
                idx,
                "C15/cross-type/Comparison::compare",
                "key-value comparisons are type-strict (path costs computed with strict comparisons do not explain the result; kind-ordered comparisons do)",
                J::Str("a result explained by a minimum-cost path under type-strict comparisons".into()),
                J::Ids(obs),
            );
            return;
        }
        match verdict {
            PathVerdict::Empty(rule) => self.violation(
                idx,
                "C17/empty/PathSearch::search",
                &rule,
                J::Str(if obs.is_empty() { "non-empty" } else { "empty" }.into()),
                J::Ids(obs),
            ),
            PathVerdict::NotAPath => self.violation(
                idx,
                "C17/not-a-path/PathSearch::search",
                "the result lists, in order, the passing elements of a directed alternating path origin -> destination over usable elements",
                J::Str("passing elements of some usable path".into()),
                J::Ids(obs),
            ),
            PathVerdict::NotOptimal(cstar, cobs) => self.violation(
                idx,
                "C17/not-optimal/PathSearch::search",
                "the path has minimum cost (passing element 1, failing element 2, origin 0)",
                J::Str(format!("cost {cstar}")),
                J::Str(format!(
                    "cheapest path explaining {:?} costs {cobs}",
                    obs
                )),
            ),
            PathVerdict::DistanceDependent(cstar, cobs) => self.violation(
                idx,
                "C17/distance-dependent/PathSearch::process_index",
                "minimum cost / empty exactly when no usable path exists — with distance conditions an element's cost depends on the path that reaches it, and a node settled through one path is never reconsidered",
                J::Str(format!("a usable path of cost {cstar} exists")),
                J::Str(match cobs {
                    Some(c) => format!("cheapest path explaining {:?} costs {c}", obs),
                    None => format!("{:?} is not explained by any usable path", obs),
                }),
            ),
            PathVerdict::EdgeDistance => self.violation(
                idx,
                "C17/edge-distance/PathSearch::expand_edge",
                "distance counts every node and edge step (first edge 1, next node 2, ...); the result is explained only when edges are evaluated at distance + 1",
                J::Str("passing elements of a usable path with edges at odd distances".into()),
                J::Ids(obs),
            ),
            _ => {}
        }
    }

    fn oracle_traversal(&mut self, g: &Mirror, s: &Search, out: &str, outcome: Outcome, idx: usize) {
        let p = self.prop.name();
        let (origin, dir) = if s.from != 0 {
            (s.from, Dir::Fwd)
        } else {
            (s.to, Dir::Rev)
        };
        self.evaluated = true;
        if !g.is_live(origin) {
            // includes `0 0`: id 0 never exists
            if let Outcome::Ok(v) = outcome {
                let key = format!("{p}/missing-origin/SearchQuery::search");
                self.violation(
                    idx,
                    &key,
                    "the origin must exist in the database, otherwise an error is returned",
                    J::Str("err:…".into()),
                    J::Ids(v),
                );
            }
            return;
        }
        let obs = match outcome {
            Outcome::Ok(v) => v,
            _ => {
                let key = format!("{p}/error/SearchQuery::search");
                self.violation(
                    idx,
                    &key,
                    "a search from an existing element does not fail",
                    J::Str("ok …".into()),
                    J::Str(out.to_string()),
                );
                return;
            }
        };
        let ctx = Ctx::new(g, Sem::Strict);
        let run = |ctx: &Ctx, conds: &[Cond]| match s.alg {
            Alg::Dfs => dfs(ctx, origin, dir, conds),
            _ => bfs(ctx, origin, dir, conds),
        };
        let exp = run(&ctx, &s.conds);
        self.note_cross(ctx.cross.get(), ctx.kv_evals.get());
        if obs == exp {
            return;
        }
        let reach: HashSet<i64> = bfs(&ctx, origin, dir, &[]).into_iter().collect();
        let unreachable_extra = obs.iter().any(|i| !reach.contains(i));
        if !s.conds.is_empty() {
            let ctx2 = Ctx::new(g, Sem::VariantOrder);
            if run(&ctx2, &s.conds) == obs {
                self.violation(
                    idx,
                    "C15/cross-type/Comparison::compare",
                    "key-value comparisons are type-strict: ordering comparisons hold only between values of the same kind",
                    J::Ids(exp),
                    J::Ids(obs),
                );
            } else if origin < 0 && unreachable_extra {
                self.violation(
                    idx,
                    "C14/edge-origin/SearchImpl::search",
                    "a search from an edge returns only elements reachable from it",
                    J::Ids(exp),
                    J::Ids(obs),
                );
            } else {
                self.violation(
                    idx,
                    "C15/selection/DbImpl::evaluate_conditions",
                    "selected elements and extent of the traversal follow the documented condition semantics and truth tables",
                    J::Ids(exp),
                    J::Ids(obs),
                );
            }
            return;
        }
        // C14 classification (several categories may apply)
        let mut seen = HashSet::new();
        let dup = obs.iter().any(|i| !seen.insert(*i));
        let missing = exp.iter().any(|i| !seen.contains(i));
        let mut fired = false;
        if unreachable_extra {
            fired = true;
            if origin < 0 {
                self.violation(
                    idx,
                    "C14/edge-origin/SearchImpl::search",
                    "a search from an edge returns the edge, then only elements reachable from it",
                    J::Ids(exp.clone()),
                    J::Ids(obs.clone()),
                );
            } else {
                self.violation(
                    idx,
                    "C14/unreachable/SearchImpl::search",
                    "nothing but the elements reachable from the origin is returned",
                    J::Ids(exp.clone()),
                    J::Ids(obs.clone()),
                );
            }
        }
        if dup {
            fired = true;
            self.violation(
                idx,
                "C14/duplicate/SearchImpl::search",
                "each reachable element is returned exactly once",
                J::Ids(exp.clone()),
                J::Ids(obs.clone()),
            );
        }
        if missing {
            fired = true;
            self.violation(
                idx,
                "C14/missing/SearchImpl::search",
                "every element reachable from the origin is returned",
                J::Ids(exp.clone()),
                J::Ids(obs.clone()),
            );
        }
        if !fired {
            let (key, rule) = if s.alg == Alg::Dfs {
                (
                    "C14/order-dfs/SearchImpl::search",
                    "depth-first: each branch to its end before backtracking, a node's edges from the most recently connected to the oldest",
                )
            } else {
                (
                    "C14/order-bfs/SearchImpl::search",
                    "breadth-first: level by level, a node's edges from the most recently connected to the oldest",
                )
            };
            self.violation(idx, key, rule, J::Ids(exp), J::Ids(obs));
        }
    }

    // ------------------------------------------------------------ output

    pub fn finish(&mut self) {
        self.finish_case();
    }

    pub fn stats_json(&self, rule_extra: &str) -> String {
        let mut samples = self.samples.clone();
        for f in &self.fallback_samples {
            if samples.len() >= 5 {
                break;
            }
            samples.push(f.clone());
        }
        let samples_json = samples
            .iter()
            .map(|c| {
                format!(
                    "[{}]",
                    c.iter().map(|l| json_str(l)).collect::<Vec<_>>().join(",")
                )
            })
            .collect::<Vec<_>>()
            .join(",");
        let hist = self
            .hist
            .iter()
            .map(|(k, v)| format!("{}:{}", json_str(k), v))
            .collect::<Vec<_>>()
            .join(",");
        let rule = format!(
            "evaluations = search ops whose oracle was evaluated (of {} search ops; path searches with distance conditions on graphs > 8 nodes or with an empty result are skipped, sliced searches whose base query fails are skipped); distinct_nontrivial = number of distinct cases (FNV-1a hash of the case's op lines without the `case` line) containing at least one search that returned >= 2 elements. {}",
            self.searches, rule_extra
        );
        format!(
            "{{\"evaluations\":{},\"distinct_nontrivial\":{},\"rule\":{},\"samples\":[{}],\"histogram\":{{{}}}}}\n",
            self.evaluations,
            self.nontrivial.len(),
            json_str(&rule),
            samples_json,
            hist
        )
    }
}
