//! Differential-testing harness for group `search` (properties C14..C18).
//!
//! ```text
//! harness_search gen    --prop <C14|C15|C16|C17|C18> --seed <u64> --tier quick|thorough --out <dir> [--corpus <dir>]
//! harness_search replay --prop <ID> --ops <file> --out <dir>
//! ```
//! Writes `ops.txt`, `impl.txt`, `oracle.jsonl`, `stats.json` into `<dir>`
//! (see /verif/tools/INTERFACE.md and /verif/notes/search.md).

mod exec;
mod generate;
mod mirror;
mod ops;
mod prng;
mod reference;
mod runner;
mod value;

use runner::Prop;
use runner::Runner;
use std::collections::HashMap;
use std::path::Path;
use std::process::ExitCode;

fn usage() -> ExitCode {
    eprintln!(
        "usage:\n  harness_search gen    --prop <C14|C15|C16|C17|C18> --seed <u64> --tier quick|thorough --out <dir> [--corpus <dir>]\n  harness_search replay --prop <ID> --ops <file> --out <dir>"
    );
    ExitCode::from(2)
}

fn write_outputs(r: &Runner, out: &Path, rule_extra: &str) -> std::io::Result<()> {
    std::fs::create_dir_all(out)?;
    let mut ops = r.ops.join("\n");
    let mut outs = r.outs.join("\n");
    if !r.ops.is_empty() {
        ops.push('\n');
        outs.push('\n');
    }
    std::fs::write(out.join("ops.txt"), ops)?;
    std::fs::write(out.join("impl.txt"), outs)?;
    let mut oracle = r.violations.join("\n");
    if !r.violations.is_empty() {
        oracle.push('\n');
    }
    std::fs::write(out.join("oracle.jsonl"), oracle)?;
    std::fs::write(out.join("stats.json"), r.stats_json(rule_extra))?;
    Ok(())
}

fn run_file(r: &mut Runner, text: &str, isolate: bool) {
    let mut first = true;
    for line in text.lines() {
        if first && isolate && !line.starts_with("case ") {
            r.run_line("case 0");
        }
        first = false;
        r.run_line(line);
    }
}

fn main() -> ExitCode {
    let args: Vec<String> = std::env::args().skip(1).collect();
    let Some(mode) = args.first().cloned() else {
        return usage();
    };
    let mut opts: HashMap<String, String> = HashMap::new();
    let mut i = 1;
    while i < args.len() {
        let Some(name) = args[i].strip_prefix("--") else {
            return usage();
        };
        let Some(v) = args.get(i + 1) else {
            return usage();
        };
        opts.insert(name.to_string(), v.clone());
        i += 2;
    }
    let Some(prop) = opts.get("prop").and_then(|p| Prop::parse(p)) else {
        return usage();
    };
    let Some(out) = opts.get("out").cloned() else {
        return usage();
    };
    let out = Path::new(&out);

    match mode.as_str() {
        "gen" => {
            let Some(seed) = opts.get("seed").and_then(|s| s.parse::<u64>().ok()) else {
                return usage();
            };
            let thorough = match opts.get("tier").map(|s| s.as_str()) {
                Some("quick") => false,
                Some("thorough") => true,
                _ => return usage(),
            };
            let mut r = Runner::new(prop, true);
            let mut corpus_files = 0;
            if let Some(dir) = opts.get("corpus")
                && let Ok(rd) = std::fs::read_dir(dir)
            {
                let mut files: Vec<_> = rd
                    .filter_map(|e| e.ok())
                    .map(|e| e.path())
                    .filter(|p| p.extension().is_some_and(|x| x == "ops"))
                    .collect();
                files.sort();
                for f in files {
                    if let Ok(text) = std::fs::read_to_string(&f) {
                        corpus_files += 1;
                        run_file(&mut r, &text, true);
                    }
                }
            }
            generate::Gen::new(&mut r, seed, thorough).run();
            r.finish();
            let extra = format!(
                "gen prop={} seed={} tier={} corpus_files={}",
                prop.name(),
                seed,
                if thorough { "thorough" } else { "quick" },
                corpus_files
            );
            if let Err(e) = write_outputs(&r, out, &extra) {
                eprintln!("cannot write outputs: {e}");
                return ExitCode::from(1);
            }
        }
        "replay" => {
            let Some(file) = opts.get("ops") else {
                return usage();
            };
            let text = match std::fs::read_to_string(file) {
                Ok(t) => t,
                Err(e) => {
                    eprintln!("cannot read {file}: {e}");
                    return ExitCode::from(1);
                }
            };
            let mut r = Runner::new(prop, false);
            run_file(&mut r, &text, false);
            r.finish();
            let extra = format!("replay prop={}", prop.name());
            if let Err(e) = write_outputs(&r, out, &extra) {
                eprintln!("cannot write outputs: {e}");
                return ExitCode::from(1);
            }
        }
        _ => return usage(),
    }
    ExitCode::SUCCESS
}
