//! Implementation side: executes parsed ops on a real in-memory `agdb` database.
//! Every op runs under `catch_unwind` on a worker thread; the caller waits with a
//! watchdog timeout and abandons the worker when a search hangs.

use crate::ops::Alg;
use crate::ops::CData;
use crate::ops::Cond;
use crate::ops::Logic;
use crate::ops::Modi;
use crate::ops::Op;
use crate::ops::Search;
use crate::ops::CC;
use crate::value::Cmp;
use crate::value::Val;
use agdb::Comparison;
use agdb::CountComparison;
use agdb::DbF64;
use agdb::DbId;
use agdb::DbKeyOrder;
use agdb::DbKeyValue;
use agdb::DbMemory;
use agdb::DbValue;
use agdb::KeyValueComparison;
use agdb::QueryBuilder;
use agdb::QueryCondition;
use agdb::QueryConditionData;
use agdb::QueryConditionLogic;
use agdb::QueryConditionModifier;
use agdb::QueryId;
use agdb::SearchQuery;
use agdb::SearchQueryAlgorithm;
use std::cell::RefCell;
use std::panic::AssertUnwindSafe;
use std::sync::Once;
use std::sync::mpsc::Receiver;
use std::sync::mpsc::Sender;
use std::sync::mpsc::channel;
use std::time::Duration;

thread_local! {
    static PANIC_FILE: RefCell<String> = const { RefCell::new(String::new()) };
}

static HOOK: Once = Once::new();
const WORKER_NAME: &str = "case-executor";

/// Installs (once) a silent panic hook that remembers the basename of the panic location.
pub fn install_panic_hook() {
    HOOK.call_once(|| {
        std::panic::set_hook(Box::new(|info| {
            let file = info
                .location()
                .map(|l| l.file().rsplit(['/', '\\']).next().unwrap_or("unknown").to_string())
                .unwrap_or_else(|| "unknown".to_string());
            PANIC_FILE.with(|f| *f.borrow_mut() = file);
            // only the case executor is expected to panic (inside agdb); anything else is a harness bug
            if std::thread::current().name() != Some(WORKER_NAME) {
                eprintln!("harness_search: internal panic: {info}");
            }
        }));
    });
}

pub fn to_db(v: &Val) -> DbValue {
    fn f(bits: u64) -> DbF64 {
        DbF64::from(f64::from_bits(bits))
    }
    match v {
        Val::Bytes(b) => DbValue::Bytes(b.clone()),
        Val::I64(i) => DbValue::I64(*i),
        Val::U64(u) => DbValue::U64(*u),
        Val::F64(bits) => DbValue::F64(f(*bits)),
        Val::Str(s) => DbValue::String(s.clone()),
        Val::VI64(v) => DbValue::VecI64(v.clone()),
        Val::VU64(v) => DbValue::VecU64(v.clone()),
        Val::VF64(v) => DbValue::VecF64(v.iter().map(|b| f(*b)).collect()),
        Val::VStr(v) => DbValue::VecString(v.clone()),
    }
}

fn count_cmp(cc: CC, n: u64) -> CountComparison {
    match cc {
        CC::Eq => CountComparison::Equal(n),
        CC::Gt => CountComparison::GreaterThan(n),
        CC::Ge => CountComparison::GreaterThanOrEqual(n),
        CC::Lt => CountComparison::LessThan(n),
        CC::Le => CountComparison::LessThanOrEqual(n),
        CC::Ne => CountComparison::NotEqual(n),
    }
}

fn comparison(cmp: Cmp, v: &Val) -> Comparison {
    let v = to_db(v);
    match cmp {
        Cmp::Eq => Comparison::Equal(v),
        Cmp::Gt => Comparison::GreaterThan(v),
        Cmp::Ge => Comparison::GreaterThanOrEqual(v),
        Cmp::Lt => Comparison::LessThan(v),
        Cmp::Le => Comparison::LessThanOrEqual(v),
        Cmp::Ne => Comparison::NotEqual(v),
        Cmp::Contains => Comparison::Contains(v),
        Cmp::Starts => Comparison::StartsWith(v),
        Cmp::Ends => Comparison::EndsWith(v),
    }
}

fn condition(c: &Cond) -> QueryCondition {
    QueryCondition {
        logic: match c.logic {
            Logic::And => QueryConditionLogic::And,
            Logic::Or => QueryConditionLogic::Or,
        },
        modifier: match c.modi {
            Modi::None => QueryConditionModifier::None,
            Modi::Not => QueryConditionModifier::Not,
            Modi::Beyond => QueryConditionModifier::Beyond,
            Modi::NotBeyond => QueryConditionModifier::NotBeyond,
        },
        data: match &c.data {
            CData::Node => QueryConditionData::Node,
            CData::Edge => QueryConditionData::Edge,
            CData::Dist(cc, n) => QueryConditionData::Distance(count_cmp(*cc, *n)),
            CData::Ec(cc, n) => QueryConditionData::EdgeCount(count_cmp(*cc, *n)),
            CData::Ecf(cc, n) => QueryConditionData::EdgeCountFrom(count_cmp(*cc, *n)),
            CData::Ect(cc, n) => QueryConditionData::EdgeCountTo(count_cmp(*cc, *n)),
            CData::Ids(ids) => {
                QueryConditionData::Ids(ids.iter().map(|i| QueryId::Id(DbId(*i))).collect())
            }
            CData::Keys(keys) => QueryConditionData::Keys(keys.iter().map(to_db).collect()),
            CData::Kv(k, cmp, v) => QueryConditionData::KeyValue(KeyValueComparison {
                key: to_db(k),
                value: comparison(*cmp, v),
            }),
            CData::Where(list) => QueryConditionData::Where(list.iter().map(condition).collect()),
        },
    }
}

pub fn search_query(s: &Search) -> SearchQuery {
    SearchQuery {
        algorithm: match s.alg {
            Alg::Bfs => SearchQueryAlgorithm::BreadthFirst,
            Alg::Dfs => SearchQueryAlgorithm::DepthFirst,
            Alg::Elements => SearchQueryAlgorithm::Elements,
        },
        origin: QueryId::Id(DbId(s.from)),
        destination: QueryId::Id(DbId(s.to)),
        limit: s.limit,
        offset: s.offset,
        order_by: s
            .order
            .iter()
            .map(|(asc, k)| {
                if *asc {
                    DbKeyOrder::Asc(to_db(k))
                } else {
                    DbKeyOrder::Desc(to_db(k))
                }
            })
            .collect(),
        conditions: s.conds.iter().map(condition).collect(),
    }
}

fn err(e: agdb::DbError) -> String {
    format!("err:{:?}", e.ty)
}

fn exec_op(db: &mut DbMemory, op: &Op) -> String {
    match op {
        Op::Case(n) => format!("case {n}"),
        Op::Node => match db.exec_mut(QueryBuilder::insert().nodes().count(1).query()) {
            Ok(r) => match r.elements.first() {
                Some(e) => format!("ok {}", e.id.0),
                None => "ok".to_string(),
            },
            Err(e) => err(e),
        },
        Op::Edge(a, b) => match db.exec_mut(QueryBuilder::insert().edges().from(*a).to(*b).query()) {
            Ok(r) => match r.elements.first() {
                Some(e) => format!("ok {}", e.id.0),
                None => "ok".to_string(),
            },
            Err(e) => err(e),
        },
        Op::Remove(id) => match db.exec_mut(QueryBuilder::remove().ids(*id).query()) {
            Ok(r) => format!("ok {}", (r.result as i128).abs()),
            Err(e) => err(e),
        },
        Op::Kv(id, k, v) => {
            let kv = DbKeyValue {
                key: to_db(k),
                value: to_db(v),
            };
            match db.exec_mut(QueryBuilder::insert().values(vec![vec![kv]]).ids(*id).query()) {
                Ok(_) => "ok".to_string(),
                Err(e) => err(e),
            }
        }
        Op::Cmp(a, b) => match to_db(a).cmp(&to_db(b)) {
            std::cmp::Ordering::Less => "lt".to_string(),
            std::cmp::Ordering::Equal => "eq".to_string(),
            std::cmp::Ordering::Greater => "gt".to_string(),
        },
        Op::Search(s) => {
            let q = search_query(s);
            match db.exec(&q) {
                Ok(r) => {
                    let mut out = String::from("ok");
                    for e in &r.elements {
                        out.push(' ');
                        out.push_str(&e.id.0.to_string());
                    }
                    out
                }
                Err(e) => err(e),
            }
        }
    }
}

fn new_db() -> DbMemory {
    // MemoryStorage::new reads the file of that name if it exists: use a name that cannot.
    DbMemory::new("/nonexistent-dir/harness_search.memory").expect("in-memory db")
}

enum Msg {
    Reset,
    Exec(Op),
}

pub struct Worker {
    tx: Sender<Msg>,
    rx: Receiver<String>,
}

fn timeout() -> Duration {
    let ms = std::env::var("HARNESS_SEARCH_TIMEOUT_MS")
        .ok()
        .and_then(|s| s.parse::<u64>().ok())
        .unwrap_or(10_000);
    Duration::from_millis(ms)
}

impl Worker {
    pub fn spawn() -> Worker {
        install_panic_hook();
        let (tx, wrx) = channel::<Msg>();
        let (wtx, rx) = channel::<String>();
        std::thread::Builder::new()
            .name(WORKER_NAME.into())
            .stack_size(256 << 20)
            .spawn(move || {
                let mut db = new_db();
                while let Ok(msg) = wrx.recv() {
                    match msg {
                        Msg::Reset => {
                            // a db poisoned by a panic must not take the worker down on drop
                            let old = std::mem::replace(&mut db, new_db());
                            let _ = std::panic::catch_unwind(AssertUnwindSafe(move || drop(old)));
                        }
                        Msg::Exec(op) => {
                            let r = std::panic::catch_unwind(AssertUnwindSafe(|| exec_op(&mut db, &op)));
                            let out = match r {
                                Ok(s) => s,
                                Err(_) => format!("panic:{}", PANIC_FILE.with(|f| f.borrow().clone())),
                            };
                            if wtx.send(out).is_err() {
                                return;
                            }
                        }
                    }
                }
            })
            .expect("spawn worker");
        Worker { tx, rx }
    }

    pub fn reset(&self) {
        let _ = self.tx.send(Msg::Reset);
    }

    /// `None` = watchdog expired (the worker must be abandoned)
    pub fn exec(&self, op: &Op) -> Option<String> {
        if self.tx.send(Msg::Exec(op.clone())).is_err() {
            return None;
        }
        self.rx.recv_timeout(timeout()).ok()
    }
}
