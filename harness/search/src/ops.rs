//! Op lines of stream S6 `search` (see /verif/notes/search.md): AST, the one parser
//! used by both `gen` and `replay`, and the printer used by the generators.

use crate::value::Cmp;
use crate::value::Val;
use crate::value::parse_i64;
use crate::value::parse_u64;

#[derive(Clone, Copy, Debug, PartialEq, Eq)]
pub enum Alg {
    Bfs,
    Dfs,
    Elements,
}

impl Alg {
    pub fn name(self) -> &'static str {
        match self {
            Alg::Bfs => "bfs",
            Alg::Dfs => "dfs",
            Alg::Elements => "elements",
        }
    }
}

#[derive(Clone, Copy, Debug, PartialEq, Eq)]
pub enum Logic {
    And,
    Or,
}

#[derive(Clone, Copy, Debug, PartialEq, Eq)]
pub enum Modi {
    None,
    Not,
    Beyond,
    NotBeyond,
}

impl Modi {
    pub fn name(self) -> &'static str {
        match self {
            Modi::None => "none",
            Modi::Not => "not",
            Modi::Beyond => "beyond",
            Modi::NotBeyond => "not_beyond",
        }
    }
}

/// count comparison
#[derive(Clone, Copy, Debug, PartialEq, Eq)]
pub enum CC {
    Eq,
    Gt,
    Ge,
    Lt,
    Le,
    Ne,
}

pub const ALL_CC: [CC; 6] = [CC::Eq, CC::Gt, CC::Ge, CC::Lt, CC::Le, CC::Ne];

impl CC {
    pub fn name(self) -> &'static str {
        match self {
            CC::Eq => "eq",
            CC::Gt => "gt",
            CC::Ge => "ge",
            CC::Lt => "lt",
            CC::Le => "le",
            CC::Ne => "ne",
        }
    }

    pub fn parse(s: &str) -> Option<CC> {
        ALL_CC.iter().copied().find(|c| c.name() == s)
    }

    pub fn holds(self, left: u64, right: u64) -> bool {
        match self {
            CC::Eq => left == right,
            CC::Gt => left > right,
            CC::Ge => left >= right,
            CC::Lt => left < right,
            CC::Le => left <= right,
            CC::Ne => left != right,
        }
    }
}

#[derive(Clone, Debug, PartialEq)]
pub enum CData {
    Node,
    Edge,
    Dist(CC, u64),
    Ec(CC, u64),
    Ecf(CC, u64),
    Ect(CC, u64),
    Ids(Vec<i64>),
    Keys(Vec<Val>),
    Kv(Val, Cmp, Val),
    Where(Vec<Cond>),
}

impl CData {
    pub fn kind_name(&self) -> &'static str {
        match self {
            CData::Node => "node",
            CData::Edge => "edge",
            CData::Dist(..) => "dist",
            CData::Ec(..) => "ec",
            CData::Ecf(..) => "ecf",
            CData::Ect(..) => "ect",
            CData::Ids(_) => "ids",
            CData::Keys(_) => "keys",
            CData::Kv(..) => "kv",
            CData::Where(_) => "where",
        }
    }
}

#[derive(Clone, Debug, PartialEq)]
pub struct Cond {
    pub logic: Logic,
    pub modi: Modi,
    pub data: CData,
}

impl Cond {
    pub fn new(logic: Logic, modi: Modi, data: CData) -> Cond {
        Cond { logic, modi, data }
    }

    pub fn and(data: CData) -> Cond {
        Cond::new(Logic::And, Modi::None, data)
    }
}

#[derive(Clone, Debug, PartialEq)]
pub struct Search {
    pub alg: Alg,
    pub from: i64,
    pub to: i64,
    pub limit: u64,
    pub offset: u64,
    /// (ascending, key)
    pub order: Vec<(bool, Val)>,
    pub conds: Vec<Cond>,
}

impl Search {
    pub fn plain(alg: Alg, from: i64, to: i64) -> Search {
        Search {
            alg,
            from,
            to,
            limit: 0,
            offset: 0,
            order: vec![],
            conds: vec![],
        }
    }

    pub fn is_path(&self) -> bool {
        self.alg != Alg::Elements && self.from != 0 && self.to != 0
    }

    pub fn is_sliced(&self) -> bool {
        self.limit != 0 || self.offset != 0 || !self.order.is_empty()
    }
}

#[derive(Clone, Debug, PartialEq)]
pub enum Op {
    Case(u64),
    Node,
    Edge(i64, i64),
    Remove(i64),
    Kv(i64, Val, Val),
    Cmp(Val, Val),
    Search(Search),
}

impl Op {
    pub fn kind_name(&self) -> &'static str {
        match self {
            Op::Case(_) => "case",
            Op::Node => "node",
            Op::Edge(..) => "edge",
            Op::Remove(_) => "remove",
            Op::Kv(..) => "kv",
            Op::Cmp(..) => "cmp",
            Op::Search(_) => "search",
        }
    }

    pub fn is_mutation(&self) -> bool {
        matches!(self, Op::Node | Op::Edge(..) | Op::Remove(_) | Op::Kv(..))
    }
}

// ---------------------------------------------------------------- printing

fn push_cond(c: &Cond, out: &mut Vec<String>) {
    let l = match c.logic {
        Logic::And => '&',
        Logic::Or => '|',
    };
    let m = match c.modi {
        Modi::None => '.',
        Modi::Not => '!',
        Modi::Beyond => '>',
        Modi::NotBeyond => '#',
    };
    out.push(format!("{l}{m}"));
    match &c.data {
        CData::Node => out.push("node".into()),
        CData::Edge => out.push("edge".into()),
        CData::Dist(cc, n) => {
            out.push("dist".into());
            out.push(cc.name().into());
            out.push(n.to_string());
        }
        CData::Ec(cc, n) => {
            out.push("ec".into());
            out.push(cc.name().into());
            out.push(n.to_string());
        }
        CData::Ecf(cc, n) => {
            out.push("ecf".into());
            out.push(cc.name().into());
            out.push(n.to_string());
        }
        CData::Ect(cc, n) => {
            out.push("ect".into());
            out.push(cc.name().into());
            out.push(n.to_string());
        }
        CData::Ids(ids) => {
            out.push("ids".into());
            out.push(ids.len().to_string());
            for i in ids {
                out.push(i.to_string());
            }
        }
        CData::Keys(keys) => {
            out.push("keys".into());
            out.push(keys.len().to_string());
            for k in keys {
                out.push(k.fmt());
            }
        }
        CData::Kv(k, cmp, v) => {
            out.push("kv".into());
            out.push(k.fmt());
            out.push(cmp.name().into());
            out.push(v.fmt());
        }
        CData::Where(list) => {
            out.push("[".into());
            for c in list {
                push_cond(c, out);
            }
            out.push("]".into());
        }
    }
}

pub fn fmt_search(s: &Search) -> String {
    let mut t: Vec<String> = vec![
        "search".into(),
        s.alg.name().into(),
        s.from.to_string(),
        s.to.to_string(),
        s.limit.to_string(),
        s.offset.to_string(),
        "order".into(),
        s.order.len().to_string(),
    ];
    for (asc, k) in &s.order {
        t.push(format!("{}:{}", if *asc { 'a' } else { 'd' }, k.fmt()));
    }
    t.push("where".into());
    for c in &s.conds {
        push_cond(c, &mut t);
    }
    t.join(" ")
}

pub fn fmt_op(op: &Op) -> String {
    match op {
        Op::Case(n) => format!("case {n}"),
        Op::Node => "node".into(),
        Op::Edge(a, b) => format!("edge {a} {b}"),
        Op::Remove(i) => format!("remove {i}"),
        Op::Kv(i, k, v) => format!("kv {i} {} {}", k.fmt(), v.fmt()),
        Op::Cmp(a, b) => format!("cmp {} {}", a.fmt(), b.fmt()),
        Op::Search(s) => fmt_search(s),
    }
}

// ---------------------------------------------------------------- parsing

struct Toks<'a> {
    t: Vec<&'a str>,
    i: usize,
}

impl<'a> Toks<'a> {
    fn next(&mut self) -> Option<&'a str> {
        let x = self.t.get(self.i).copied();
        if x.is_some() {
            self.i += 1;
        }
        x
    }

    fn peek(&self) -> Option<&'a str> {
        self.t.get(self.i).copied()
    }

    fn done(&self) -> bool {
        self.i >= self.t.len()
    }
}

fn parse_conds(t: &mut Toks, nested: bool, depth: usize) -> Option<Vec<Cond>> {
    if depth > 64 {
        return None;
    }
    let mut out = vec![];
    loop {
        match t.peek() {
            None => return if nested { None } else { Some(out) },
            Some("]") => {
                if nested {
                    t.next();
                    return Some(out);
                }
                return None;
            }
            Some(_) => {}
        }
        let head = t.next()?;
        let hb = head.as_bytes();
        if hb.len() != 2 {
            return None;
        }
        let logic = match hb[0] {
            b'&' => Logic::And,
            b'|' => Logic::Or,
            _ => return None,
        };
        let modi = match hb[1] {
            b'.' => Modi::None,
            b'!' => Modi::Not,
            b'>' => Modi::Beyond,
            b'#' => Modi::NotBeyond,
            _ => return None,
        };
        let data = match t.next()? {
            "node" => CData::Node,
            "edge" => CData::Edge,
            k @ ("dist" | "ec" | "ecf" | "ect") => {
                let cc = CC::parse(t.next()?)?;
                let n = parse_u64(t.next()?)?;
                match k {
                    "dist" => CData::Dist(cc, n),
                    "ec" => CData::Ec(cc, n),
                    "ecf" => CData::Ecf(cc, n),
                    _ => CData::Ect(cc, n),
                }
            }
            "ids" => {
                let k = parse_u64(t.next()?)?;
                let mut ids = vec![];
                for _ in 0..k {
                    ids.push(parse_i64(t.next()?)?);
                }
                CData::Ids(ids)
            }
            "keys" => {
                let k = parse_u64(t.next()?)?;
                let mut keys = vec![];
                for _ in 0..k {
                    keys.push(Val::parse(t.next()?)?);
                }
                CData::Keys(keys)
            }
            "kv" => {
                let key = Val::parse(t.next()?)?;
                let cmp = Cmp::parse(t.next()?)?;
                let v = Val::parse(t.next()?)?;
                CData::Kv(key, cmp, v)
            }
            "[" => CData::Where(parse_conds(t, true, depth + 1)?),
            _ => return None,
        };
        out.push(Cond { logic, modi, data });
    }
}

fn parse_search(t: &mut Toks) -> Option<Search> {
    let alg = match t.next()? {
        "bfs" => Alg::Bfs,
        "dfs" => Alg::Dfs,
        "elements" => Alg::Elements,
        _ => return None,
    };
    let from = parse_i64(t.next()?)?;
    let to = parse_i64(t.next()?)?;
    let limit = parse_u64(t.next()?)?;
    let offset = parse_u64(t.next()?)?;
    if t.next()? != "order" {
        return None;
    }
    let k = parse_u64(t.next()?)?;
    let mut order = vec![];
    for _ in 0..k {
        let tok = t.next()?;
        let (d, v) = tok.split_once(':')?;
        let asc = match d {
            "a" => true,
            "d" => false,
            _ => return None,
        };
        order.push((asc, Val::parse(v)?));
    }
    if t.next()? != "where" {
        return None;
    }
    let conds = parse_conds(t, false, 0)?;
    Some(Search {
        alg,
        from,
        to,
        limit,
        offset,
        order,
        conds,
    })
}

/// `None` = malformed line (`bad-op`).
pub fn parse_line(line: &str) -> Option<Op> {
    if line.is_empty() || !line.is_ascii() {
        return None;
    }
    let toks: Vec<&str> = line.split(' ').collect();
    if toks.iter().any(|t| t.is_empty()) {
        return None;
    }
    let mut t = Toks { t: toks, i: 0 };
    let op = match t.next()? {
        "case" => Op::Case(parse_u64(t.next()?)?),
        "node" => Op::Node,
        "edge" => Op::Edge(parse_i64(t.next()?)?, parse_i64(t.next()?)?),
        "remove" => Op::Remove(parse_i64(t.next()?)?),
        "kv" => {
            let id = parse_i64(t.next()?)?;
            if id == 0 {
                return None;
            }
            Op::Kv(id, Val::parse(t.next()?)?, Val::parse(t.next()?)?)
        }
        "cmp" => Op::Cmp(Val::parse(t.next()?)?, Val::parse(t.next()?)?),
        "search" => Op::Search(parse_search(&mut t)?),
        _ => return None,
    };
    if t.done() { Some(op) } else { None }
}
