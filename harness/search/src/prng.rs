//! splitmix64: the single source of randomness of the generator.

pub struct Rng(u64);

impl Rng {
    pub fn new(seed: u64) -> Self {
        Rng(seed)
    }

    pub fn next(&mut self) -> u64 {
        self.0 = self.0.wrapping_add(0x9E37_79B9_7F4A_7C15);
        let mut z = self.0;
        z = (z ^ (z >> 30)).wrapping_mul(0xBF58_476D_1CE4_E5B9);
        z = (z ^ (z >> 27)).wrapping_mul(0x94D0_49BB_1331_11EB);
        z ^ (z >> 31)
    }

    /// uniform-ish in 0..n (n = 0 gives 0)
    pub fn below(&mut self, n: u64) -> u64 {
        if n == 0 { 0 } else { self.next() % n }
    }

    /// inclusive range
    pub fn range(&mut self, lo: u64, hi: u64) -> u64 {
        if hi <= lo { lo } else { lo + self.below(hi - lo + 1) }
    }

    pub fn chance(&mut self, pct: u64) -> bool {
        self.below(100) < pct
    }

    pub fn pick<'a, T>(&mut self, xs: &'a [T]) -> &'a T {
        &xs[self.below(xs.len() as u64) as usize]
    }
}
