//! Property oracles evaluated on the implementation's own outputs, WITHOUT the Lean model.
//!
//! C19: every call returns within the time bound (`timeout` = violation).
//! C10: a reference bijection alias <-> node, maintained from the property statement alone, is
//!      compared with what `select aliases` / `select all aliases` / `select ids` return.

use std::collections::BTreeMap;
use std::collections::BTreeSet;

pub struct Violation {
    pub key: String,
    pub rule: String,
    pub expected: String,
    pub observed: String,
}

pub struct Oracle {
    prop: String,
    stopped: bool,
    // reference state (C10)
    pub nodes: BTreeSet<i64>,
    pub edges: BTreeMap<i64, (i64, i64)>,
    pub a2i: BTreeMap<String, i64>,
    pub i2a: BTreeMap<i64, String>,
    pub removed_ids: BTreeSet<i64>,
    last_mut: String,
    last_rejected: bool,
    /// the last rejected op was rejected for a reason the property speaks about (empty alias / edge id)
    last_reject_c10: bool,
    // coverage
    counters: BTreeMap<String, u64>,
    maxima: BTreeMap<String, u64>,
    binds: u64,
    mechanism: u64,
    churn: u64,
    last_cap: u64,
    /// the multimap case used `insert_or_replace` (map usage) / drained `iter_key` (index usage)
    mm_used_ior: bool,
}

fn query_site(op: &str) -> &'static str {
    match op {
        "db nn" | "db na" => "insert_nodes_query.rs:InsertNodesQuery::process",
        "db ne" => "insert_edges_query.rs:InsertEdgesQuery::process",
        "db ia" => "insert_aliases_query.rs:InsertAliasesQuery::process",
        "db ra" => "remove_aliases_query.rs:RemoveAliasesQuery::process",
        "db rm" => "remove_query.rs:RemoveQuery::process",
        "db sa" => "select_aliases_query.rs:SelectAliasesQuery::process",
        "db saa" => "select_all_aliases_query.rs:SelectAllAliasesQuery::process",
        "db rs" => "select_values_query.rs:SelectValuesQuery::process",
        "db ix" => "insert_index_query.rs:InsertIndexQuery::process",
        "db rx" => "remove_index_query.rs:RemoveIndexQuery::process",
        "db sv" => "insert_values_query.rs:InsertValuesQuery::process",
        "db rv" => "remove_values_query.rs:RemoveValuesQuery::process",
        "db qx" => "search_query.rs:SearchQuery::search",
        "mm ins" => "multi_map.rs:MultiMapImpl::insert",
        "mm ior" => "multi_map.rs:MultiMapImpl::insert_or_replace",
        "mm rk" => "multi_map.rs:MultiMapImpl::remove_key",
        "mm rv" => "multi_map.rs:MultiMapImpl::remove_value",
        "mm res" => "multi_map.rs:MultiMapImpl::reserve",
        "mm val" | "mm has" => "multi_map.rs:MultiMapImpl::value",
        "mm vals" | "mm cnt" | "mm hasv" => "multi_map.rs:MultiMapIterator::next",
        "mm iter" | "mm dump" => "map.rs:MapIterator::next",
        _ => "unknown",
    }
}

enum Tok {
    Id(i64),
    Alias(String),
}

fn parse_tok(t: &str) -> Option<Tok> {
    if let Some(r) = t.strip_prefix('i') {
        r.parse::<i64>().ok().map(Tok::Id)
    } else {
        t.strip_prefix('a').map(|r| Tok::Alias(r.to_string()))
    }
}

impl Oracle {
    pub fn new(prop: &str) -> Self {
        Oracle {
            prop: prop.to_string(),
            stopped: false,
            nodes: BTreeSet::new(),
            edges: BTreeMap::new(),
            a2i: BTreeMap::new(),
            i2a: BTreeMap::new(),
            removed_ids: BTreeSet::new(),
            last_mut: String::new(),
            last_rejected: false,
            last_reject_c10: false,
            counters: BTreeMap::new(),
            maxima: BTreeMap::new(),
            binds: 0,
            mechanism: 0,
            churn: 0,
            last_cap: 0,
            mm_used_ior: false,
        }
    }

    fn count(&mut self, k: &str) {
        *self.counters.entry(format!("cov:{k}")).or_insert(0) += 1;
    }

    fn maxi(&mut self, k: &str, v: u64) {
        let e = self.maxima.entry(format!("max:{k}")).or_insert(0);
        if v > *e {
            *e = v;
        }
    }

    pub fn counters(&self) -> Vec<(String, u64)> {
        self.counters.iter().map(|(k, v)| (k.clone(), *v)).collect()
    }

    pub fn maxima(&self) -> Vec<(String, u64)> {
        self.maxima.iter().map(|(k, v)| (k.clone(), *v)).collect()
    }

    pub fn nontrivial(&self) -> bool {
        if self.prop == "C10" {
            self.binds >= 1 && self.mechanism >= 1
        } else {
            self.churn >= 64 || self.mechanism >= 1
        }
    }

    fn resolve(&self, t: &Tok) -> Option<i64> {
        match t {
            Tok::Id(i) => {
                if (*i > 0 && self.nodes.contains(i)) || (*i < 0 && self.edges.contains_key(i)) {
                    Some(*i)
                } else {
                    None
                }
            }
            Tok::Alias(a) => self.a2i.get(a).copied(),
        }
    }

    /// the statement's insert: replaces the node's previous alias, takes the alias from its holder
    fn bind(&mut self, id: i64, alias: &str) {
        self.binds += 1;
        if let Some(old) = self.i2a.remove(&id) {
            self.a2i.remove(&old);
            if old != alias {
                self.count("re-alias");
                self.mechanism += 1;
            }
            self.churn += 1;
        }
        if let Some(holder) = self.a2i.remove(alias) {
            self.i2a.remove(&holder);
            if holder != id {
                self.count("steal");
                self.mechanism += 1;
            }
        }
        self.a2i.insert(alias.to_string(), id);
        self.i2a.insert(id, alias.to_string());
        let n = self.a2i.len() as u64;
        self.maxi("aliases", n);
    }

    fn unbind_alias(&mut self, alias: &str) -> bool {
        if let Some(id) = self.a2i.remove(alias) {
            self.i2a.remove(&id);
            self.churn += 1;
            true
        } else {
            false
        }
    }

    fn remove_edge(&mut self, e: i64) {
        if self.edges.remove(&e).is_some() {
            self.removed_ids.insert(-e);
        }
    }

    fn remove_node(&mut self, n: i64) {
        if !self.nodes.remove(&n) {
            return;
        }
        self.removed_ids.insert(n);
        if let Some(a) = self.i2a.remove(&n) {
            self.a2i.remove(&a);
            self.count("aliased-node-removed");
            self.mechanism += 1;
            self.churn += 1;
        }
        let inc: Vec<i64> = self
            .edges
            .iter()
            .filter(|(_, (f, t))| *f == n || *t == n)
            .map(|(e, _)| *e)
            .collect();
        for e in inc {
            self.remove_edge(e);
        }
    }

    fn add_node(&mut self, id: i64) {
        if self.removed_ids.remove(&id) {
            self.count("id-reuse");
        }
        self.nodes.insert(id);
    }

    pub fn observe(&mut self, line: &str, out: &str) -> Vec<Violation> {
        let mut v = vec![];
        let toks: Vec<&str> = line.split(' ').collect();
        if toks.len() < 2 {
            return v;
        }
        let op = format!("{} {}", toks[0], toks[1]);
        let args = &toks[2..];
        if op == "mm ior" {
            self.mm_used_ior = true;
        }
        if self.prop == "C19" {
            let drains = matches!(op.as_str(), "mm vals" | "mm cnt" | "mm hasv");
            if out == "timeout" && drains && self.mm_used_ior {
                // A table filled through insert_or_replace (alias-map usage) and then drained with
                // iter_key (index usage): no map of the database is used both ways, so this is not a
                // query that fails to terminate. Latent defect of MultiMapIterator, reported separately.
                // Not a violation of C19 as stated (no query can do this): counted as an observation only.
                self.count("observed:latent-iterator-wrap-mixed-usage(outside-property)");
            } else if out == "timeout" {
                v.push(Violation {
                    key: format!("C19/hang/{}", query_site(&op)),
                    rule: "every call returns within the per-call time bound".to_string(),
                    expected: "a result or an error".to_string(),
                    observed: "no return within the time bound (worker killed)".to_string(),
                });
            } else if out == "crash" {
                v.push(Violation {
                    key: format!("C19/crash/{}", query_site(&op)),
                    rule: "every call returns".to_string(),
                    expected: "a result or an error".to_string(),
                    observed: "worker process died".to_string(),
                });
            }
            self.coverage_c19(&op, args, out);
            if toks[0] != "db" {
                return v;
            }
        }
        if toks[0] != "db" {
            return v;
        }
        if out == "timeout" || out == "dead" || out == "crash" || out.starts_with("panic:") {
            self.stopped = true;
        }
        if self.stopped {
            return v;
        }
        let ok = out == "ok" || out.starts_with("ok ");
        let outs: Vec<&str> = if ok {
            out.split(' ').skip(1).collect()
        } else {
            vec![]
        };
        let c10 = self.prop == "C10";
        let mut push = |v: &mut Vec<Violation>, key: String, rule: &str, exp: String, obs: String| {
            if c10 {
                v.push(Violation {
                    key,
                    rule: rule.to_string(),
                    expected: exp,
                    observed: obs,
                });
            }
        };
        let mutating = matches!(
            toks[1],
            "nn" | "na" | "ne" | "ia" | "ra" | "rm" | "sv" | "rv" | "ix" | "rx"
        );
        if mutating {
            self.last_mut = op.clone();
            self.last_rejected = !ok;
            self.last_reject_c10 = false;
        }
        let mech_before = self.counters.get("cov:empty-alias-attempt").copied().unwrap_or(0)
            + self.counters.get("cov:edge-alias-attempt").copied().unwrap_or(0);
        match toks[1] {
            "nn" => {
                let aliases = if args.is_empty() { &[][..] } else { &args[1..] };
                let has_empty = aliases.iter().any(|a| *a == "-");
                if has_empty {
                    self.count("empty-alias-attempt");
                    self.mechanism += 1;
                }
                if ok {
                    if has_empty {
                        push(
                            &mut v,
                            format!("C10/empty-alias-accepted/{}", query_site(&op)),
                            "empty aliases are rejected",
                            "an error".to_string(),
                            out.to_string(),
                        );
                    }
                    for (j, idt) in outs.iter().enumerate() {
                        let Ok(id) = idt.parse::<i64>() else { continue };
                        if let Some(a) = aliases.get(j) {
                            if let Some(h) = self.a2i.get(*a).copied() {
                                if h != id {
                                    push(
                                        &mut v,
                                        format!("C10/resolve-mismatch/{}", query_site(&op)),
                                        "resolving an alias agrees with the mapping",
                                        format!("{h}"),
                                        format!("{id}"),
                                    );
                                }
                                continue;
                            }
                            self.add_node(id);
                            self.bind(id, a);
                        } else {
                            self.add_node(id);
                        }
                    }
                }
            }
            "na" if args.len() == 2 => {
                let tok = parse_tok(args[0]);
                let alias = args[1];
                let rid = tok.as_ref().and_then(|t| self.resolve(t));
                if alias == "-" {
                    self.count("empty-alias-attempt");
                    self.mechanism += 1;
                }
                if let Some(id) = rid {
                    if id < 0 {
                        self.count("edge-alias-attempt");
                        self.mechanism += 1;
                    }
                }
                if ok {
                    if alias == "-" {
                        push(
                            &mut v,
                            format!("C10/empty-alias-accepted/{}", query_site(&op)),
                            "empty aliases are rejected",
                            "an error".to_string(),
                            out.to_string(),
                        );
                    }
                    match rid {
                        Some(id) if id < 0 => push(
                            &mut v,
                            format!("C10/edge-alias-accepted/{}", query_site(&op)),
                            "aliases for edges are rejected",
                            "an error".to_string(),
                            out.to_string(),
                        ),
                        Some(id) => self.bind(id, alias),
                        None => push(
                            &mut v,
                            format!("C10/resolve-mismatch/{}", query_site(&op)),
                            "resolving agrees with the mapping",
                            "an error (id does not resolve)".to_string(),
                            out.to_string(),
                        ),
                    }
                }
            }
            "ne" if args.len() == 2 => {
                if ok {
                    let f = parse_tok(args[0]).and_then(|t| self.resolve(&t));
                    let t = parse_tok(args[1]).and_then(|t| self.resolve(&t));
                    if let (Some(f), Some(t), Some(Ok(id))) =
                        (f, t, outs.first().map(|x| x.parse::<i64>()))
                    {
                        if self.removed_ids.remove(&-id) {
                            self.count("id-reuse");
                        }
                        self.edges.insert(id, (f, t));
                    }
                }
            }
            "ia" => {
                let n = args.first().and_then(|x| x.parse::<usize>().ok()).unwrap_or(0);
                if args.len() > n {
                    let ids: Vec<Option<Tok>> = args[1..1 + n].iter().map(|t| parse_tok(t)).collect();
                    let aliases = &args[1 + n..];
                    let has_empty = ids.len() == aliases.len() && aliases.iter().any(|a| *a == "-");
                    if has_empty {
                        self.count("empty-alias-attempt");
                        self.mechanism += 1;
                    }
                    let literal_edge = ids.len() == aliases.len()
                        && ids.iter().any(|t| matches!(t, Some(Tok::Id(i)) if *i < 0 && self.edges.contains_key(i)));
                    if literal_edge {
                        self.count("edge-alias-attempt");
                        self.mechanism += 1;
                    }
                    if ok {
                        if has_empty {
                            push(
                                &mut v,
                                format!("C10/empty-alias-accepted/{}", query_site(&op)),
                                "empty aliases are rejected",
                                "an error".to_string(),
                                out.to_string(),
                            );
                        }
                        for (t, a) in ids.iter().zip(aliases.iter()) {
                            let rid = t.as_ref().and_then(|t| self.resolve(t));
                            match rid {
                                Some(id) if id < 0 => {
                                    push(
                                        &mut v,
                                        format!("C10/edge-alias-accepted/{}", query_site(&op)),
                                        "aliases for edges are rejected",
                                        "an error".to_string(),
                                        out.to_string(),
                                    );
                                    // keep following the implementation so that later checks show the consequence
                                }
                                Some(id) => self.bind(id, a),
                                None => push(
                                    &mut v,
                                    format!("C10/resolve-mismatch/{}", query_site(&op)),
                                    "resolving agrees with the mapping",
                                    "an error (id does not resolve to an existing element)".to_string(),
                                    out.to_string(),
                                ),
                            }
                        }
                    }
                }
            }
            "ra" => {
                if ok {
                    let mut n = 0;
                    for a in args {
                        if self.unbind_alias(a) {
                            n += 1;
                            self.count("alias-removed");
                        }
                    }
                    if outs.first().map(|x| x.to_string()) != Some(format!("{n}")) {
                        push(
                            &mut v,
                            format!("C10/resolve-mismatch/{}", query_site(&op)),
                            "removing an alias agrees with the mapping (count of aliases that existed)",
                            format!("{n}"),
                            out.to_string(),
                        );
                    }
                }
            }
            "rm" => {
                if ok {
                    for a in args {
                        match parse_tok(a) {
                            Some(Tok::Id(i)) if i > 0 => self.remove_node(i),
                            Some(Tok::Id(i)) if i < 0 => self.remove_edge(i),
                            Some(Tok::Alias(al)) => {
                                if let Some(id) = self.a2i.get(&al).copied() {
                                    if id > 0 {
                                        self.remove_node(id);
                                    }
                                }
                            }
                            _ => {}
                        }
                    }
                }
            }
            "sv" if args.len() == 3 => {
                let tok = parse_tok(args[0]);
                let rid = tok.as_ref().and_then(|t| self.resolve(t));
                let creates = rid.is_none()
                    && matches!(tok, Some(Tok::Alias(_)) | Some(Tok::Id(0)));
                if let Some(Tok::Alias(a)) = &tok {
                    if a == "-" {
                        self.count("empty-alias-attempt");
                        self.mechanism += 1;
                        if ok {
                            push(
                                &mut v,
                                format!("C10/empty-alias-accepted/{}", query_site(&op)),
                                "empty aliases are rejected",
                                "an error".to_string(),
                                out.to_string(),
                            );
                        }
                    }
                }
                if ok && creates {
                    if let Some(Ok(id)) = outs.get(1).map(|x| x.parse::<i64>()) {
                        self.add_node(id);
                        if let Some(Tok::Alias(a)) = &tok {
                            self.bind(id, a);
                        }
                    }
                }
                if ok {
                    self.churn += 1;
                }
            }
            "saa" => {
                if ok {
                    let mut seen_a = BTreeSet::new();
                    let mut seen_i = BTreeSet::new();
                    let mut got: BTreeMap<String, i64> = BTreeMap::new();
                    for p in &outs {
                        let Some((a, i)) = p.rsplit_once('=') else { continue };
                        let Ok(i) = i.parse::<i64>() else { continue };
                        if !seen_a.insert(a.to_string()) || !seen_i.insert(i) {
                            push(
                                &mut v,
                                "C10/not-one-to-one/select-all-aliases".to_string(),
                                "each alias names at most one node and each node has at most one alias",
                                "a bijection".to_string(),
                                out.to_string(),
                            );
                        }
                        if i <= 0 || !self.nodes.contains(&i) {
                            let kind = if i < 0 { "alias-on-edge" } else { "alias-on-nonexistent-node" };
                            push(
                                &mut v,
                                format!("C10/{kind}/select-all-aliases"),
                                "each alias names an existing node",
                                format!("id of a live node, live nodes = {:?}", self.nodes),
                                format!("{a}={i}"),
                            );
                        }
                        if a == "-" {
                            push(
                                &mut v,
                                "C10/empty-alias-present/select-all-aliases".to_string(),
                                "empty aliases are rejected",
                                "no empty alias".to_string(),
                                out.to_string(),
                            );
                        }
                        got.insert(a.to_string(), i);
                    }
                    if got != self.a2i && v.is_empty() && self.last_rejected && !self.last_reject_c10 {
                        // a query rejected for a reason C10 does not speak about (unknown id, ...):
                        // what rollback leaves behind is property C13's business; follow the implementation
                        self.count("resync-after-other-rejection");
                        self.a2i = got.clone();
                        self.i2a = got.iter().map(|(a, i)| (*i, a.clone())).collect();
                    }
                    if got != self.a2i && v.is_empty() {
                        let key = if self.last_rejected {
                            format!("C10/rejected-with-effect/after {}", self.last_mut)
                        } else {
                            format!("C10/mapping-mismatch/after {}", self.last_mut)
                        };
                        push(
                            &mut v,
                            key,
                            "select all aliases agrees with the mapping defined by the history",
                            format!("{:?}", self.a2i),
                            format!("{got:?}"),
                        );
                    }
                    if !v.is_empty() {
                        // follow the implementation from here on so that one defect is reported once per case
                        self.a2i = got.clone();
                        self.i2a = got.iter().map(|(a, i)| (*i, a.clone())).collect();
                    }
                }
            }
            "sa" => {
                let toks2: Vec<Option<Tok>> = args.iter().map(|t| parse_tok(t)).collect();
                let mut exp: Vec<String> = vec![];
                let mut all = true;
                for t in &toks2 {
                    match t {
                        Some(Tok::Id(i)) => match self.i2a.get(i) {
                            Some(a) => exp.push(format!("{i}={a}")),
                            None => all = false,
                        },
                        Some(Tok::Alias(a)) => match self.a2i.get(a) {
                            Some(i) => exp.push(format!("{i}={a}")),
                            None => all = false,
                        },
                        None => all = false,
                    }
                }
                let observed: Vec<String> = outs.iter().map(|s| s.to_string()).collect();
                if all != ok || (ok && observed != exp) {
                    push(
                        &mut v,
                        format!("C10/resolve-mismatch/{}", query_site(&op)),
                        "selecting a node's alias agrees with the mapping",
                        if all { format!("ok {}", exp.join(" ")) } else { "an error".to_string() },
                        out.to_string(),
                    );
                }
            }
            "rs" => {
                let toks2: Vec<Option<Tok>> = args.iter().map(|t| parse_tok(t)).collect();
                let only_alias = toks2.iter().all(|t| matches!(t, Some(Tok::Alias(_))));
                if only_alias {
                    let exp: Vec<Option<i64>> = toks2
                        .iter()
                        .map(|t| t.as_ref().and_then(|t| self.resolve(t)))
                        .collect();
                    let all = exp.iter().all(|e| e.is_some());
                    let exp_s: Vec<String> = exp.iter().flatten().map(|i| i.to_string()).collect();
                    let observed: Vec<String> = outs.iter().map(|s| s.to_string()).collect();
                    if all != ok || (ok && observed != exp_s) {
                        push(
                            &mut v,
                            format!("C10/resolve-mismatch/{}", query_site(&op)),
                            "resolving an alias agrees with the mapping (removed aliases are unresolvable)",
                            if all { format!("ok {}", exp_s.join(" ")) } else { "an error".to_string() },
                            out.to_string(),
                        );
                    }
                }
            }
            _ => {}
        }
        let mech_after = self.counters.get("cov:empty-alias-attempt").copied().unwrap_or(0)
            + self.counters.get("cov:edge-alias-attempt").copied().unwrap_or(0);
        if mutating && !ok && mech_after > mech_before {
            self.last_reject_c10 = true;
        }
        v
    }

    fn coverage_c19(&mut self, op: &str, _args: &[&str], out: &str) {
        if op == "mm dump" && out.starts_with("ok ") {
            let mut deleted = 0u64;
            let mut empty = 0u64;
            let mut cap = 0u64;
            for t in out.split(' ').skip(1) {
                if let Some(c) = t.strip_prefix("cap=") {
                    cap = c.parse().unwrap_or(0);
                } else if let Some(n) = t.strip_prefix("D*") {
                    deleted += n.parse::<u64>().unwrap_or(0);
                } else if let Some(n) = t.strip_prefix("E*") {
                    empty += n.parse::<u64>().unwrap_or(0);
                }
            }
            self.maxi("tombstones", deleted);
            self.maxi("capacity", cap);
            if cap > 0 && empty == 0 {
                self.count("table-without-empty-slot");
                self.mechanism += 1;
            }
            if self.last_cap != 0 && cap > self.last_cap {
                self.count("rehash-grow");
                self.mechanism += 1;
            }
            if cap != 0 && cap < self.last_cap {
                self.count("rehash-shrink");
                self.mechanism += 1;
            }
            self.last_cap = cap;
        }
        if matches!(op, "mm rk" | "mm rv") && out == "ok" {
            self.churn += 1;
        }
        if matches!(op, "db rv" | "db ix" | "db rx") && out.starts_with("ok") {
            self.churn += 1;
        }
    }
}
