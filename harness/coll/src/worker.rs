//! Executes op lines on the REAL code (agdb) and prints one canonical output line per op.
//! Runs inside a child process so that the parent can enforce a per-op time bound and kill a
//! hung call (the C19 oracle).

use agdb::DbError;
use agdb::DbId;
use agdb::DbMemory;
use agdb::DbValue;
use agdb::InsertAliasesQuery;
use agdb::InsertNodesQuery;
use agdb::InsertValuesQuery;
use agdb::QueryBuilder;
use agdb::QueryId;
use agdb::QueryIds;
use agdb::QueryResult;
use agdb::QueryValues;
use agdb::RemoveAliasesQuery;
use agdb::RemoveQuery;
use agdb::SelectAliasesQuery;
use agdb::SelectAllAliasesQuery;
use std::io::BufRead;
use std::io::Write;
use std::panic::AssertUnwindSafe;

pub fn hex_encode(s: &str) -> String {
    if s.is_empty() {
        return "-".to_string();
    }
    let mut out = String::with_capacity(s.len() * 2);
    for b in s.as_bytes() {
        out.push_str(&format!("{b:02x}"));
    }
    out
}

pub fn hex_decode(t: &str) -> Option<String> {
    if t == "-" {
        return Some(String::new());
    }
    if t.len() % 2 != 0 || t.is_empty() {
        return None;
    }
    let mut bytes = Vec::with_capacity(t.len() / 2);
    let b = t.as_bytes();
    for i in (0..b.len()).step_by(2) {
        let h = (b[i] as char).to_digit(16)?;
        let l = (b[i + 1] as char).to_digit(16)?;
        if (b[i] as char).is_ascii_uppercase() || (b[i + 1] as char).is_ascii_uppercase() {
            return None;
        }
        bytes.push((h * 16 + l) as u8);
    }
    String::from_utf8(bytes).ok()
}

fn parse_idtok(t: &str) -> Option<QueryId> {
    if let Some(rest) = t.strip_prefix('i') {
        rest.parse::<i64>().ok().map(|i| QueryId::Id(DbId(i)))
    } else if let Some(rest) = t.strip_prefix('a') {
        hex_decode(rest).map(QueryId::Alias)
    } else {
        None
    }
}

fn err_line(e: &DbError) -> String {
    format!("err:{}:{}", e.category, e.ty)
}

fn ids_line(r: &QueryResult) -> String {
    let mut s = String::from("ok");
    for e in &r.elements {
        s.push_str(&format!(" {}", e.id.0));
    }
    s
}

pub struct State {
    db: DbMemory,
    #[cfg(coll_hook)]
    mm: agdb::verif::coll::VerifMultiMap,
}

impl State {
    pub fn new() -> Self {
        State {
            db: DbMemory::new("coll").expect("DbMemory::new"),
            #[cfg(coll_hook)]
            mm: agdb::verif::coll::VerifMultiMap::new().expect("VerifMultiMap::new"),
        }
    }
}

fn exec_db(db: &mut DbMemory, t: &[&str]) -> Option<String> {
    let op = *t.first()?;
    let rest = &t[1..];
    Some(match op {
        // insert new nodes: nn <count> <A>*
        "nn" => {
            let count = rest.first()?.parse::<u64>().ok()?;
            if count > 64 {
                return None;
            }
            let aliases = rest[1..]
                .iter()
                .map(|a| hex_decode(a))
                .collect::<Option<Vec<String>>>()?;
            let q = InsertNodesQuery {
                count,
                values: QueryValues::Single(vec![]),
                aliases,
                ids: QueryIds::Ids(vec![]),
            };
            match db.exec_mut(&q) {
                Ok(r) => ids_line(&r),
                Err(e) => err_line(&e),
            }
        }
        // insert nodes over an existing id with an alias: na <idtok> <A>
        "na" => {
            if rest.len() != 2 {
                return None;
            }
            let id = parse_idtok(rest[0])?;
            let alias = hex_decode(rest[1])?;
            let q = InsertNodesQuery {
                count: 0,
                values: QueryValues::Single(vec![]),
                aliases: vec![alias],
                ids: QueryIds::Ids(vec![id]),
            };
            match db.exec_mut(&q) {
                Ok(r) => ids_line(&r),
                Err(e) => err_line(&e),
            }
        }
        // insert edge: ne <idtok> <idtok>
        "ne" => {
            if rest.len() != 2 {
                return None;
            }
            let from = parse_idtok(rest[0])?;
            let to = parse_idtok(rest[1])?;
            let q = QueryBuilder::insert().edges().from(from).to(to).query();
            match db.exec_mut(&q) {
                Ok(r) => ids_line(&r),
                Err(e) => err_line(&e),
            }
        }
        // insert aliases: ia <nids> <idtok>{nids} <A>*
        "ia" => {
            let n = rest.first()?.parse::<usize>().ok()?;
            if rest.len() < 1 + n {
                return None;
            }
            let ids = rest[1..1 + n]
                .iter()
                .map(|x| parse_idtok(x))
                .collect::<Option<Vec<QueryId>>>()?;
            let aliases = rest[1 + n..]
                .iter()
                .map(|a| hex_decode(a))
                .collect::<Option<Vec<String>>>()?;
            let q = InsertAliasesQuery {
                ids: QueryIds::Ids(ids),
                aliases,
            };
            match db.exec_mut(&q) {
                Ok(r) => format!("ok {}", r.result),
                Err(e) => err_line(&e),
            }
        }
        // remove aliases: ra <A>*
        "ra" => {
            let aliases = rest
                .iter()
                .map(|a| hex_decode(a))
                .collect::<Option<Vec<String>>>()?;
            match db.exec_mut(&RemoveAliasesQuery(aliases)) {
                Ok(r) => format!("ok {}", r.result),
                Err(e) => err_line(&e),
            }
        }
        // remove elements: rm <idtok>*
        "rm" => {
            let ids = rest
                .iter()
                .map(|x| parse_idtok(x))
                .collect::<Option<Vec<QueryId>>>()?;
            match db.exec_mut(&RemoveQuery(QueryIds::Ids(ids))) {
                Ok(r) => format!("ok {}", r.result),
                Err(e) => err_line(&e),
            }
        }
        // select aliases of ids: sa <idtok>*
        "sa" => {
            let ids = rest
                .iter()
                .map(|x| parse_idtok(x))
                .collect::<Option<Vec<QueryId>>>()?;
            match db.exec(&SelectAliasesQuery(QueryIds::Ids(ids))) {
                Ok(r) => alias_elements_line(&r, false),
                Err(e) => err_line(&e),
            }
        }
        // select all aliases: saa
        "saa" => {
            if !rest.is_empty() {
                return None;
            }
            match db.exec(&SelectAllAliasesQuery {}) {
                Ok(r) => alias_elements_line(&r, true),
                Err(e) => err_line(&e),
            }
        }
        // resolve ids (select ids): rs <idtok>*
        "rs" => {
            let ids = rest
                .iter()
                .map(|x| parse_idtok(x))
                .collect::<Option<Vec<QueryId>>>()?;
            let q = QueryBuilder::select().ids(ids).query();
            match db.exec(&q) {
                Ok(r) => ids_line(&r),
                Err(e) => err_line(&e),
            }
        }
        // insert index: ix <k>
        "ix" => {
            if rest.len() != 1 {
                return None;
            }
            let k = rest[0].parse::<i64>().ok()?;
            match db.exec_mut(&QueryBuilder::insert().index(k).query()) {
                Ok(r) => format!("ok {}", r.result),
                Err(e) => err_line(&e),
            }
        }
        // remove index: rx <k>
        "rx" => {
            if rest.len() != 1 {
                return None;
            }
            let k = rest[0].parse::<i64>().ok()?;
            match db.exec_mut(&QueryBuilder::remove().index(k).query()) {
                Ok(r) => format!("ok {}", r.result),
                Err(e) => err_line(&e),
            }
        }
        // set value: sv <idtok> <k> <v>
        "sv" => {
            if rest.len() != 3 {
                return None;
            }
            let id = parse_idtok(rest[0])?;
            let k = rest[1].parse::<i64>().ok()?;
            let v = rest[2].parse::<i64>().ok()?;
            let q = InsertValuesQuery {
                ids: QueryIds::Ids(vec![id]),
                values: QueryValues::Single(vec![(k, v).into()]),
            };
            match db.exec_mut(&q) {
                Ok(r) => {
                    let mut s = format!("ok {}", r.result);
                    for e in &r.elements {
                        s.push_str(&format!(" {}", e.id.0));
                    }
                    s
                }
                Err(e) => err_line(&e),
            }
        }
        // remove value: rv <idtok> <k>
        "rv" => {
            if rest.len() != 2 {
                return None;
            }
            let id = parse_idtok(rest[0])?;
            let k = rest[1].parse::<i64>().ok()?;
            let q = QueryBuilder::remove()
                .values(vec![DbValue::from(k)])
                .ids(vec![id])
                .query();
            match db.exec_mut(&q) {
                Ok(r) => format!("ok {}", r.result),
                Err(e) => err_line(&e),
            }
        }
        // query index: qx <k> <v>   (ids sorted ascending: hash-iteration order is not part of the property)
        "qx" => {
            if rest.len() != 2 {
                return None;
            }
            let k = rest[0].parse::<i64>().ok()?;
            let v = rest[1].parse::<i64>().ok()?;
            let q = QueryBuilder::search().index(k).value(v).query();
            match db.exec(&q) {
                Ok(r) => {
                    let mut ids: Vec<i64> = r.elements.iter().map(|e| e.id.0).collect();
                    ids.sort();
                    let mut s = String::from("ok");
                    for i in ids {
                        s.push_str(&format!(" {i}"));
                    }
                    s
                }
                Err(e) => err_line(&e),
            }
        }
        _ => return None,
    })
}

fn alias_elements_line(r: &QueryResult, alias_first: bool) -> String {
    let mut s = String::from("ok");
    for e in &r.elements {
        let alias = match e.values.first().map(|kv| &kv.value) {
            Some(DbValue::String(a)) => hex_encode(a),
            _ => "?".to_string(),
        };
        if alias_first {
            s.push_str(&format!(" {}={}", alias, e.id.0));
        } else {
            s.push_str(&format!(" {}={}", e.id.0, alias));
        }
    }
    s
}

#[cfg(coll_hook)]
fn exec_mm(mm: &mut agdb::verif::coll::VerifMultiMap, t: &[&str]) -> Option<String> {
    let op = *t.first()?;
    let rest = &t[1..];
    let num = |i: usize| -> Option<u64> { rest.get(i)?.parse::<u64>().ok() };
    let unit = |r: Result<(), DbError>| match r {
        Ok(()) => "ok".to_string(),
        Err(e) => err_line(&e),
    };
    Some(match op {
        "ins" if rest.len() == 2 => unit(mm.insert(num(0)?, num(1)?)),
        "ior" if rest.len() == 3 => {
            let only_if = if rest[2] == "any" {
                None
            } else {
                Some(rest[2].strip_prefix("eq")?.parse::<u64>().ok()?)
            };
            match mm.insert_or_replace(num(0)?, only_if, num(1)?) {
                Ok(None) => "ok none".to_string(),
                Ok(Some(v)) => format!("ok {v}"),
                Err(e) => err_line(&e),
            }
        }
        "rk" if rest.len() == 1 => unit(mm.remove_key(num(0)?)),
        "rv" if rest.len() == 2 => unit(mm.remove_value(num(0)?, num(1)?)),
        "res" if rest.len() == 1 => {
            let c = num(0)?;
            if c > 4096 {
                return None;
            }
            unit(mm.reserve(c))
        }
        "val" if rest.len() == 1 => match mm.value(num(0)?) {
            Ok(None) => "ok none".to_string(),
            Ok(Some(v)) => format!("ok {v}"),
            Err(e) => err_line(&e),
        },
        "vals" if rest.len() == 1 => match mm.values(num(0)?) {
            Ok(vs) => {
                let mut s = String::from("ok");
                for v in vs {
                    s.push_str(&format!(" {v}"));
                }
                s
            }
            Err(e) => err_line(&e),
        },
        "cnt" if rest.len() == 1 => match mm.values_count(num(0)?) {
            Ok(c) => format!("ok {c}"),
            Err(e) => err_line(&e),
        },
        "has" if rest.len() == 1 => match mm.contains(num(0)?) {
            Ok(b) => format!("ok {b}"),
            Err(e) => err_line(&e),
        },
        "hasv" if rest.len() == 2 => match mm.contains_value(num(0)?, num(1)?) {
            Ok(b) => format!("ok {b}"),
            Err(e) => err_line(&e),
        },
        "iter" if rest.is_empty() => {
            let mut s = String::from("ok");
            for (k, v) in mm.iter() {
                s.push_str(&format!(" {k}:{v}"));
            }
            s
        }
        "dump" if rest.is_empty() => match mm.dump() {
            Ok(slots) => {
                let mut s = format!("ok len={} cap={}", mm.len(), mm.capacity());
                let mut i = 0;
                while i < slots.len() {
                    let (st, k, v) = slots[i];
                    match st {
                        1 => {
                            s.push_str(&format!(" V{k}:{v}"));
                            i += 1;
                        }
                        _ => {
                            // Empty / Deleted slots must hold default key and value
                            let c = if st == 0 { 'E' } else { 'D' };
                            let mut j = i;
                            while j < slots.len() && slots[j].0 == st && slots[j].1 == 0 && slots[j].2 == 0 {
                                j += 1;
                            }
                            if j == i {
                                s.push_str(&format!(" {c}!{k}:{v}"));
                                i += 1;
                            } else {
                                s.push_str(&format!(" {c}*{}", j - i));
                                i = j;
                            }
                        }
                    }
                }
                s
            }
            Err(e) => err_line(&e),
        },
        "hs" if rest.len() == 1 => {
            let s = hex_decode(rest[0])?;
            format!("ok {}", agdb::verif::coll::stable_hash_str(&s))
        }
        "hi" if rest.len() == 1 => {
            let v = rest[0].parse::<i64>().ok()?;
            format!("ok {}", agdb::verif::coll::stable_hash_i64(v))
        }
        _ => return None,
    })
}

pub fn exec_line(state: &mut State, line: &str) -> String {
    let toks: Vec<&str> = line.split(' ').collect();
    if toks.is_empty() {
        return "bad-op".to_string();
    }
    if toks[0] == "case" {
        *state = State::new();
        return line.to_string();
    }
    let res = std::panic::catch_unwind(AssertUnwindSafe(|| match toks[0] {
        "db" => exec_db(&mut state.db, &toks[1..]),
        #[cfg(coll_hook)]
        "mm" => exec_mm(&mut state.mm, &toks[1..]),
        #[cfg(not(coll_hook))]
        "mm" => Some("nohook".to_string()),
        _ => None,
    }));
    match res {
        Ok(Some(s)) => s,
        Ok(None) => "bad-op".to_string(),
        Err(_) => {
            let site = crate::LAST_PANIC
                .lock()
                .map(|g| g.clone())
                .unwrap_or_default();
            format!("panic:{site}")
        }
    }
}

pub fn run_worker() {
    let stdin = std::io::stdin();
    let stdout = std::io::stdout();
    let mut state = State::new();
    for line in stdin.lock().lines() {
        let Ok(line) = line else { break };
        let out = exec_line(&mut state, line.trim_end());
        let mut lock = stdout.lock();
        let _ = writeln!(lock, "{out}");
        let _ = lock.flush();
    }
}
