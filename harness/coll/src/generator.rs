//! Seeded generators. Every random choice derives from `--seed` through one splitmix64 stream.
//! Ops are generated with feedback from the implementation's answers (ids of created elements);
//! the reference state kept by the oracle tells the generator which ids / aliases are live.

use crate::Output;
use crate::finish_case;
use crate::oracle::Oracle;
use crate::runner::Runner;
use crate::step;
use crate::worker::hex_encode;

pub struct Rng(u64);

impl Rng {
    pub fn new(seed: u64) -> Self {
        Rng(seed ^ 0x9e3779b97f4a7c15)
    }
    pub fn next(&mut self) -> u64 {
        self.0 = self.0.wrapping_add(0x9e3779b97f4a7c15);
        let mut z = self.0;
        z = (z ^ (z >> 30)).wrapping_mul(0xbf58476d1ce4e5b9);
        z = (z ^ (z >> 27)).wrapping_mul(0x94d049bb133111eb);
        z ^ (z >> 31)
    }
    pub fn below(&mut self, n: u64) -> u64 {
        if n == 0 { 0 } else { self.next() % n }
    }
    pub fn chance(&mut self, pct: u64) -> bool {
        self.below(100) < pct
    }
    pub fn pick<'a, T>(&mut self, v: &'a [T]) -> Option<&'a T> {
        if v.is_empty() {
            None
        } else {
            Some(&v[self.below(v.len() as u64) as usize])
        }
    }
}

struct Ctx<'a> {
    prop: &'a str,
    run: &'a mut Runner,
    out: &'a mut Output,
    case_no: &'a mut u64,
    orc: Oracle,
    case_start: usize,
}

impl Ctx<'_> {
    fn begin(&mut self) {
        self.orc = Oracle::new(self.prop);
        let line = format!("case {}", *self.case_no);
        *self.case_no += 1;
        self.case_start = self.out.ops.len();
        let o = self.run.exec(&line);
        self.out.ops.push(line);
        self.out.impl_out.push(o);
    }
    fn op(&mut self, line: &str) -> String {
        step(line, self.run, self.out, &mut self.orc, *self.case_no - 1)
    }
    fn end(&mut self) {
        finish_case(self.out, self.case_start, &self.orc);
    }
    fn dead(&self) -> bool {
        self.run.is_dead()
    }
}

const POOL: [&str; 8] = [
    "a",
    "b",
    "c",
    "d",
    "node",
    "é",
    "alias with spaces",
    "a-rather-long-alias-name-that-exceeds-fifteen-bytes",
];

fn pool_alias(rng: &mut Rng) -> String {
    hex_encode(POOL[rng.below(POOL.len() as u64) as usize])
}

fn live_nodes(o: &Oracle) -> Vec<i64> {
    o.nodes.iter().copied().collect()
}

fn live_edges(o: &Oracle) -> Vec<i64> {
    o.edges.keys().copied().collect()
}

/// id token biased to live nodes; sometimes an edge, a dead / never existing id, zero, or an alias
fn id_token(rng: &mut Rng, o: &Oracle, edge_pct: u64, bad_pct: u64, alias_pct: u64) -> String {
    let r = rng.below(100);
    let nodes = live_nodes(o);
    let edges = live_edges(o);
    if r < edge_pct {
        if let Some(e) = rng.pick(&edges) {
            return format!("i{e}");
        }
    } else if r < edge_pct + bad_pct {
        let dead: Vec<i64> = o.removed_ids.iter().copied().collect();
        return match rng.below(4) {
            0 => "i0".to_string(),
            1 => format!("i{}", 40 + rng.below(5)),
            2 => format!("i-{}", 40 + rng.below(5)),
            _ => match rng.pick(&dead) {
                Some(d) => format!("i{}", if rng.chance(50) { *d } else { -*d }),
                None => "i0".to_string(),
            },
        };
    } else if r < edge_pct + bad_pct + alias_pct {
        let held: Vec<String> = o.a2i.keys().cloned().collect();
        return match rng.pick(&held) {
            Some(a) if rng.chance(85) => format!("a{a}"),
            _ => format!("a{}", pool_alias(rng)),
        };
    }
    match rng.pick(&nodes) {
        Some(n) => format!("i{n}"),
        None => "i1".to_string(),
    }
}

fn c10_case(cx: &mut Ctx, rng: &mut Rng, max_ops: usize) {
    cx.begin();
    // start with a few nodes and edges so that edge ids exist early
    let n0 = 2 + rng.below(3);
    let mut first = format!("db nn {n0}");
    if rng.chance(60) {
        first.push_str(&format!(" {}", pool_alias(rng)));
    }
    cx.op(&first);
    cx.op("db saa");
    let mut n = 2;
    while n < max_ops && !cx.dead() {
        let r = rng.below(100);
        let line = if r < 8 {
            // new nodes, some with aliases (fresh, held by another node, or empty)
            let count = rng.below(3);
            let mut l = format!("db nn {count}");
            let na = rng.below(3);
            for _ in 0..na {
                if rng.chance(14) {
                    l.push_str(" -");
                } else {
                    l.push_str(&format!(" {}", pool_alias(rng)));
                }
            }
            if count == 0 && na == 0 {
                l = "db nn 1".to_string();
            }
            l
        } else if r < 18 {
            let nodes = live_nodes(&cx.orc);
            match (rng.pick(&nodes).copied(), rng.pick(&nodes).copied()) {
                (Some(a), Some(b)) => format!("db ne i{a} i{b}"),
                _ => "db nn 1".to_string(),
            }
        } else if r < 48 {
            // single alias insert: re-aliasing, stealing, edge ids, empty alias, dead ids, alias-as-id
            let id = id_token(rng, &cx.orc, 22, 8, 10);
            let alias = if rng.chance(15) { "-".to_string() } else { pool_alias(rng) };
            format!("db ia 1 {id} {alias}")
        } else if r < 58 {
            // several pairs in one query. A pair that fails at run time (unknown id) after an earlier
            // pair took an alias from another node would depend on how rollback restores the victim
            // (property C13, not C10): such queries use aliases nobody holds for the earlier pairs.
            let k = 2 + rng.below(2) as usize;
            let mut ids = vec![];
            let mut als = vec![];
            let fail_late = rng.chance(25);
            for j in 0..k {
                let last = j + 1 == k;
                if fail_late && last {
                    ids.push(match rng.below(3) {
                        0 => "i0".to_string(),
                        1 => format!("i{}", 60 + rng.below(3)),
                        _ => format!("a{}", hex_encode("nobody")),
                    });
                    als.push(pool_alias(rng));
                } else if fail_late {
                    ids.push(id_token(rng, &cx.orc, 0, 0, 0));
                    als.push(hex_encode(&format!("fresh{}-{}", n, j)));
                } else {
                    // literal ids of live elements only: they resolve whatever the earlier pairs did
                    ids.push(id_token(rng, &cx.orc, 15, 0, 0));
                    als.push(if rng.chance(12) { "-".to_string() } else { pool_alias(rng) });
                }
            }
            if rng.chance(5) {
                als.pop();
            }
            format!("db ia {} {} {}", ids.len(), ids.join(" "), als.join(" "))
                .trim_end()
                .to_string()
        } else if r < 61 {
            // the validation must happen before the first change: earlier pairs take aliases that
            // other nodes hold (or re-alias), a LATER pair is an empty alias or a literal edge id
            let held: Vec<String> = cx.orc.a2i.keys().cloned().collect();
            let edges = live_edges(&cx.orc);
            let k = 2 + rng.below(2) as usize;
            let mut ids = vec![];
            let mut als = vec![];
            for j in 0..k {
                if j + 1 == k {
                    match rng.pick(&edges) {
                        Some(e) if rng.chance(50) => {
                            ids.push(format!("i{e}"));
                            als.push(pool_alias(rng));
                        }
                        _ => {
                            ids.push(id_token(rng, &cx.orc, 0, 0, 0));
                            als.push("-".to_string());
                        }
                    }
                } else {
                    ids.push(id_token(rng, &cx.orc, 0, 0, 0));
                    als.push(match rng.pick(&held) {
                        Some(a) if rng.chance(70) => a.clone(),
                        _ => pool_alias(rng),
                    });
                }
            }
            format!("db ia {} {} {}", ids.len(), ids.join(" "), als.join(" "))
        } else if r < 66 {
            let id = id_token(rng, &cx.orc, 20, 5, 10);
            let alias = if rng.chance(15) { "-".to_string() } else { pool_alias(rng) };
            format!("db na {id} {alias}")
        } else if r < 75 {
            let mut l = "db ra".to_string();
            for _ in 0..(1 + rng.below(2)) {
                l.push_str(&format!(" {}", pool_alias(rng)));
            }
            l
        } else if r < 88 {
            // removal of nodes (by id or alias) and edges
            let mut l = "db rm".to_string();
            for _ in 0..(1 + rng.below(2)) {
                l.push_str(&format!(" {}", id_token(rng, &cx.orc, 20, 5, 25)));
            }
            l
        } else if r < 93 {
            // insert values creates a node when the id is 0 or an unknown alias
            let id = match rng.below(4) {
                0 => "i0".to_string(),
                1 => "a-".to_string(),
                _ => format!("a{}", pool_alias(rng)),
            };
            format!("db sv {id} {} {}", rng.below(3), rng.below(5))
        } else if r < 97 {
            let mut l = "db sa".to_string();
            for _ in 0..(1 + rng.below(2)) {
                l.push_str(&format!(" {}", id_token(rng, &cx.orc, 5, 5, 30)));
            }
            l
        } else {
            format!("db rs a{}", pool_alias(rng))
        };
        let mutating = !line.starts_with("db sa") && !line.starts_with("db rs");
        cx.op(&line);
        n += 1;
        if mutating && !cx.dead() {
            cx.op("db saa");
            n += 1;
            if rng.chance(35) {
                // resolve every pool alias one by one (removed aliases must be unresolvable)
                let a = pool_alias(rng);
                cx.op(&format!("db rs a{a}"));
                n += 1;
            }
            if rng.chance(25) {
                let nodes = live_nodes(&cx.orc);
                if let Some(i) = rng.pick(&nodes) {
                    cx.op(&format!("db sa i{i}"));
                    n += 1;
                }
            }
        }
    }
    cx.end();
}

fn c19_db_case(cx: &mut Ctx, rng: &mut Rng, max_ops: usize) {
    cx.begin();
    let shape = rng.below(5);
    let mut n = 0usize;
    let mut fresh = 0u64;
    cx.op(&format!("db nn {}", 2 + rng.below(3)));
    let mut next_alias = |fresh: &mut u64| {
        *fresh += 1;
        hex_encode(&format!("k{}", *fresh))
    };
    match shape {
        // insert + remove cycles of distinct aliases on few nodes (the pinned defect: 65th insert)
        0 => {
            while n < max_ops && !cx.dead() {
                let nodes = live_nodes(&cx.orc);
                let id = rng.pick(&nodes).copied().unwrap_or(1);
                let a = next_alias(&mut fresh);
                cx.op(&format!("db ia 1 i{id} {a}"));
                cx.op(&format!("db ra {a}"));
                n += 2;
                if rng.chance(3) {
                    cx.op("db saa");
                    n += 1;
                }
            }
        }
        // re-aliasing the same nodes with ever new aliases (old alias dropped => tombstones in both maps)
        1 => {
            while n < max_ops && !cx.dead() {
                let nodes = live_nodes(&cx.orc);
                let id = rng.pick(&nodes).copied().unwrap_or(1);
                let a = next_alias(&mut fresh);
                cx.op(&format!("db ia 1 i{id} {a}"));
                n += 1;
                if rng.chance(10) {
                    cx.op(&format!("db rs a{a}"));
                    n += 1;
                }
            }
        }
        // nodes created with an alias and removed again (ids are reused, aliases are not)
        2 => {
            while n < max_ops && !cx.dead() {
                let a = next_alias(&mut fresh);
                cx.op(&format!("db nn 0 {a}"));
                if rng.chance(50) {
                    cx.op(&format!("db rm a{a}"));
                } else {
                    let nodes = live_nodes(&cx.orc);
                    let id = nodes.last().copied().unwrap_or(1);
                    cx.op(&format!("db rm i{id}"));
                }
                n += 2;
                if rng.chance(5) {
                    cx.op(&format!("db rs a{a}"));
                    n += 1;
                }
            }
        }
        // indexed value churn: every change of an indexed value removes one (value,id) pair and adds another
        3 => {
            cx.op("db ix 1");
            cx.op(&format!("db nn {}", 3 + rng.below(6)));
            let mut val = 0i64;
            while n < max_ops && !cx.dead() {
                let nodes = live_nodes(&cx.orc);
                let id = rng.pick(&nodes).copied().unwrap_or(1);
                val += 1;
                let r = rng.below(100);
                if r < 75 {
                    cx.op(&format!("db sv i{id} 1 {val}"));
                } else if r < 85 {
                    cx.op(&format!("db rv i{id} 1"));
                } else if r < 97 {
                    cx.op(&format!("db qx 1 {}", val - rng.below(4) as i64));
                } else if r < 99 {
                    cx.op("db rx 1");
                    cx.op("db ix 1");
                    n += 1;
                } else {
                    cx.op(&format!("db rm i{id}"));
                    cx.op("db nn 1");
                    n += 1;
                }
                n += 1;
            }
        }
        // mixture with growing and shrinking alias maps (rehash up and down around the churn)
        _ => {
            let mut held: Vec<String> = vec![];
            let mut target = 20 + rng.below(150) as usize;
            let mut growing = true;
            while n < max_ops && !cx.dead() {
                if growing {
                    let a = next_alias(&mut fresh);
                    cx.op(&format!("db nn 0 {a}"));
                    held.push(a);
                    if held.len() >= target {
                        growing = false;
                        target = rng.below(10) as usize;
                    }
                } else {
                    let i = rng.below(held.len() as u64) as usize;
                    let a = held.swap_remove(i);
                    if rng.chance(50) {
                        cx.op(&format!("db ra {a}"));
                    } else {
                        cx.op(&format!("db rm a{a}"));
                    }
                    if held.len() <= target {
                        growing = true;
                        target = 20 + rng.below(150) as usize;
                    }
                }
                n += 1;
                if rng.chance(4) {
                    if let Some(a) = rng.pick(&held) {
                        cx.op(&format!("db rs a{a}"));
                        n += 1;
                    }
                }
            }
            cx.op("db saa");
        }
    }
    cx.end();
}

/// representation-level stream over MultiMapStorage<u64,u64> (needs hook H2-coll)
fn c19_mm_case(cx: &mut Ctx, rng: &mut Rng, max_ops: usize) {
    cx.begin();
    let shape = rng.below(6);
    let mut n = 0usize;
    let universe: u64 = match rng.below(3) {
        0 => 24,
        1 => 100,
        _ => 400,
    };
    // keys collide on purpose: hash(u64) = the value itself, position = key % capacity
    let key = |rng: &mut Rng| -> u64 {
        let base = rng.below(universe);
        if rng.chance(30) { base + 64 * rng.below(6) } else { base }
    };
    let mut dump_every = 1 + rng.below(3);
    if max_ops > 1000 {
        dump_every = 7;
    }
    let mut mutate = |cx: &mut Ctx, n: &mut usize, line: String| {
        cx.op(&line);
        *n += 1;
        if (*n as u64) % dump_every == 0 {
            cx.op("mm dump");
            *n += 1;
        }
    };
    if rng.chance(20) {
        let c = [1u64, 64, 65, 100, 128, 256][rng.below(6) as usize];
        mutate(cx, &mut n, format!("mm res {c}"));
    }
    match shape {
        // distinct keys inserted through insert_or_replace and removed again (tombstone build-up)
        0 => {
            let mut k = rng.below(1000);
            while n < max_ops && !cx.dead() {
                k += 1 + rng.below(3);
                mutate(cx, &mut n, format!("mm ior {k} {} any", rng.below(50)));
                if rng.chance(50) {
                    mutate(cx, &mut n, format!("mm rk {k}"));
                } else {
                    let v = cx.out.impl_out.last().cloned().unwrap_or_default();
                    let _ = v;
                    mutate(cx, &mut n, format!("mm rv {k} {}", rng.below(50)));
                    mutate(cx, &mut n, format!("mm rk {k}"));
                }
                if rng.chance(10) {
                    cx.op(&format!("mm val {}", key(rng)));
                    n += 1;
                }
            }
        }
        // fill to the load limit, delete from the occupied area, refill the tail: no Empty slot left
        1 => {
            let cap = [64u64, 128, 256][rng.below(3) as usize];
            mutate(cx, &mut n, format!("mm res {cap}"));
            let maxl = cap * 15 / 16;
            for i in 0..maxl {
                mutate(cx, &mut n, format!("mm ins {i} {i}"));
            }
            let holes = cap - maxl + rng.below(8);
            for i in 0..holes {
                mutate(cx, &mut n, format!("mm rv {i} {i}"));
            }
            for i in maxl..cap {
                mutate(cx, &mut n, format!("mm ins {i} {i}"));
            }
            cx.op("mm dump");
            while n < max_ops && !cx.dead() {
                let r = rng.below(100);
                let k = 10_000 + rng.below(300);
                if r < 30 {
                    mutate(cx, &mut n, format!("mm ior {k} {} any", rng.below(9)));
                } else if r < 45 {
                    mutate(cx, &mut n, format!("mm ior {} {} eq{}", rng.below(cap), rng.below(9), rng.below(cap)));
                } else if r < 55 {
                    mutate(cx, &mut n, format!("mm rk {}", rng.below(cap)));
                } else if r < 65 {
                    mutate(cx, &mut n, format!("mm rk {k}"));
                } else if r < 75 {
                    mutate(cx, &mut n, format!("mm rv {k} {}", rng.below(9)));
                } else {
                    let q = ["val", "vals", "has", "cnt"][rng.below(4) as usize];
                    cx.op(&format!("mm {q} {}", if rng.chance(50) { k } else { rng.below(cap) }));
                    n += 1;
                }
            }
        }
        // grow far beyond the minimum and shrink back (rehash in both directions)
        2 => {
            let top = 80 + rng.below(500);
            for i in 0..top {
                if n >= max_ops || cx.dead() {
                    break;
                }
                let k = key(rng) + i;
                if rng.chance(50) {
                    mutate(cx, &mut n, format!("mm ins {k} {}", rng.below(4)));
                } else {
                    mutate(cx, &mut n, format!("mm ior {k} {} any", rng.below(4)));
                }
            }
            let pairs: Vec<String> = cx
                .out
                .impl_out
                .iter()
                .rev()
                .find(|l| l.starts_with("ok len="))
                .map(|l| {
                    l.split(' ')
                        .filter(|t| t.starts_with('V'))
                        .map(|t| t[1..].to_string())
                        .collect()
                })
                .unwrap_or_default();
            cx.op("mm iter");
            let all: Vec<(u64, u64)> = cx
                .out
                .impl_out
                .last()
                .map(|l| {
                    l.split(' ')
                        .skip(1)
                        .filter_map(|p| {
                            let (k, v) = p.split_once(':')?;
                            Some((k.parse().ok()?, v.parse().ok()?))
                        })
                        .collect()
                })
                .unwrap_or_default();
            let _ = pairs;
            for (k, v) in all {
                if n >= max_ops || cx.dead() {
                    break;
                }
                if rng.chance(50) {
                    mutate(cx, &mut n, format!("mm rv {k} {v}"));
                } else {
                    mutate(cx, &mut n, format!("mm rk {k}"));
                }
            }
            cx.op("mm dump");
        }
        // multi-values per key
        3 => {
            while n < max_ops && !cx.dead() {
                let k = key(rng) % 12;
                let r = rng.below(100);
                if r < 45 {
                    mutate(cx, &mut n, format!("mm ins {k} {}", rng.below(6)));
                } else if r < 60 {
                    mutate(cx, &mut n, format!("mm rv {k} {}", rng.below(6)));
                } else if r < 68 {
                    mutate(cx, &mut n, format!("mm rk {k}"));
                } else if r < 80 {
                    mutate(cx, &mut n, format!("mm ior {k} {} eq{}", rng.below(6), rng.below(6)));
                } else {
                    let q = ["vals", "cnt", "val", "has"][rng.below(4) as usize];
                    cx.op(&format!("mm {q} {k}"));
                    n += 1;
                    if rng.chance(30) {
                        cx.op(&format!("mm hasv {k} {}", rng.below(6)));
                        n += 1;
                    }
                }
            }
        }
        // uniform mixture
        _ => {
            while n < max_ops && !cx.dead() {
                let k = key(rng);
                let r = rng.below(100);
                if r < 22 {
                    mutate(cx, &mut n, format!("mm ins {k} {}", rng.below(5)));
                } else if r < 44 {
                    mutate(cx, &mut n, format!("mm ior {k} {} any", rng.below(5)));
                } else if r < 50 {
                    mutate(cx, &mut n, format!("mm ior {k} {} eq{}", rng.below(5), rng.below(5)));
                } else if r < 66 {
                    mutate(cx, &mut n, format!("mm rk {k}"));
                } else if r < 80 {
                    mutate(cx, &mut n, format!("mm rv {k} {}", rng.below(5)));
                } else if r < 82 {
                    mutate(cx, &mut n, format!("mm res {}", rng.below(300)));
                } else if r < 84 {
                    cx.op("mm iter");
                    n += 1;
                } else {
                    let q = ["val", "vals", "has", "cnt"][rng.below(4) as usize];
                    cx.op(&format!("mm {q} {k}"));
                    n += 1;
                    if rng.chance(20) {
                        cx.op(&format!("mm hasv {k} {}", rng.below(5)));
                        n += 1;
                    }
                }
            }
        }
    }
    if !cx.dead() {
        cx.op("mm dump");
    }
    cx.end();
}

fn hash_case(cx: &mut Ctx, rng: &mut Rng, count: usize) {
    cx.begin();
    for s in ["", "a", "abcdefg", "abcdefgh", "abcdefghi", "Hello, World!", "é", "0123456789abcdef"] {
        cx.op(&format!("mm hs {}", hex_encode(s)));
    }
    for v in [0i64, 1, -1, i64::MAX, i64::MIN, 64, -64] {
        cx.op(&format!("mm hi {v}"));
    }
    for _ in 0..count {
        let len = rng.below(40) as usize;
        let s: String = (0..len)
            .map(|_| {
                let c = rng.below(64);
                if c < 60 {
                    (b' ' + (c as u8 + rng.below(30) as u8) % 95) as char
                } else {
                    ['é', 'ß', '漢', '🙂'][(c - 60) as usize]
                }
            })
            .collect();
        cx.op(&format!("mm hs {}", hex_encode(&s)));
        let v = rng.next() as i64;
        cx.op(&format!("mm hi {v}"));
    }
    cx.end();
}

pub fn generate(
    prop: &str,
    seed: u64,
    thorough: bool,
    run: &mut Runner,
    out: &mut Output,
    case_no: &mut u64,
) -> String {
    let mut rng = Rng::new(seed);
    let mut cx = Ctx {
        prop,
        run,
        out,
        case_no,
        orc: Oracle::new(prop),
        case_start: 0,
    };
    if prop == "C10" {
        let (cases, max_ops) = if thorough { (10_000, 300) } else { (300, 60) };
        for _ in 0..cases {
            let m = max_ops / 2 + rng.below(max_ops as u64 / 2 + 1) as usize;
            c10_case(&mut cx, &mut rng, m);
        }
        "non-trivial case = at least one alias was bound and at least one of: re-aliasing a node, taking an alias from its holder, removing an aliased node, an edge-id attempt, an empty-alias attempt; distinct = distinct op sequences (FNV-1a of the case's op lines)".to_string()
    } else {
        let (db_cases, db_ops, mm_cases, mm_ops) = if thorough {
            (1_500, 1_500, 2_500, 2_000)
        } else {
            (100, 400, 120, 400)
        };
        for _ in 0..db_cases {
            let m = db_ops / 2 + rng.below(db_ops as u64 / 2 + 1) as usize;
            c19_db_case(&mut cx, &mut rng, m);
        }
        if crate::HOOK {
            hash_case(&mut cx, &mut rng, if thorough { 2000 } else { 200 });
            for _ in 0..mm_cases {
                let m = mm_ops / 2 + rng.below(mm_ops as u64 / 2 + 1) as usize;
                c19_mm_case(&mut cx, &mut rng, m);
            }
        }
        "non-trivial case = at least 64 removals / replacements of hashed keys (aliases, indexed values, multimap pairs) or a table without Empty slot, or a rehash (grow / shrink) was observed; distinct = distinct op sequences (FNV-1a of the case's op lines)".to_string()
    }
}
