//! harness_coll: drives the real agdb code for properties C10 (aliases) and C19 (termination of the
//! hashed collections). See /verif/tools/INTERFACE.md for the binary contract.
//!
//!   harness_coll gen    --prop <ID> --seed <u64> --tier quick|thorough --out <dir> [--corpus <dir>]
//!   harness_coll replay --prop <ID> --ops <file> --out <dir>
//!   harness_coll worker            (internal: op lines on stdin, one output line per op on stdout)

mod generator;
mod oracle;
mod runner;
mod worker;

use std::collections::BTreeMap;
use std::collections::HashSet;
use std::io::Write;
use std::sync::Mutex;

pub static LAST_PANIC: Mutex<String> = Mutex::new(String::new());

pub const HOOK: bool = cfg!(coll_hook);

fn arg(args: &[String], name: &str) -> Option<String> {
    args.iter()
        .position(|a| a == name)
        .and_then(|i| args.get(i + 1).cloned())
}

pub fn json_str(s: &str) -> String {
    let mut o = String::from("\"");
    for c in s.chars() {
        match c {
            '"' => o.push_str("\\\""),
            '\\' => o.push_str("\\\\"),
            '\n' => o.push_str("\\n"),
            c if (c as u32) < 0x20 => o.push_str(&format!("\\u{:04x}", c as u32)),
            c => o.push(c),
        }
    }
    o.push('"');
    o
}

pub struct Output {
    pub ops: Vec<String>,
    pub impl_out: Vec<String>,
    pub violations: Vec<String>,
    pub histogram: BTreeMap<String, u64>,
    pub evaluations: u64,
    pub distinct: HashSet<u64>,
    pub nontrivial_cases: u64,
    pub samples: Vec<Vec<String>>,
}

impl Output {
    fn new() -> Self {
        Output {
            ops: vec![],
            impl_out: vec![],
            violations: vec![],
            histogram: BTreeMap::new(),
            evaluations: 0,
            distinct: HashSet::new(),
            nontrivial_cases: 0,
            samples: vec![],
        }
    }

    pub fn bump(&mut self, key: &str) {
        *self.histogram.entry(key.to_string()).or_insert(0) += 1;
    }

    pub fn bump_by(&mut self, key: &str, n: u64) {
        *self.histogram.entry(key.to_string()).or_insert(0) += n;
    }

    pub fn max(&mut self, key: &str, n: u64) {
        let e = self.histogram.entry(key.to_string()).or_insert(0);
        if n > *e {
            *e = n;
        }
    }
}

fn fnv(lines: &[String]) -> u64 {
    let mut h: u64 = 0xcbf29ce484222325;
    for l in lines {
        for b in l.as_bytes() {
            h ^= *b as u64;
            h = h.wrapping_mul(0x100000001b3);
        }
        h ^= 0xff;
        h = h.wrapping_mul(0x100000001b3);
    }
    h
}

fn write_all(dir: &str, prop: &str, out: &Output, rule: &str, notes: &[String]) {
    std::fs::create_dir_all(dir).expect("create out dir");
    let join = |v: &Vec<String>| {
        let mut s = String::new();
        for l in v {
            s.push_str(l);
            s.push('\n');
        }
        s
    };
    std::fs::write(format!("{dir}/ops.txt"), join(&out.ops)).expect("ops.txt");
    std::fs::write(format!("{dir}/impl.txt"), join(&out.impl_out)).expect("impl.txt");
    std::fs::write(format!("{dir}/oracle.jsonl"), join(&out.violations)).expect("oracle.jsonl");
    let mut st = String::from("{");
    st.push_str(&format!("\"property\":{},", json_str(prop)));
    st.push_str(&format!("\"evaluations\":{},", out.evaluations));
    st.push_str(&format!("\"distinct_nontrivial\":{},", out.distinct.len()));
    st.push_str(&format!("\"rule\":{},", json_str(rule)));
    st.push_str(&format!("\"hook_present\":{},", HOOK));
    st.push_str("\"notes\":[");
    st.push_str(
        &notes
            .iter()
            .map(|n| json_str(n))
            .collect::<Vec<_>>()
            .join(","),
    );
    st.push_str("],\"samples\":[");
    st.push_str(
        &out.samples
            .iter()
            .take(5)
            .map(|c| {
                format!(
                    "[{}]",
                    c.iter().map(|l| json_str(l)).collect::<Vec<_>>().join(",")
                )
            })
            .collect::<Vec<_>>()
            .join(","),
    );
    st.push_str("],\"histogram\":{");
    st.push_str(
        &out.histogram
            .iter()
            .map(|(k, v)| format!("{}:{}", json_str(k), v))
            .collect::<Vec<_>>()
            .join(","),
    );
    st.push_str("}}\n");
    std::fs::write(format!("{dir}/stats.json"), st).expect("stats.json");
}

fn main() {
    std::panic::set_hook(Box::new(|info| {
        let site = info
            .location()
            .map(|l| {
                let f = l.file();
                let f = f.rsplit("agdb/src/").next().unwrap_or(f);
                f.to_string()
            })
            .unwrap_or_else(|| "unknown".to_string());
        if let Ok(mut g) = LAST_PANIC.lock() {
            *g = site;
        }
    }));

    let args: Vec<String> = std::env::args().collect();
    let mode = args.get(1).cloned().unwrap_or_default();
    if mode == "worker" {
        worker::run_worker();
        return;
    }
    let prop = arg(&args, "--prop").unwrap_or_default();
    let outdir = arg(&args, "--out").unwrap_or_else(|| ".".to_string());
    if prop != "C10" && prop != "C19" {
        eprintln!("unknown property {prop}");
        std::process::exit(2);
    }
    let mut out = Output::new();
    let mut notes: Vec<String> = vec![];
    if !HOOK {
        notes.push("representation stream (mm) skipped: hook H2-coll (`pub mod coll` in agdb/src/verif.rs under --cfg agdb_verif) not present in the tree the harness was built against".to_string());
    }
    let rule;
    match mode.as_str() {
        "gen" => {
            let seed = arg(&args, "--seed")
                .and_then(|s| s.parse::<u64>().ok())
                .unwrap_or(1);
            let tier = arg(&args, "--tier").unwrap_or_else(|| "quick".to_string());
            let thorough = tier == "thorough";
            let timeout_ms = if thorough { 10_000 } else { 3_000 };
            let mut run = runner::Runner::new(timeout_ms);
            let mut case_no = 0u64;
            // corpus first
            if let Some(dir) = arg(&args, "--corpus") {
                let mut files: Vec<_> = std::fs::read_dir(&dir)
                    .map(|rd| {
                        rd.filter_map(|e| e.ok())
                            .map(|e| e.path())
                            .filter(|p| p.extension().map(|x| x == "ops").unwrap_or(false))
                            .collect()
                    })
                    .unwrap_or_default();
                files.sort();
                for f in files {
                    if let Ok(text) = std::fs::read_to_string(&f) {
                        let lines: Vec<String> = text.lines().map(|l| l.to_string()).collect();
                        run_lines(&prop, &lines, &mut run, &mut out, &mut case_no, true);
                        out.bump("corpus_files");
                    }
                }
            }
            rule = generator::generate(&prop, seed, thorough, &mut run, &mut out, &mut case_no);
            run.shutdown();
        }
        "replay" => {
            let opsf = arg(&args, "--ops").expect("--ops");
            let text = std::fs::read_to_string(&opsf).expect("read ops");
            let lines: Vec<String> = text.lines().map(|l| l.to_string()).collect();
            let mut run = runner::Runner::new(3_000);
            let mut case_no = 0u64;
            run_lines(&prop, &lines, &mut run, &mut out, &mut case_no, false);
            run.shutdown();
            rule = "replay of a given op file".to_string();
        }
        _ => {
            eprintln!("usage: harness_coll gen|replay|worker ...");
            std::process::exit(2);
        }
    }
    write_all(&outdir, &prop, &out, &rule, &notes);
    let _ = std::io::stdout().flush();
}

/// Runs fixed op lines (corpus / replay): `case` lines in the input are renumbered when
/// `renumber` is set (corpus files concatenated before generated cases).
pub fn run_lines(
    prop: &str,
    lines: &[String],
    run: &mut runner::Runner,
    out: &mut Output,
    case_no: &mut u64,
    renumber: bool,
) {
    let mut orc = oracle::Oracle::new(prop);
    let mut started = false;
    let mut case_start = out.ops.len();
    for l in lines {
        let l = l.trim_end();
        if l.is_empty() {
            continue;
        }
        if !HOOK && l.starts_with("mm ") {
            // representation stream needs hook H2-coll
            continue;
        }
        let is_case = l.starts_with("case ");
        if is_case || !started {
            if started {
                finish_case(out, case_start, &orc);
            }
            orc = oracle::Oracle::new(prop);
            let line = if is_case && !renumber {
                l.to_string()
            } else {
                format!("case {}", *case_no)
            };
            *case_no += 1;
            case_start = out.ops.len();
            let o = run.exec(&line);
            out.ops.push(line);
            out.impl_out.push(o);
            started = true;
            if is_case {
                continue;
            }
        }
        step(l, run, out, &mut orc, *case_no - 1);
    }
    if started {
        finish_case(out, case_start, &orc);
    }
}

/// Executes one op on the implementation, records it and evaluates the oracle on the output.
pub fn step(
    line: &str,
    run: &mut runner::Runner,
    out: &mut Output,
    orc: &mut oracle::Oracle,
    case_no: u64,
) -> String {
    let o = run.exec(line);
    let idx = out.ops.len();
    out.ops.push(line.to_string());
    out.impl_out.push(o.clone());
    out.evaluations += 1;
    let toks: Vec<&str> = line.split(' ').collect();
    if toks.len() >= 2 {
        out.bump(&format!("op:{} {}", toks[0], toks[1]));
    }
    if let Some(kind) = o.split(' ').next() {
        if kind != "ok" {
            out.bump(&format!("out:{kind}"));
        }
    }
    for v in orc.observe(line, &o) {
        out.violations.push(format!(
            "{{\"case\":{},\"line\":{},\"key\":{},\"rule\":{},\"expected\":{},\"observed\":{},\"op\":{}}}",
            case_no,
            idx,
            json_str(&v.key),
            json_str(&v.rule),
            json_str(&v.expected),
            json_str(&v.observed),
            json_str(line)
        ));
        out.bump(&format!("violation:{}", v.key));
    }
    o
}

pub fn finish_case(out: &mut Output, case_start: usize, orc: &oracle::Oracle) {
    let lines = &out.ops[case_start + 1..];
    if orc.nontrivial() {
        let h = fnv(lines);
        out.distinct.insert(h);
        out.nontrivial_cases += 1;
        if out.samples.len() < 5 {
            out.samples
                .push(lines.iter().take(14).cloned().collect::<Vec<_>>());
        }
    }
    for (k, v) in orc.counters() {
        out.bump_by(&k, v);
    }
    for (k, v) in orc.maxima() {
        out.max(&k, v);
    }
}
