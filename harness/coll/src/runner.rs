//! Watchdog: op lines are executed by a child process (`harness_coll worker`). The parent waits
//! for each answer with a time bound; a call that does not return in time is reported as
//! `timeout`, the child is killed, the remaining ops of the case answer `dead`, and a fresh child
//! is started at the next `case` line.

use std::io::BufRead;
use std::io::BufReader;
use std::io::Write;
use std::process::Child;
use std::process::ChildStdin;
use std::process::Command;
use std::process::Stdio;
use std::sync::mpsc::Receiver;
use std::sync::mpsc::RecvTimeoutError;
use std::sync::mpsc::channel;
use std::time::Duration;

struct Proc {
    child: Child,
    stdin: ChildStdin,
    rx: Receiver<String>,
}

pub struct Runner {
    proc: Option<Proc>,
    dead: bool,
    timeout: Duration,
    pub timeouts: u64,
}

impl Runner {
    pub fn new(timeout_ms: u64) -> Self {
        Runner {
            proc: None,
            dead: false,
            timeout: Duration::from_millis(timeout_ms),
            timeouts: 0,
        }
    }

    fn spawn() -> Proc {
        let exe = std::env::current_exe().expect("current_exe");
        let mut child = Command::new(exe)
            .arg("worker")
            .stdin(Stdio::piped())
            .stdout(Stdio::piped())
            .stderr(Stdio::null())
            .spawn()
            .expect("spawn worker");
        let stdin = child.stdin.take().expect("stdin");
        let stdout = child.stdout.take().expect("stdout");
        let (tx, rx) = channel();
        std::thread::spawn(move || {
            let reader = BufReader::new(stdout);
            for line in reader.lines() {
                match line {
                    Ok(l) => {
                        if tx.send(l).is_err() {
                            break;
                        }
                    }
                    Err(_) => break,
                }
            }
        });
        Proc { child, stdin, rx }
    }

    fn kill(&mut self) {
        if let Some(mut p) = self.proc.take() {
            let _ = p.child.kill();
            let _ = p.child.wait();
        }
    }

    pub fn is_dead(&self) -> bool {
        self.dead
    }

    pub fn exec(&mut self, line: &str) -> String {
        let is_case = line.starts_with("case ");
        if is_case {
            self.dead = false;
        }
        if self.dead {
            return "dead".to_string();
        }
        if self.proc.is_none() {
            self.proc = Some(Self::spawn());
        }
        let p = self.proc.as_mut().expect("proc");
        if writeln!(p.stdin, "{line}").is_err() || p.stdin.flush().is_err() {
            self.kill();
            self.dead = true;
            return "crash".to_string();
        }
        match p.rx.recv_timeout(self.timeout) {
            Ok(l) => l,
            Err(RecvTimeoutError::Timeout) => {
                self.kill();
                self.dead = true;
                self.timeouts += 1;
                "timeout".to_string()
            }
            Err(RecvTimeoutError::Disconnected) => {
                // the worker died (abort / stack overflow): not catchable in-process
                self.kill();
                self.dead = true;
                "crash".to_string()
            }
        }
    }

    pub fn shutdown(&mut self) {
        self.kill();
    }
}
