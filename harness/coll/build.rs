// Enables the representation-level streams (`mm`, `hash`) only when the verification hook
// H2-coll (`pub mod coll` in agdb/src/verif.rs, compiled under --cfg agdb_verif) is present in the tree the
// harness is built against. Without it those streams are skipped with a note in stats.json.
use std::path::Path;

fn main() {
    println!("cargo::rustc-check-cfg=cfg(coll_hook)");
    println!("cargo::rustc-check-cfg=cfg(agdb_verif)");
    println!("cargo::rerun-if-env-changed=VERIF_REPO");
    let repo = std::env::var("VERIF_REPO").unwrap_or_else(|_| "/repo".to_string());
    let hook = format!("{repo}/agdb/src/verif.rs");
    println!("cargo::rerun-if-changed={hook}");
    let flags = std::env::var("CARGO_ENCODED_RUSTFLAGS").unwrap_or_default();
    let present = Path::new(&hook).exists()
        && std::fs::read_to_string(&hook)
            .map(|s| s.contains("pub mod coll") && s.contains("pub struct VerifMultiMap"))
            .unwrap_or(false);
    if present && flags.contains("agdb_verif") {
        println!("cargo::rustc-cfg=coll_hook");
    }
}
