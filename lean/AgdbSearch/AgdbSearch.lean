import AgdbSearch.Model.Query
import AgdbSearch.Props.C14
import AgdbSearch.Props.C15
import AgdbSearch.Props.C16
import AgdbSearch.Props.C17
import AgdbSearch.Props.C18
