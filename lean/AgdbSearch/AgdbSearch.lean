import AgdbSearch.Model.Basic
import AgdbSearch.Model.Value
