import AgdbSearch.Props.C17
open AgdbSearch
#print axioms C17_filter
#print axioms C17_cost
#print axioms C17_valid
#print axioms C17_optimal
#print axioms C17_empty_iff
#print axioms C17_static_conditions
#print axioms C17_optimal_partial
#print axioms C17_distance_dependent_counterexample
