import AgdbSearch.Props.C16
open AgdbSearch
#print axioms C16_stream_slice
#print axioms C16_stream_slice_elements
#print axioms C16_slice_spec
#print axioms C16_sorted_slice
#print axioms C16_search_slice
#print axioms C16_no_failure
#print axioms C16_order
#print axioms C16_order_lex
#print axioms C16_missing_last
#print axioms C16_direction
#print axioms C16_slice_panic_counterexample
#print axioms C16_slice_panic_counterexample_limit
#print axioms C16_limit_overflow_counterexample
