import AgdbSearch.Props.C14
open AgdbSearch
#print axioms C14_model_is_search
#print axioms C14_origin_first
#print axioms C14_sound
#print axioms C14_sound_any_handler
#print axioms C14_nodup
#print axioms C14_complete
#print axioms C14_exact
#print axioms C14_terminates
#print axioms C14_graph_exact
#print axioms C14_graph_terminates
#print axioms C14_every_history
#print axioms C14_bfs_distance
#print axioms C14_dfs_order
#print axioms C14_dfs_order_unique
#print axioms C14_edge_origin_counterexample
#print axioms C14_edge_origin_unreachable
