import AgdbSearch.Props.C15
open AgdbSearch
#print axioms C15_tables
#print axioms C15_selection
#print axioms C15_traversal
#print axioms C15_atom_kinds
#print axioms C15_never_finish
#print axioms C15_beyond_origin
#print axioms C15_extent
#print axioms C15_type_strict
#print axioms C15_same_type
#print axioms C15_contains_family
#print axioms C15_contains_family_rows
#print axioms isInfixB_iff
#print axioms C15_distance
#print axioms C15_cross_type_counterexample
#print axioms C15_path_edge_distance_counterexample
