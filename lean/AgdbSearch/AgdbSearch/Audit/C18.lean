import AgdbSearch.Props.C18
open AgdbSearch
#print axioms C18_iter_mem
#print axioms C18_iter_sorted
#print axioms C18_iter_nodup
#print axioms C18_iter
