/- The fixed model has no panicking path: structural facts used by C16. -/
import AgdbSearch.Lemmas.Slice
namespace AgdbSearch

/-- An outcome that is a value, a database error, or fuel exhaustion (never a panic / huge allocation). -/
def Outcome.noCrash {α : Type} : Outcome α → Prop
  | .panic _ => False
  | .hugeAlloc _ => False
  | _ => True

theorem Outcome.noCrash_map {α β : Type} {f : α → β} {o : Outcome α} (h : o.noCrash) : (o.map f).noCrash := by
  cases o <;> simp_all [Outcome.map, Outcome.noCrash]

theorem Outcome.noCrash_bind {α β : Type} {f : α → Outcome β} {o : Outcome α} (h : o.noCrash)
    (hf : ∀ a, (f a).noCrash) : (o.bind f).noCrash := by
  cases o <;> simp_all [Outcome.bind, Outcome.noCrash]

theorem run_noCrash {S σ : Type} (step : S → Step S) (h : HandlerFn σ) :
    ∀ (f : Nat) (s : S) (st : σ), (run step h f s st).noCrash := by
  intro f
  induction f with
  | zero => intro s st; simp [run, Outcome.noCrash]
  | succ f ih =>
    intro s st
    simp only [run]
    cases step s with
    | done => simp [Outcome.noCrash]
    | skip s' => exact ih s' st
    | visit idx dist k =>
      simp only
      cases hk : (h st idx dist).1.kind <;> simp only
      · exact Outcome.noCrash_map (ih _ _)
      · simp [Outcome.noCrash]
      · exact Outcome.noCrash_map (ih _ _)

/-- The generic loop either returns a list or runs out of fuel. -/
theorem run_ok_or_fuel {S σ : Type} (step : S → Step S) (h : HandlerFn σ) :
    ∀ (f : Nat) (s : S) (st : σ), (∃ xs, run step h f s st = .ok xs) ∨ run step h f s st = .outOfFuel := by
  intro f
  induction f with
  | zero => intro s st; right; rfl
  | succ f ih =>
    intro s st
    simp only [run]
    cases step s with
    | done => exact Or.inl ⟨[], rfl⟩
    | skip s' => exact ih s' st
    | visit idx dist k =>
      simp only
      cases hk : (h st idx dist).1.kind <;> simp only
      · rcases ih (k true) (h st idx dist).2 with ⟨xs, hx⟩ | hx
        · exact Or.inl ⟨_, by rw [hx]; rfl⟩
        · exact Or.inr (by rw [hx]; rfl)
      · exact Or.inl ⟨_, rfl⟩
      · rcases ih (k false) (h st idx dist).2 with ⟨xs, hx⟩ | hx
        · exact Or.inl ⟨_, by rw [hx]; rfl⟩
        · exact Or.inr (by rw [hx]; rfl)

theorem runWith_noCrash {S : Type} (step : S → Step S) (base : Int → Nat → Control)
    (limit offset fuel : Nat) (s : S) : (runWith false step base limit offset fuel s).noCrash := by
  unfold runWith
  split
  · split <;> exact run_noCrash _ _ _ _ _
  · split
    · exact run_noCrash _ _ _ _ _
    · simp only [Bool.false_and, Bool.false_eq_true, if_false]
      exact run_noCrash _ _ _ _ _

theorem pathLoop_noCrash (legacy : Bool) (g : Graph) (h : Int → Nat → Nat × Bool) (dest : Int) :
    ∀ (f : Nat) (s : PS), (pathLoop legacy g h dest f s).noCrash := by
  intro f
  induction f with
  | zero => intro s; simp [pathLoop, Outcome.noCrash]
  | succ f ih =>
    intro s
    simp only [pathLoop]
    split
    · simp [Outcome.noCrash]
    · split
      · simp [Outcome.noCrash]
      · exact ih _

end AgdbSearch
