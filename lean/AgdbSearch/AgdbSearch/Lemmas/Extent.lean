/-
Extent of a traversal under conditions (C15): for a distance-independent condition evaluator, the search
examines exactly the elements reachable through elements whose control is `Continue` (a stopped node's edges and
a stopped edge's target are not followed; a stopped edge's siblings still are), and returns those whose value is true.
-/
import AgdbSearch.Lemmas.Complete
namespace AgdbSearch

/-- Reachability that does not pass through stopped elements. `K x` = control kind of `x`. -/
inductive ReachC (V : View) (K : Int → Kind) (o : Int) : Int → Prop
  | origin : ReachC V K o o
  | edge {n e : Int} : ReachC V K o n → 0 < n → K n = .cont → e ∈ V.succ n → ReachC V K o e
  | node {e : Int} : ReachC V K o e → ¬ 0 < e → K e = .cont → ReachC V K o (V.target e)

structure InvC (V : View) (K : Int → Kind) (s : GS) : Prop where
  i1 : ∀ n ∈ s.visited, 0 < n → K n = .cont → ∀ e ∈ V.succ n,
        e ∈ s.visited ∨ ∃ si ∈ s.work, ¬ 0 < si.idx ∧ si.dist ≠ 0 ∧ e ∈ chain V si.idx
  i2 : ∀ e ∈ s.visited, ¬ 0 < e → K e = .cont → V.target e ∈ s.visited ∨ ∃ si ∈ s.work, si.idx = V.target e
  i3 : ∀ si ∈ s.work, ¬ 0 < si.idx → si.dist ≠ 0 → 0 < V.owner si.idx ∧ si.idx ∈ V.succ (V.owner si.idx)
  i4 : ∀ si ∈ s.work, ¬ 0 < si.idx → 0 < V.target si.idx

theorem invC_skip (V : View) (hwf : V.WF) (K : Int → Kind) (alg : Alg) (si : SI) (rest : List SI) (vis : List Int)
    (hinv : InvC V K ⟨si :: rest, vis⟩) (hv : si.idx ∈ vis) :
    InvC V K ⟨expand false alg V si false rest, vis⟩ := by
  obtain ⟨h34a, h34b⟩ := i34_expand V hwf alg si false rest hinv.i3 hinv.i4
  refine ⟨?_, ?_, h34a, h34b⟩
  · intro n hn hpos hk e he
    rcases hinv.i1 n hn hpos hk e he with h | ⟨x, hx, hxn, hxd, hxe⟩
    · exact Or.inl h
    · rcases List.mem_cons.mp hx with rfl | hx
      · obtain ⟨ho, hm⟩ := hinv.i3 x (by simp) hxn hxd
        rcases pending_split V hwf alg x false rest hxn hxd ho hm hxe with rfl | h
        · exact Or.inl hv
        · exact Or.inr h
      · exact Or.inr ⟨x, (mem_expand alg V si false rest x).mpr (Or.inl hx), hxn, hxd, hxe⟩
  · intro e he hen hk
    rcases hinv.i2 e he hen hk with h | ⟨x, hx, hxe⟩
    · exact Or.inl h
    · rcases List.mem_cons.mp hx with rfl | hx
      · left; rw [← hxe]; exact hv
      · exact Or.inr ⟨x, (mem_expand alg V si false rest x).mpr (Or.inl hx), hxe⟩

/-- Visiting `si` and expanding it with `follow = (K si.idx = cont)`. -/
theorem invC_visit (V : View) (hwf : V.WF) (K : Int → Kind) (alg : Alg) (si : SI) (follow : Bool)
    (hfol : follow = true ↔ K si.idx = .cont) (rest : List SI) (vis : List Int)
    (hinv : InvC V K ⟨si :: rest, vis⟩) :
    InvC V K ⟨expand false alg V si follow rest, si.idx :: vis⟩ := by
  obtain ⟨h34a, h34b⟩ := i34_expand V hwf alg si follow rest hinv.i3 hinv.i4
  refine ⟨?_, ?_, h34a, h34b⟩
  · intro n hn hpos hk e he
    rcases List.mem_cons.mp hn with rfl | hn
    · right
      have hf' : follow = true := hfol.mpr hk
      cases hf : V.first si.idx with
      | none =>
        unfold View.first at hf
        cases hs : V.succ si.idx with
        | nil => rw [hs] at he; simp at he
        | cons y ys => rw [hs] at hf; simp at hf
      | some f =>
        refine ⟨⟨f, si.dist + 1⟩, ?_, hwf.edge_neg _ _ (first_mem hf), by simp, ?_⟩
        · exact (mem_expand alg V si follow rest _).mpr (Or.inr (Or.inl ⟨hpos, hf', hf, rfl⟩))
        · show e ∈ chain V f
          rw [chain_first V hwf hpos hf]; exact he
    · rcases hinv.i1 n hn hpos hk e he with h | ⟨x, hx, hxn, hxd, hxe⟩
      · exact Or.inl (List.mem_cons_of_mem _ h)
      · rcases List.mem_cons.mp hx with rfl | hx
        · obtain ⟨ho, hm⟩ := hinv.i3 x (by simp) hxn hxd
          rcases pending_split V hwf alg x follow rest hxn hxd ho hm hxe with rfl | h
          · exact Or.inl (by simp)
          · exact Or.inr h
        · exact Or.inr ⟨x, (mem_expand alg V si follow rest x).mpr (Or.inl hx), hxn, hxd, hxe⟩
  · intro e he hen hk
    rcases List.mem_cons.mp he with rfl | he
    · right
      have hf' : follow = true := hfol.mpr hk
      exact ⟨⟨V.target si.idx, si.dist + 1⟩,
        (mem_expand alg V si follow rest _).mpr (Or.inr (Or.inr (Or.inr ⟨hen, hf', rfl⟩))), rfl⟩
    · rcases hinv.i2 e he hen hk with h | ⟨x, hx, hxe⟩
      · exact Or.inl (List.mem_cons_of_mem _ h)
      · rcases List.mem_cons.mp hx with rfl | hx
        · left; rw [← hxe]; simp
        · exact Or.inr ⟨x, (mem_expand alg V si follow rest x).mpr (Or.inl hx), hxe⟩

def ClosedC (V : View) (K : Int → Kind) (W : List Int) : Prop :=
  (∀ n ∈ W, 0 < n → K n = .cont → ∀ e ∈ V.succ n, e ∈ W) ∧
  (∀ e ∈ W, ¬ 0 < e → K e = .cont → V.target e ∈ W)

/-- Completeness under pruning: there is a closed set containing everything visited, all of whose newly visited
members with a true value are returned. -/
theorem extent_complete_aux (V : View) (hwf : V.WF) (alg : Alg) (base : Int → Nat → Control)
    (K : Int → Kind) (B : Int → Bool)
    (hK : ∀ x d, (base x d).kind = K x) (hB : ∀ x d, (base x d).val = B x) (hnf : ∀ x, K x ≠ .finish) :
    ∀ (f : Nat) (s : GS) (xs : List Int),
      run (gstep false alg V) (defaultH base) f s () = .ok xs → InvC V K s →
      ∃ W, ClosedC V K W ∧ (∀ x ∈ s.visited, x ∈ W) ∧ (∀ si ∈ s.work, si.idx ∈ W) ∧
        (∀ x ∈ W, x ∉ s.visited → B x = true → x ∈ xs) := by
  intro f
  induction f with
  | zero => intro s xs hr; simp [run] at hr
  | succ f ih =>
    intro s xs hr hinv
    obtain ⟨work, vis⟩ := s
    cases work with
    | nil =>
      simp only [run, gstep_nil] at hr
      injection hr with hr; subst hr
      refine ⟨vis, ⟨fun n hn hp hk e he => ?_, fun e he hn hk => ?_⟩, fun x hx => hx, by simp,
        fun x hx hnx => absurd hx hnx⟩
      · rcases hinv.i1 n hn hp hk e he with h | ⟨x, hx, _⟩
        · exact h
        · simp at hx
      · rcases hinv.i2 e he hn hk with h | ⟨x, hx, _⟩
        · exact h
        · simp at hx
    | cons si rest =>
      cases hv : vis.contains si.idx with
      | true =>
        simp only [run, gstep_visited alg V si rest vis hv] at hr
        obtain ⟨W, hc, hsub, hwork, hret⟩ := ih _ xs hr (invC_skip V hwf K alg si rest vis hinv (by simpa using hv))
        refine ⟨W, hc, hsub, ?_, hret⟩
        intro x hx
        rcases List.mem_cons.mp hx with rfl | hx
        · exact hsub _ (by simpa using hv)
        · exact hwork x ((mem_expand alg V si false rest x).mpr (Or.inl hx))
      | false =>
        simp only [run, gstep_unvisited alg V si rest vis hv, defaultH] at hr
        have hkind := hK si.idx si.dist
        have hval := hB si.idx si.dist
        cases hk : K si.idx with
        | finish => exact absurd hk (hnf _)
        | cont =>
          rw [hk] at hkind
          simp only [hkind] at hr
          obtain ⟨xs', hx', rfl⟩ := Outcome.map_eq_ok hr
          obtain ⟨W, hc, hsub, hwork, hret⟩ := ih _ xs' hx'
            (invC_visit V hwf K alg si true (by simp [hk]) rest vis hinv)
          refine ⟨W, hc, fun x hx => hsub x (List.mem_cons_of_mem _ hx), ?_, fun x hxW hxv hb => ?_⟩
          · intro x hx
            rcases List.mem_cons.mp hx with rfl | hx
            · exact hsub _ (by simp)
            · exact hwork x ((mem_expand alg V si true rest x).mpr (Or.inl hx))
          by_cases hxe : x = si.idx
          · subst hxe; rw [hval, hb]; simp [consIf]
          · have := hret x hxW (by simp [hxe, hxv]) hb
            unfold consIf; split
            · exact List.mem_cons_of_mem _ this
            · exact this
        | stop =>
          rw [hk] at hkind
          simp only [hkind] at hr
          obtain ⟨xs', hx', rfl⟩ := Outcome.map_eq_ok hr
          obtain ⟨W, hc, hsub, hwork, hret⟩ := ih _ xs' hx'
            (invC_visit V hwf K alg si false (by simp [hk]) rest vis hinv)
          refine ⟨W, hc, fun x hx => hsub x (List.mem_cons_of_mem _ hx), ?_, fun x hxW hxv hb => ?_⟩
          · intro x hx
            rcases List.mem_cons.mp hx with rfl | hx
            · exact hsub _ (by simp)
            · exact hwork x ((mem_expand alg V si false rest x).mpr (Or.inl hx))
          by_cases hxe : x = si.idx
          · subst hxe; rw [hval, hb]; simp [consIf]
          · have := hret x hxW (by simp [hxe, hxv]) hb
            unfold consIf; split
            · exact List.mem_cons_of_mem _ this
            · exact this

/-- Work-item invariant for soundness under pruning. -/
def GoodC (V : View) (K : Int → Kind) (o : Int) (si : SI) : Prop :=
  ReachC V K o si.idx ∧
  (¬ 0 < si.idx → 0 < V.target si.idx) ∧
  (¬ 0 < si.idx → si.dist ≠ 0 →
    0 < V.owner si.idx ∧ si.idx ∈ V.succ (V.owner si.idx) ∧ ReachC V K o (V.owner si.idx) ∧ K (V.owner si.idx) = .cont)

theorem goodC_expand (alg : Alg) (V : View) (hwf : V.WF) (K : Int → Kind) (o : Int) (si : SI) (follow : Bool)
    (hfol : follow = true → K si.idx = .cont) (rest : List SI)
    (hsi : GoodC V K o si) (hrest : ∀ x ∈ rest, GoodC V K o x) :
    ∀ x ∈ expand false alg V si follow rest, GoodC V K o x := by
  intro x hx
  rcases (mem_expand alg V si follow rest x).mp hx with h | ⟨hn, hf', hf, hd⟩ | ⟨hn, hd0, hnx, hd⟩ | ⟨hn, hf', rfl⟩
  · exact hrest x h
  · have hmem : x.idx ∈ V.succ si.idx := first_mem hf
    have ho := hwf.owner_of_mem _ _ hn hmem
    have hk := hfol hf'
    refine ⟨ReachC.edge hsi.1 hn hk hmem, fun _ => hwf.target_pos _ _ hn hmem, fun _ _ => ?_⟩
    rw [ho]; exact ⟨hn, hmem, hsi.1, hk⟩
  · obtain ⟨hpos, hm, hr, hk⟩ := hsi.2.2 hn hd0
    have hmem : x.idx ∈ V.succ (V.owner si.idx) := V.next_mem hnx
    have ho := hwf.owner_of_mem _ _ hpos hmem
    refine ⟨ReachC.edge hr hpos hk hmem, fun _ => hwf.target_pos _ _ hpos hmem, fun _ _ => ?_⟩
    rw [ho]; exact ⟨hpos, hmem, hr, hk⟩
  · have hp : 0 < V.target si.idx := hsi.2.1 hn
    exact ⟨ReachC.node hsi.1 hn (hfol hf'), fun h => absurd hp h, fun h => absurd hp h⟩

theorem extent_sound_aux (V : View) (hwf : V.WF) (alg : Alg) (base : Int → Nat → Control)
    (K : Int → Kind) (B : Int → Bool) (o : Int)
    (hK : ∀ x d, (base x d).kind = K x) (hB : ∀ x d, (base x d).val = B x) :
    ∀ (f : Nat) (s : GS) (xs : List Int),
      run (gstep false alg V) (defaultH base) f s () = .ok xs →
      (∀ si ∈ s.work, GoodC V K o si) → ∀ x ∈ xs, ReachC V K o x ∧ B x = true := by
  intro f
  induction f with
  | zero => intro s xs hr; simp [run] at hr
  | succ f ih =>
    intro s xs hr hgood
    obtain ⟨work, vis⟩ := s
    cases work with
    | nil =>
      simp only [run, gstep_nil] at hr
      injection hr with hr; subst hr; simp
    | cons si rest =>
      have hsi := hgood si (by simp)
      have hrest : ∀ x ∈ rest, GoodC V K o x := fun x hx => hgood x (by simp [hx])
      cases hv : vis.contains si.idx with
      | true =>
        simp only [run, gstep_visited alg V si rest vis hv] at hr
        exact ih _ xs hr (goodC_expand alg V hwf K o si false (by simp) rest hsi hrest)
      | false =>
        simp only [run, gstep_unvisited alg V si rest vis hv, defaultH] at hr
        have hkind := hK si.idx si.dist
        have hval := hB si.idx si.dist
        have key : ∀ xs' : List Int, (∀ x ∈ xs', ReachC V K o x ∧ B x = true) →
            ∀ x ∈ consIf (base si.idx si.dist).val si.idx xs', ReachC V K o x ∧ B x = true := by
          intro xs' h' x hx
          unfold consIf at hx; split at hx
          · rename_i hb
            rcases List.mem_cons.mp hx with rfl | hx
            · exact ⟨hsi.1, by rw [← hval]; exact hb⟩
            · exact h' x hx
          · exact h' x hx
        cases hk : (base si.idx si.dist).kind <;> simp only [hk] at hr
        · obtain ⟨xs', hx', rfl⟩ := Outcome.map_eq_ok hr
          exact key xs' (ih _ xs' hx' (goodC_expand alg V hwf K o si true (fun _ => by rw [← hkind, hk]) rest hsi hrest))
        · injection hr with hr; subst hr
          exact key [] (by simp)
        · obtain ⟨xs', hx', rfl⟩ := Outcome.map_eq_ok hr
          exact key xs' (ih _ xs' hx' (goodC_expand alg V hwf K o si false (by simp) rest hsi hrest))

end AgdbSearch
