/-
Simulation lemmas for the streaming limit/offset handlers (C16): for ANY step machine and ANY
condition evaluator `base`, the run with a counting handler equals a window of the run with the
default handler, started at the same state with the same fuel.
-/
import AgdbSearch.Model.Query
namespace AgdbSearch

theorem Outcome.map_eq_ok {α β : Type} {f : α → β} {o : Outcome α} {y : β}
    (h : o.map f = .ok y) : ∃ x, o = .ok x ∧ y = f x := by
  cases o <;> simp [Outcome.map] at h
  exact ⟨_, rfl, h.symm⟩

@[simp] theorem Kind.stop_beq_cont : (Kind.stop == Kind.cont) = false := by decide
@[simp] theorem Kind.cont_beq_cont : (Kind.cont == Kind.cont) = true := by decide

theorem consIf_true (x : Int) (l : List Int) : consIf true x l = x :: l := rfl
theorem consIf_false (x : Int) (l : List Int) : consIf false x l = l := rfl

/-- Inversion of one `run` step under the default handler. -/
theorem run_default_visit {S : Type} {step : S → Step S} {base : Int → Nat → Control}
    {f : Nat} {s : S} {xs : List Int} {idx : Int} {dist : Nat} {k : Bool → S}
    (hs : step s = .visit idx dist k)
    (h : run step (defaultH base) (f + 1) s () = .ok xs) :
    ((base idx dist).kind = .finish ∧ xs = consIf (base idx dist).val idx []) ∨
    (∃ xs', (base idx dist).kind ≠ .finish ∧
      run step (defaultH base) f (k ((base idx dist).kind == .cont)) () = .ok xs' ∧
      xs = consIf (base idx dist).val idx xs') := by
  simp only [run, hs, defaultH] at h
  cases hk : (base idx dist).kind <;> simp only [hk] at h
  · obtain ⟨x, hx, rfl⟩ := Outcome.map_eq_ok h
    exact Or.inr ⟨x, by simp, by simpa using hx, rfl⟩
  · left
    injection h with h
    exact ⟨rfl, h.symm⟩
  · obtain ⟨x, hx, rfl⟩ := Outcome.map_eq_ok h
    exact Or.inr ⟨x, by simp, by simpa using hx, rfl⟩

/-- One `run` step for an arbitrary handler whose answer is known. -/
theorem run_visit_nonfinish {S σ : Type} {step : S → Step S} {h : HandlerFn σ}
    {f : Nat} {s : S} {st st' : σ} {idx : Int} {dist : Nat} {k : Bool → S} {c : Control}
    (hs : step s = .visit idx dist k) (hh : h st idx dist = (c, st')) (hk : c.kind ≠ .finish) :
    run step h (f + 1) s st = (run step h f (k (c.kind == .cont)) st').map (consIf c.val idx) := by
  simp only [run, hs, hh]
  cases hc : c.kind <;> simp_all

theorem run_visit_finish {S σ : Type} {step : S → Step S} {h : HandlerFn σ}
    {f : Nat} {s : S} {st st' : σ} {idx : Int} {dist : Nat} {k : Bool → S} {c : Control}
    (hs : step s = .visit idx dist k) (hh : h st idx dist = (c, st')) (hk : c.kind = .finish) :
    run step h (f + 1) s st = .ok (consIf c.val idx []) := by
  simp only [run, hs, hh, hk]

/-- `OffsetHandler`: from counter `k` the result is the default result minus its first `offset - k` elements. -/
theorem run_offset {S : Type} (step : S → Step S) (base : Int → Nat → Control) (o : Nat) :
    ∀ (f : Nat) (s : S) (k : Nat) (xs : List Int),
      run step (defaultH base) f s () = .ok xs →
      run step (offsetH o base) f s k = .ok (xs.drop (o - k)) := by
  intro f
  induction f with
  | zero => intro s k xs h; simp [run] at h
  | succ f ih =>
    intro s k xs h
    cases hs : step s with
    | done =>
      simp only [run, hs] at h ⊢
      injection h with h; subst h; simp
    | skip s' =>
      simp only [run, hs] at h ⊢
      exact ih s' k xs h
    | visit idx dist kk =>
      rcases run_default_visit hs h with ⟨hfin, rfl⟩ | ⟨xs', hnf, hrun, rfl⟩
      · -- finish
        cases hv : (base idx dist).val
        · have hh : offsetH o base k idx dist = (base idx dist, k) := by simp [offsetH, hv]
          rw [run_visit_finish hs hh hfin]; simp [hv, consIf]
        · have hh : offsetH o base k idx dist = ((base idx dist).setValue (decide (o < k + 1)), k + 1) := by
            simp [offsetH, hv]
          rw [run_visit_finish hs hh (by simpa [Control.setValue] using hfin)]
          by_cases hlt : o < k + 1
          · have : o - k = 0 := by omega
            simp [Control.setValue, hlt, consIf, this]
          · have : o - k = (o - (k + 1)) + 1 := by omega
            simp [Control.setValue, hlt, consIf, this]
      · cases hv : (base idx dist).val
        · have hh : offsetH o base k idx dist = (base idx dist, k) := by simp [offsetH, hv]
          rw [run_visit_nonfinish hs hh hnf, ih _ k xs' hrun]
          simp [Outcome.map, consIf, hv]
        · have hh : offsetH o base k idx dist = ((base idx dist).setValue (decide (o < k + 1)), k + 1) := by
            simp [offsetH, hv]
          rw [run_visit_nonfinish hs hh (by simpa [Control.setValue] using hnf)]
          simp only [Control.setValue]
          rw [ih _ (k + 1) xs' hrun]
          by_cases hlt : o < k + 1
          · have h0 : o - k = 0 := by omega
            have h1 : o - (k + 1) = 0 := by omega
            simp [Outcome.map, hlt, consIf, h0, h1]
          · have : o - k = (o - (k + 1)) + 1 := by omega
            simp [Outcome.map, hlt, consIf, this]

/-- `LimitHandler`: from counter `k < limit` the result is the first `limit - k` elements of the default result. -/
theorem run_limit {S : Type} (step : S → Step S) (base : Int → Nat → Control) (L : Nat) :
    ∀ (f : Nat) (s : S) (k : Nat) (xs : List Int), k < L →
      run step (defaultH base) f s () = .ok xs →
      run step (limitH L base) f s k = .ok (xs.take (L - k)) := by
  intro f
  induction f with
  | zero => intro s k xs _ h; simp [run] at h
  | succ f ih =>
    intro s k xs hk h
    cases hs : step s with
    | done =>
      simp only [run, hs] at h ⊢
      injection h with h; subst h; simp
    | skip s' =>
      simp only [run, hs] at h ⊢
      exact ih s' k xs hk h
    | visit idx dist kk =>
      have hne : (k == L) = false := by simp; omega
      rcases run_default_visit hs h with ⟨hfin, rfl⟩ | ⟨xs', hnf, hrun, rfl⟩
      · cases hv : (base idx dist).val
        · have hh : limitH L base k idx dist = (base idx dist, k) := by simp [limitH, hv, hne]
          rw [run_visit_finish hs hh hfin]; simp [hv, consIf]
        · by_cases hL : k + 1 = L
          · have hh : limitH L base k idx dist = (⟨.finish, true⟩, k + 1) := by simp [limitH, hv, hL]
            rw [run_visit_finish hs hh rfl]
            have : L - k = 1 := by omega
            simp [consIf, this]
          · have hh : limitH L base k idx dist = (base idx dist, k + 1) := by
              simp [limitH, hv]; omega
            rw [run_visit_finish hs hh hfin]
            have : L - k = (L - (k + 1)) + 1 := by omega
            simp [hv, consIf, this]
      · cases hv : (base idx dist).val
        · have hh : limitH L base k idx dist = (base idx dist, k) := by simp [limitH, hv, hne]
          rw [run_visit_nonfinish hs hh hnf, ih _ k xs' hk hrun]
          simp [Outcome.map, hv, consIf]
        · by_cases hL : k + 1 = L
          · have hh : limitH L base k idx dist = (⟨.finish, true⟩, k + 1) := by simp [limitH, hv, hL]
            rw [run_visit_finish hs hh rfl]
            have : L - k = 1 := by omega
            simp [consIf, this]
          · have hh : limitH L base k idx dist = (base idx dist, k + 1) := by
              simp [limitH, hv]; omega
            rw [run_visit_nonfinish hs hh hnf, ih _ (k + 1) xs' (by omega) hrun]
            have : L - k = (L - (k + 1)) + 1 := by omega
            simp [Outcome.map, hv, consIf, this]

/-- `LimitOffsetHandler` (field `limit = L`): from counter `k < L` the result is the window
`[offset - k, L - k)` of the default result. -/
theorem run_limitOffset {S : Type} (step : S → Step S) (base : Int → Nat → Control) (L o : Nat) :
    ∀ (f : Nat) (s : S) (k : Nat) (xs : List Int), k < L →
      run step (defaultH base) f s () = .ok xs →
      run step (limitOffsetH L o base) f s k = .ok ((xs.take (L - k)).drop (o - k)) := by
  intro f
  induction f with
  | zero => intro s k xs _ h; simp [run] at h
  | succ f ih =>
    intro s k xs hk h
    cases hs : step s with
    | done =>
      simp only [run, hs] at h ⊢
      injection h with h; subst h; simp
    | skip s' =>
      simp only [run, hs] at h ⊢
      exact ih s' k xs hk h
    | visit idx dist kk =>
      have hne : (k == L) = false := by simp; omega
      rcases run_default_visit hs h with ⟨hfin, rfl⟩ | ⟨xs', hnf, hrun, rfl⟩
      · cases hv : (base idx dist).val
        · have hh : limitOffsetH L o base k idx dist = (base idx dist, k) := by
            simp [limitOffsetH, hv, hne]
          rw [run_visit_finish hs hh hfin]; simp [hv, consIf]
        · by_cases hL : k + 1 = L
          · have hh : limitOffsetH L o base k idx dist = (⟨.finish, decide (o < k + 1)⟩, k + 1) := by
              simp [limitOffsetH, hv, hL, Control.setValue]
            rw [run_visit_finish hs hh rfl]
            have h1 : L - k = 1 := by omega
            by_cases hlt : o < k + 1
            · have : o - k = 0 := by omega
              simp [consIf, h1, hlt, this]
            · have : o - k = (o - (k + 1)) + 1 := by omega
              simp [consIf, h1, hlt, this]
          · have hh : limitOffsetH L o base k idx dist =
                ((base idx dist).setValue (decide (o < k + 1)), k + 1) := by
              simp [limitOffsetH, hv]; omega
            rw [run_visit_finish hs hh (by simpa [Control.setValue] using hfin)]
            have h1 : L - k = (L - (k + 1)) + 1 := by omega
            by_cases hlt : o < k + 1
            · have : o - k = 0 := by omega
              simp [Control.setValue, consIf, h1, hlt, this]
            · have : o - k = (o - (k + 1)) + 1 := by omega
              simp [Control.setValue, consIf, h1, hlt, this]
      · cases hv : (base idx dist).val
        · have hh : limitOffsetH L o base k idx dist = (base idx dist, k) := by
            simp [limitOffsetH, hv, hne]
          rw [run_visit_nonfinish hs hh hnf, ih _ k xs' hk hrun]
          simp [Outcome.map, hv, consIf]
        · by_cases hL : k + 1 = L
          · have hh : limitOffsetH L o base k idx dist = (⟨.finish, decide (o < k + 1)⟩, k + 1) := by
              simp [limitOffsetH, hv, hL, Control.setValue]
            rw [run_visit_finish hs hh rfl]
            have h1 : L - k = 1 := by omega
            by_cases hlt : o < k + 1
            · have : o - k = 0 := by omega
              simp [consIf, h1, hlt, this]
            · have : o - k = (o - (k + 1)) + 1 := by omega
              simp [consIf, h1, hlt, this]
          · have hh : limitOffsetH L o base k idx dist =
                ((base idx dist).setValue (decide (o < k + 1)), k + 1) := by
              simp [limitOffsetH, hv]; omega
            rw [run_visit_nonfinish hs hh (by simpa [Control.setValue] using hnf)]
            simp only [Control.setValue]
            rw [ih _ (k + 1) xs' (by omega) hrun]
            have h1 : L - k = (L - (k + 1)) + 1 := by omega
            by_cases hlt : o < k + 1
            · have h0 : o - k = 0 := by omega
              have h2 : o - (k + 1) = 0 := by omega
              simp [Outcome.map, consIf, h1, hlt, h0, h2]
            · have : o - k = (o - (k + 1)) + 1 := by omega
              simp [Outcome.map, consIf, h1, hlt, this]

/-- Specification of limit/offset: positions `offset .. offset+limit-1`, `limit = 0` meaning unlimited. -/
def sliceSpec (limit offset : Nat) (xs : List Int) : List Int :=
  if limit = 0 then xs.drop offset else (xs.drop offset).take limit

/-- All four `(limit, offset)` arms of `search_from`/`search_to` at once. -/
theorem runWith_eq_slice {S : Type} (step : S → Step S) (base : Int → Nat → Control)
    (limit offset fuel : Nat) (s : S) (xs : List Int)
    (hbase : run step (defaultH base) fuel s () = .ok xs)
    (hbound : limit + offset ≤ U64_MAX ∨ xs.length ≤ U64_MAX) :
    runWith false step base limit offset fuel s = .ok (sliceSpec limit offset xs) := by
  unfold runWith sliceSpec
  by_cases hl : limit = 0
  · by_cases ho : offset = 0
    · simp [hl, ho, hbase]
    · simp only [hl, ho, if_true, if_false]
      rw [run_offset step base offset fuel s 0 xs hbase]; simp
  · by_cases ho : offset = 0
    · simp only [hl, ho, if_true, if_false]
      rw [run_limit step base limit fuel s 0 xs (by omega) hbase]; simp
    · simp only [hl, ho, if_false, Bool.false_and]
      have hL : 0 < min (limit + offset) U64_MAX := by
        have : 0 < U64_MAX := by decide
        omega
      rw [if_neg (by simp)]
      rw [run_limitOffset step base _ offset fuel s 0 xs hL hbase]
      simp only [Nat.sub_zero]
      rcases hbound with hb | hb
      · rw [Nat.min_eq_left hb, List.take_drop, Nat.add_comm]
      · by_cases hb' : limit + offset ≤ U64_MAX
        · rw [Nat.min_eq_left hb', List.take_drop, Nat.add_comm]
        · rw [Nat.min_eq_right (by omega), List.take_of_length_le hb,
            List.take_of_length_le (by simp; omega)]

end AgdbSearch
