/-
Path search (C17): the queue discipline of `PathSearch` (re-sort, take the last) pops a minimum-cost path,
every queued path is a real usable path with its true cost, and — for distance-independent costs — the
Dijkstra invariant: a popped path to an unvisited node is a cheapest one.
-/
import AgdbSearch.Model.Query
namespace AgdbSearch

/-! ### popping -/

theorem pathLe_trans (a b c : Path) : pathLe a b = true → pathLe b c = true → pathLe a c = true := by
  unfold pathLe
  simp only [Bool.or_eq_true, decide_eq_true_eq, Bool.and_eq_true, beq_iff_eq, ge_iff_le]
  intro h1 h2; omega

theorem pathLe_total (a b : Path) : (pathLe a b || pathLe b a) = true := by
  unfold pathLe
  simp only [Bool.or_eq_true, decide_eq_true_eq, Bool.and_eq_true, beq_iff_eq, ge_iff_le]
  omega

theorem pathLe_cost {a b : Path} (h : pathLe a b = true) : b.cost ≤ a.cost := by
  unfold pathLe at h
  simp only [Bool.or_eq_true, decide_eq_true_eq, Bool.and_eq_true, beq_iff_eq, ge_iff_le] at h
  omega

theorem insertPath_perm (x : Path) : ∀ l : List Path, (insertPath x l).Perm (x :: l)
  | [] => List.Perm.refl _
  | y :: ys => by
    unfold insertPath
    split
    · exact List.Perm.refl _
    · exact ((insertPath_perm x ys).cons y).trans (List.Perm.swap x y ys)

theorem sortPaths_perm : ∀ l : List Path, (sortPaths l).Perm l
  | [] => List.Perm.refl _
  | x :: xs => by
    show (insertPath x (sortPaths xs)).Perm (x :: xs)
    exact (insertPath_perm x _).trans ((sortPaths_perm xs).cons x)

theorem insertPath_pairwise (x : Path) : ∀ l : List Path, l.Pairwise (fun a b => pathLe a b = true) →
    (insertPath x l).Pairwise (fun a b => pathLe a b = true)
  | [], _ => by simp [insertPath]
  | y :: ys, h => by
    have hy := List.pairwise_cons.mp h
    unfold insertPath
    split
    · rename_i hxy
      refine List.pairwise_cons.mpr ⟨?_, h⟩
      intro z hz
      rcases List.mem_cons.mp hz with rfl | hz
      · exact hxy
      · exact pathLe_trans _ _ _ hxy (hy.1 z hz)
    · rename_i hxy
      refine List.pairwise_cons.mpr ⟨?_, insertPath_pairwise x ys hy.2⟩
      intro z hz
      rcases List.mem_cons.mp ((insertPath_perm x ys).mem_iff.mp hz) with rfl | hz
      · have := pathLe_total z y
        simp only [Bool.or_eq_true] at this
        rcases this with h1 | h1
        · exact absurd h1 hxy
        · exact h1
      · exact hy.1 z hz

theorem sortPaths_pairwise : ∀ l : List Path, (sortPaths l).Pairwise (fun a b => pathLe a b = true)
  | [] => List.Pairwise.nil
  | x :: xs => insertPath_pairwise x _ (sortPaths_pairwise xs)

/-- `sort_paths(); paths.pop()`: the popped path is in the queue, is a cheapest one, and the queue is the popped
path plus the remaining ones. -/
theorem pop_spec (paths : List Path) (cur : Path)
    (h : (sortPaths paths).getLast? = some cur) :
    cur ∈ paths ∧ (∀ q ∈ paths, cur.cost ≤ q.cost) ∧
    (∀ q, q ∈ paths ↔ q = cur ∨ q ∈ (sortPaths paths).dropLast) := by
  have hperm := sortPaths_perm paths
  have hsorted := sortPaths_pairwise paths
  obtain ⟨ys, hys⟩ := List.getLast?_eq_some_iff.mp h
  have hdl : (sortPaths paths).dropLast = ys := by rw [hys]; simp
  have hsplit : (sortPaths paths).dropLast ++ [cur] = sortPaths paths := by
    rw [hdl, hys]
  have hmem : ∀ q, q ∈ paths ↔ q = cur ∨ q ∈ (sortPaths paths).dropLast := by
    intro q
    rw [← hperm.mem_iff, hdl, hys]
    simp only [List.mem_append, List.mem_singleton]
    constructor
    · rintro (h | h)
      · exact Or.inr h
      · exact Or.inl h
    · rintro (h | h)
      · exact Or.inr h
      · exact Or.inl h
  refine ⟨(hmem cur).mpr (Or.inl rfl), ?_, hmem⟩
  intro q hq
  rcases (hmem q).mp hq with rfl | hq
  · exact Nat.le_refl _
  · rw [← hsplit] at hsorted
    have := (List.pairwise_append.mp hsorted).2.2 q hq cur (by simp)
    exact pathLe_cost this

/-! ### the pushed paths -/

theorem mem_expandEdge (h : Int → Nat → Nat × Bool) (visited : List Int) (cur : Path) (e node : Int) (q : Path) :
    q ∈ expandEdge false h visited cur e node ↔
      (h e cur.elems.length).1 ≠ 0 ∧ node ∉ visited ∧ (h node (cur.elems.length + 1)).1 ≠ 0 ∧
      q = ⟨cur.elems ++ [(e, (h e cur.elems.length).2), (node, (h node (cur.elems.length + 1)).2)],
           cur.cost + (h e cur.elems.length).1 + (h node (cur.elems.length + 1)).1⟩ := by
  unfold expandEdge
  simp only [Bool.false_eq_true, if_false]
  by_cases h1 : (h e cur.elems.length).1 = 0
  · simp [h1]
  · by_cases h2 : node ∈ visited
    · simp [h1, h2]
    · by_cases h3 : (h node (cur.elems.length + 1)).1 = 0
      · simp [h1, h2, h3]
      · simp [h1, h2, h3]

theorem lastOf_snoc2 (l : List (Int × Bool)) (a b : Int × Bool) (k : Nat) :
    lastOf ⟨l ++ [a, b], k⟩ = b.1 := by
  simp [lastOf, List.getLast?_append]

/-! ### validity (any handler) -/

/-- `VPath g h o l u k`: `l` is an alternating directed path `o = n₀, e₁, n₁, …, u` whose flags are the handler's
answers at the element's position (= distance from the origin), every element after the origin has a non-zero
cost at its position, and `k` is the sum of those costs. -/
inductive VPath (g : Graph) (h : Int → Nat → Nat × Bool) (o : Int) : List (Int × Bool) → Int → Nat → Prop
  | single : VPath g h o [(o, (h o 0).2)] o 0
  | snoc {l : List (Int × Bool)} {u : Int} {k : Nat} (e : Nat) :
      VPath g h o l u k → e ∈ g.outOf u.toNat →
      (h (-(Int.ofNat e)) l.length).1 ≠ 0 → (h (Int.ofNat (g.dstOf e)) (l.length + 1)).1 ≠ 0 →
      VPath g h o
        (l ++ [(-(Int.ofNat e), (h (-(Int.ofNat e)) l.length).2),
               (Int.ofNat (g.dstOf e), (h (Int.ofNat (g.dstOf e)) (l.length + 1)).2)])
        (Int.ofNat (g.dstOf e))
        (k + (h (-(Int.ofNat e)) l.length).1 + (h (Int.ofNat (g.dstOf e)) (l.length + 1)).1)

theorem VPath.lastOf_eq {g : Graph} {h : Int → Nat → Nat × Bool} {o u : Int} {l : List (Int × Bool)} {k : Nat}
    (hv : VPath g h o l u k) : lastOf ⟨l, k⟩ = u := by
  cases hv with
  | single => simp [lastOf]
  | snoc e _ _ _ _ => exact lastOf_snoc2 _ _ _ _

/-- Every queued path is valid — invariant of the loop for any handler. -/
def AllValid (g : Graph) (h : Int → Nat → Nat × Bool) (o : Int) (s : PS) : Prop :=
  ∀ p ∈ s.paths, VPath g h o p.elems (lastOf p) p.cost

theorem mem_news (g : Graph) (h : Int → Nat → Nat × Bool) (visited : List Int) (cur : Path) (u : Int) (q : Path) :
    q ∈ (g.outOf u.toNat).flatMap (fun e =>
        expandEdge false h visited cur (-(Int.ofNat e)) (Int.ofNat (g.dstOf e))) ↔
    ∃ e ∈ g.outOf u.toNat,
      (h (-(Int.ofNat e)) cur.elems.length).1 ≠ 0 ∧ Int.ofNat (g.dstOf e) ∉ visited ∧
      (h (Int.ofNat (g.dstOf e)) (cur.elems.length + 1)).1 ≠ 0 ∧
      q = ⟨cur.elems ++ [(-(Int.ofNat e), (h (-(Int.ofNat e)) cur.elems.length).2),
                         (Int.ofNat (g.dstOf e), (h (Int.ofNat (g.dstOf e)) (cur.elems.length + 1)).2)],
           cur.cost + (h (-(Int.ofNat e)) cur.elems.length).1 + (h (Int.ofNat (g.dstOf e)) (cur.elems.length + 1)).1⟩ := by
  simp only [List.mem_flatMap, mem_expandEdge]

/-- Unfolding of one round. -/
theorem pathStep_cases (g : Graph) (h : Int → Nat → Nat × Bool) (dest : Int) (s : PS) :
    (sortPaths s.paths).getLast? = none ∧ pathStep false g h dest s = .inr [] ∨
    ∃ cur, (sortPaths s.paths).getLast? = some cur ∧
      ((lastOf cur ∈ s.visited ∧
          pathStep false g h dest s = .inl ⟨(sortPaths s.paths).dropLast, s.visited⟩) ∨
       (lastOf cur ∉ s.visited ∧ lastOf cur = dest ∧ pathStep false g h dest s = .inr cur.elems) ∨
       (lastOf cur ∉ s.visited ∧ lastOf cur ≠ dest ∧
          pathStep false g h dest s = .inl
            ⟨(sortPaths s.paths).dropLast ++
              (g.outOf (lastOf cur).toNat).flatMap (fun e =>
                expandEdge false h (lastOf cur :: s.visited) cur (-(Int.ofNat e)) (Int.ofNat (g.dstOf e))),
             lastOf cur :: s.visited⟩)) := by
  unfold pathStep
  cases hc : (sortPaths s.paths).getLast? with
  | none => left; simp [hc]
  | some cur =>
    right
    refine ⟨cur, rfl, ?_⟩
    by_cases hv : lastOf cur ∈ s.visited
    · left; simp [hc, hv]
    · by_cases hd : lastOf cur = dest
      · right; left
        refine ⟨hv, hd, ?_⟩
        have hv' : dest ∉ s.visited := hd ▸ hv
        simp [hc, hd, hv']
      · right; right; simp [hc, hv, hd]

end AgdbSearch
