/-
The comparator of `SearchQuery::sort` is a total pre-order (C16): `DbValue.cmp` is a lawful total
order (lexicographic combination of lawful orders), `optCmp` puts missing keys last in both
directions, and the multi-key comparator is the lexicographic product of the per-key comparators.
-/
import Std
import AgdbSearch.Model.Query
namespace AgdbSearch
open Std

instance : TransCmp DbValue.cmp := by unfold DbValue.cmp; infer_instance

theorem isLE_swap_iff {o : Ordering} : o.swap.isLE = o.isGE := by cases o <;> rfl

instance optCmp_oriented (asc : Bool) : OrientedCmp (optCmp asc) where
  eq_swap := by
    intro a b
    cases a <;> cases b <;> try rfl
    rename_i x y
    have h := OrientedCmp.eq_swap (cmp := DbValue.cmp) (a := x) (b := y)
    cases asc
    · simp only [optCmp, Bool.false_eq_true, if_false]; rw [h]
    · simp only [optCmp, if_true]; exact h

instance optCmp_trans (asc : Bool) : TransCmp (optCmp asc) where
  isLE_trans := by
    intro a b c h1 h2
    cases a <;> cases b <;> cases c <;> simp_all [optCmp, Ordering.isLE]
    rename_i x y z
    cases asc
    · simp only [Bool.false_eq_true, if_false] at *
      -- descending: (cmp x y).swap ≤ ⇔ cmp y x ≤
      rw [← OrientedCmp.eq_swap (cmp := DbValue.cmp)] at *
      have := TransCmp.isLE_trans (cmp := DbValue.cmp) (a := z) (b := y) (c := x)
      cases hzy : DbValue.cmp z y <;> cases hyx : DbValue.cmp y x <;> simp_all [Ordering.isLE]
    · simp only [if_true] at *
      have := TransCmp.isLE_trans (cmp := DbValue.cmp) (a := x) (b := y) (c := z)
      cases hxy : DbValue.cmp x y <;> cases hyz : DbValue.cmp y z <;> simp_all [Ordering.isLE]

instance keyCmp_trans (g : Graph) (ko : KeyOrder) : TransCmp (keyCmp g ko) where
  eq_swap := by intro a b; exact OrientedCmp.eq_swap (cmp := optCmp ko.asc)
  isLE_trans := by intro a b c; exact TransCmp.isLE_trans (cmp := optCmp ko.asc)

instance elemCmp_trans (g : Graph) : ∀ kos : List KeyOrder, TransCmp (elemCmp g kos)
  | [] => { eq_swap := by intros; rfl, isLE_trans := by intros; rfl }
  | ko :: rest => by
    have := elemCmp_trans g rest
    unfold elemCmp
    infer_instance

/-- `≤` used by the stable sort. -/
def elemLe (g : Graph) (kos : List KeyOrder) (l r : Int) : Bool := elemCmp g kos l r != .gt

theorem elemLe_eq_isLE (g : Graph) (kos : List KeyOrder) (l r : Int) :
    elemLe g kos l r = (elemCmp g kos l r).isLE := by
  unfold elemLe; cases elemCmp g kos l r <;> rfl

theorem elemLe_trans (g : Graph) (kos : List KeyOrder) (a b c : Int) :
    elemLe g kos a b = true → elemLe g kos b c = true → elemLe g kos a c = true := by
  simp only [elemLe_eq_isLE]
  exact TransCmp.isLE_trans

theorem elemLe_total (g : Graph) (kos : List KeyOrder) (a b : Int) :
    (elemLe g kos a b || elemLe g kos b a) = true := by
  simp only [elemLe_eq_isLE]
  rw [OrientedCmp.eq_swap (cmp := elemCmp g kos) (a := b) (b := a)]
  cases elemCmp g kos a b <;> rfl

end AgdbSearch
