/-
Depth-first order (C14): the lazy stack iterator visits in the order of the recursive pre-order traversal with a
global visited set (a node's chain taken most-recent-first, each branch followed to its end before the next
sibling is looked at). The reference is given as a big-step relation, so no fuel appears in the statement.
-/
import AgdbSearch.Lemmas.Complete
namespace AgdbSearch

mutual
/-- `Dfs V vis x vis'`: recursive depth-first traversal from `x` with visited list `vis` (newest first) ends with
visited list `vis'`. -/
inductive Dfs (V : View) : List Int → Int → List Int → Prop
  | visited {vis : List Int} {x : Int} : x ∈ vis → Dfs V vis x vis
  | node {vis vis' : List Int} {x : Int} : x ∉ vis → 0 < x → DfsList V (x :: vis) (V.succ x) vis' → Dfs V vis x vis'
  | edge {vis vis' : List Int} {x : Int} : x ∉ vis → ¬ 0 < x → Dfs V (x :: vis) (V.target x) vis' → Dfs V vis x vis'
/-- The same over a list of elements, left to right. -/
inductive DfsList (V : View) : List Int → List Int → List Int → Prop
  | nil {vis : List Int} : DfsList V vis [] vis
  | cons {vis v1 v2 : List Int} {e : Int} {es : List Int} :
      Dfs V vis e v1 → DfsList V v1 es v2 → DfsList V vis (e :: es) v2
end

mutual
theorem Dfs.functional {V : View} : ∀ {vis : List Int} {x : Int} {v1 v2 : List Int},
    Dfs V vis x v1 → Dfs V vis x v2 → v1 = v2
  | _, _, _, _, .visited _, .visited _ => rfl
  | _, _, _, _, .visited h, .node hn _ _ => absurd h hn
  | _, _, _, _, .visited h, .edge hn _ _ => absurd h hn
  | _, _, _, _, .node hn _ _, .visited h => absurd h hn
  | _, _, _, _, .node _ _ h1, .node _ _ h2 => DfsList.functional h1 h2
  | _, _, _, _, .node _ hp _, .edge _ hq _ => absurd hp hq
  | _, _, _, _, .edge hn _ _, .visited h => absurd h hn
  | _, _, _, _, .edge _ hq _, .node _ hp _ => absurd hp hq
  | _, _, _, _, .edge _ _ h1, .edge _ _ h2 => Dfs.functional h1 h2
theorem DfsList.functional {V : View} : ∀ {vis : List Int} {es : List Int} {v1 v2 : List Int},
    DfsList V vis es v1 → DfsList V vis es v2 → v1 = v2
  | _, _, _, _, .nil, .nil => rfl
  | _, _, _, _, .cons a1 b1, .cons a2 b2 => by
    have := Dfs.functional a1 a2
    subst this
    exact DfsList.functional b1 b2
end

/-- What one stack item stands for: a node or the origin edge stands for its own subtree, any other edge item for
the rest of its owner's chain starting at it (lazy sibling chaining). -/
def ItemRel (V : View) (si : SI) (vis v1 : List Int) : Prop :=
  if 0 < si.idx ∨ si.dist = 0 then Dfs V vis si.idx v1 else DfsList V vis (chain V si.idx) v1

/-- The stack, top first. -/
def DfsItems (V : View) : List SI → List Int → List Int → Prop
  | [], vis, vis' => vis = vis'
  | si :: rest, vis, vis' => ∃ v1, ItemRel V si vis v1 ∧ DfsItems V rest v1 vis'

theorem dfsItems_append (V : View) : ∀ (a b : List SI) (vis vf : List Int),
    DfsItems V (a ++ b) vis vf ↔ ∃ v1, DfsItems V a vis v1 ∧ DfsItems V b v1 vf
  | [], b, vis, vf => by simp [DfsItems]
  | si :: a, b, vis, vf => by
    simp only [List.cons_append, DfsItems, dfsItems_append V a b]
    constructor
    · rintro ⟨v1, h1, v2, h2, h3⟩; exact ⟨v2, ⟨v1, h1, h2⟩, h3⟩
    · rintro ⟨v2, ⟨v1, h1, h2⟩, h3⟩; exact ⟨v1, h1, v2, h2, h3⟩

structure InvI (V : View) (s : GS) : Prop where
  i3 : ∀ si ∈ s.work, ¬ 0 < si.idx → si.dist ≠ 0 → 0 < V.owner si.idx ∧ si.idx ∈ V.succ (V.owner si.idx)
  i4 : ∀ si ∈ s.work, ¬ 0 < si.idx → 0 < V.target si.idx

theorem invI_expand (V : View) (hwf : V.WF) (si : SI) (follow : Bool) (rest : List SI) (vis vis' : List Int)
    (h : InvI V ⟨si :: rest, vis⟩) : InvI V ⟨expand false .dfs V si follow rest, vis'⟩ := by
  obtain ⟨a, b⟩ := i34_expand V hwf .dfs si follow rest h.i3 h.i4
  exact ⟨a, b⟩

/-- A sibling item `(next e, d)` (if any) followed by `rest` stands for the rest of `e`'s chain, then `rest`. -/
theorem dfsItems_sibling (V : View) (hwf : V.WF) (si : SI) (hn : ¬ 0 < si.idx) (hd : si.dist ≠ 0)
    (rest : List SI) (v1 vf : List Int)
    (h : DfsItems V (optList (V.next si.idx) si.dist ++ rest) v1 vf) :
    ∃ v2, DfsList V v1 (match V.next si.idx with | some e' => chain V e' | none => []) v2 ∧
      DfsItems V rest v2 vf := by
  cases hnx : V.next si.idx with
  | none =>
    simp only [hnx, optList, List.nil_append] at h
    exact ⟨v1, DfsList.nil, h⟩
  | some e' =>
    simp only [hnx, optList, List.cons_append, List.nil_append, DfsItems] at h
    obtain ⟨v2, hrel, hrest⟩ := h
    have hneg : ¬ 0 < e' := hwf.edge_neg _ _ (V.next_mem hnx)
    have : ItemRel V ⟨e', si.dist⟩ v1 v2 = DfsList V v1 (chain V e') v2 := by
      simp [ItemRel, hneg, hd]
    rw [this] at hrel
    exact ⟨v2, hrel, hrest⟩

/-- **The lazy depth-first run realises the recursive reference**, stated on whole states. -/
theorem dfs_aux (V : View) (hwf : V.WF) :
    ∀ (f : Nat) (s : GS) (xs : List Int), run (gstep false .dfs V) allH f s () = .ok xs → InvI V s →
      DfsItems V s.work s.visited (xs.reverse ++ s.visited) := by
  intro f
  induction f with
  | zero => intro s xs h; simp [run] at h
  | succ f ih =>
    intro s xs h hinv
    obtain ⟨work, vis⟩ := s
    cases work with
    | nil =>
      simp only [run, gstep_nil] at h
      injection h with h; subst h
      simp [DfsItems]
    | cons si rest =>
      cases hv : vis.contains si.idx with
      | true =>
        have hmem : si.idx ∈ vis := by simpa using hv
        simp only [run, gstep_visited .dfs V si rest vis hv] at h
        have ih' := ih _ xs h (invI_expand V hwf si false rest vis vis hinv)
        simp only at ih' ⊢
        -- what was pushed for a visited item
        by_cases hn : 0 < si.idx
        · have he : expand false .dfs V si false rest = rest := by simp [expand, hn]
          rw [he] at ih'
          exact ⟨vis, by simp [ItemRel, hn]; exact Dfs.visited hmem, ih'⟩
        · by_cases hd : si.dist = 0
          · have he : expand false .dfs V si false rest = rest := by simp [expand, hn, hd]
            rw [he] at ih'
            exact ⟨vis, by simp [ItemRel, hd]; exact Dfs.visited hmem, ih'⟩
          · have he : expand false .dfs V si false rest = optList (V.next si.idx) si.dist ++ rest := by
              simp [expand, hn, hd]
            rw [he] at ih'
            obtain ⟨v2, hl, hrest⟩ := dfsItems_sibling V hwf si hn hd rest vis _ ih'
            obtain ⟨ho, hm⟩ := hinv.i3 si (by simp) hn hd
            refine ⟨v2, ?_, hrest⟩
            simp only [ItemRel, hn, hd, false_or, if_false]
            rw [chain_cons V hwf ho hm]
            exact DfsList.cons (Dfs.visited hmem) hl
      | false =>
        have hnm : si.idx ∉ vis := by simpa using hv
        simp only [run, gstep_unvisited .dfs V si rest vis hv, allH, defaultH] at h
        obtain ⟨xs', hx', rfl⟩ := Outcome.map_eq_ok h
        have ih' := ih _ xs' hx' (invI_expand V hwf si true rest vis _ hinv)
        have hfin : (consIf true si.idx xs').reverse ++ vis = xs'.reverse ++ si.idx :: vis := by
          simp [consIf]
        simp only at ih' ⊢
        rw [hfin]
        by_cases hn : 0 < si.idx
        · have he : expand false .dfs V si true rest = optList (V.first si.idx) (si.dist + 1) ++ rest := by
            simp [expand, hn]
          rw [he] at ih'
          cases hf : V.first si.idx with
          | none =>
            simp only [hf, optList, List.nil_append] at ih'
            have hs : V.succ si.idx = [] := by
              unfold View.first at hf
              cases hs : V.succ si.idx with
              | nil => rfl
              | cons y ys => rw [hs] at hf; simp at hf
            refine ⟨si.idx :: vis, ?_, ih'⟩
            simp only [ItemRel, hn, true_or, if_true]
            exact Dfs.node hnm hn (by rw [hs]; exact DfsList.nil)
          | some f1 =>
            simp only [hf, optList, List.cons_append, List.nil_append, DfsItems] at ih'
            obtain ⟨v1, hrel, hrest⟩ := ih'
            have hneg : ¬ 0 < f1 := hwf.edge_neg _ _ (first_mem hf)
            have : ItemRel V ⟨f1, si.dist + 1⟩ (si.idx :: vis) v1 = DfsList V (si.idx :: vis) (chain V f1) v1 := by
              simp [ItemRel, hneg]
            rw [this, chain_first V hwf hn hf] at hrel
            refine ⟨v1, ?_, hrest⟩
            simp only [ItemRel, hn, true_or, if_true]
            exact Dfs.node hnm hn hrel
        · have htp : 0 < V.target si.idx := hinv.i4 si (by simp) hn
          by_cases hd : si.dist = 0
          · have he : expand false .dfs V si true rest = ⟨V.target si.idx, si.dist + 1⟩ :: rest := by
              simp [expand, hn, hd]
            rw [he] at ih'
            simp only [DfsItems] at ih'
            obtain ⟨v1, hrel, hrest⟩ := ih'
            have : ItemRel V ⟨V.target si.idx, si.dist + 1⟩ (si.idx :: vis) v1 =
                Dfs V (si.idx :: vis) (V.target si.idx) v1 := by simp [ItemRel, htp]
            rw [this] at hrel
            refine ⟨v1, ?_, hrest⟩
            simp only [ItemRel, hd, or_true, if_true]
            exact Dfs.edge hnm hn hrel
          · have he : expand false .dfs V si true rest =
                ⟨V.target si.idx, si.dist + 1⟩ :: (optList (V.next si.idx) si.dist ++ rest) := by
              simp [expand, hn, hd]
            rw [he] at ih'
            simp only [DfsItems] at ih'
            obtain ⟨v1, hrel, hrest⟩ := ih'
            have : ItemRel V ⟨V.target si.idx, si.dist + 1⟩ (si.idx :: vis) v1 =
                Dfs V (si.idx :: vis) (V.target si.idx) v1 := by simp [ItemRel, htp]
            rw [this] at hrel
            obtain ⟨v2, hl, hrest2⟩ := dfsItems_sibling V hwf si hn hd rest v1 _ hrest
            obtain ⟨ho, hm⟩ := hinv.i3 si (by simp) hn hd
            refine ⟨v2, ?_, hrest2⟩
            simp only [ItemRel, hn, hd, false_or, if_false]
            rw [chain_cons V hwf ho hm]
            exact DfsList.cons (Dfs.edge hnm hn hrel) hl

end AgdbSearch
