/-
From the decidable well-formedness check of the abstract graph to the hypotheses of the traversal theorems:
`Graph.wfB g → View.WF g.viewFwd ∧ View.WF g.viewRev`, and the element enumeration is a `Universe` for both.
-/
import AgdbSearch.Lemmas.Terminate
import AgdbSearch.Props.C18
namespace AgdbSearch

structure Graph.WFacts (g : Graph) : Prop where
  slot0 : g.slot 0 = .free
  node : ∀ i out inn, g.slot i = .node out inn →
    out.Nodup ∧ inn.Nodup ∧ (∀ e ∈ out, g.isEdgeSlot e = true ∧ g.srcOf e = i) ∧
    (∀ e ∈ inn, g.isEdgeSlot e = true ∧ g.dstOf e = i)
  edge : ∀ i s d, g.slot i = .edge s d → g.isNodeSlot s = true ∧ g.isNodeSlot d = true

theorem Graph.wfacts (g : Graph) (h : g.wfB = true) : g.WFacts := by
  unfold Graph.wfB at h
  simp only [Bool.and_eq_true, beq_iff_eq, List.all_eq_true, List.mem_range] at h
  obtain ⟨⟨⟨h0, hall⟩, _⟩, _⟩ := h
  refine ⟨h0, ?_, ?_⟩
  · intro i out inn hs
    have hi : i < g.slots.length := slot_lt g i (by rw [hs]; simp)
    have := hall i hi
    simp only [hs, Bool.and_eq_true, decide_eq_true_eq, List.all_eq_true, beq_iff_eq] at this
    exact ⟨this.1.1.1, this.1.1.2, this.1.2, this.2⟩
  · intro i s d hs
    have hi : i < g.slots.length := slot_lt g i (by rw [hs]; simp)
    have := hall i hi
    simp only [hs, Bool.and_eq_true] at this
    exact ⟨this.1.1.1, this.1.1.2⟩

theorem Graph.nodeSlot_pos (g : Graph) (w : g.WFacts) {i : Nat} (h : g.isNodeSlot i = true) : 0 < i := by
  rcases Nat.eq_zero_or_pos i with rfl | hp
  · unfold Graph.isNodeSlot at h; rw [w.slot0] at h; simp at h
  · exact hp

theorem outOf_eq (g : Graph) {i : Nat} {out inn : List Nat} (h : g.slot i = .node out inn) : g.outOf i = out := by
  simp [Graph.outOf, h]
theorem innOf_eq (g : Graph) {i : Nat} {out inn : List Nat} (h : g.slot i = .node out inn) : g.innOf i = inn := by
  simp [Graph.innOf, h]

theorem outOf_facts (g : Graph) (w : g.WFacts) (i : Nat) :
    (g.outOf i).Nodup ∧ ∀ e ∈ g.outOf i, g.isEdgeSlot e = true ∧ g.srcOf e = i := by
  cases hs : g.slot i with
  | free => simp [Graph.outOf, hs]
  | edge s d => simp [Graph.outOf, hs]
  | node out inn =>
    rw [outOf_eq g hs]
    obtain ⟨h1, _, h3, _⟩ := w.node i out inn hs
    exact ⟨h1, h3⟩

theorem innOf_facts (g : Graph) (w : g.WFacts) (i : Nat) :
    (g.innOf i).Nodup ∧ ∀ e ∈ g.innOf i, g.isEdgeSlot e = true ∧ g.dstOf e = i := by
  cases hs : g.slot i with
  | free => simp [Graph.innOf, hs]
  | edge s d => simp [Graph.innOf, hs]
  | node out inn =>
    rw [innOf_eq g hs]
    obtain ⟨_, h2, _, h4⟩ := w.node i out inn hs
    exact ⟨h2, h4⟩

theorem edge_ends (g : Graph) (w : g.WFacts) {e : Nat} (h : g.isEdgeSlot e = true) :
    g.isNodeSlot (g.srcOf e) = true ∧ g.isNodeSlot (g.dstOf e) = true := by
  unfold Graph.isEdgeSlot at h
  cases hs : g.slot e with
  | free => simp [hs] at h
  | node o i => simp [hs] at h
  | edge s d =>
    have := w.edge e s d hs
    simp [Graph.srcOf, Graph.dstOf, hs, this]

theorem neg_injective : Function.Injective (fun e : Nat => -(Int.ofNat e)) := by
  intro a b h; simp at h; omega

/-- `wfB` gives the forward view's well-formedness. -/
theorem wf_viewFwd (g : Graph) (h : g.wfB = true) : g.viewFwd.WF := by
  have w := g.wfacts h
  refine ⟨?_, ?_, ?_, ?_⟩
  · intro n e hn he
    simp only [Graph.viewFwd, List.mem_map] at he ⊢
    obtain ⟨e0, he0, rfl⟩ := he
    have := ((outOf_facts g w n.toNat).2 e0 he0).2
    simp [this]; omega
  · intro n
    simp only [Graph.viewFwd]
    exact List.Pairwise.map _ (fun a b hab h => hab (neg_injective h)) (outOf_facts g w n.toNat).1
  · intro n e he
    simp only [Graph.viewFwd, List.mem_map] at he
    obtain ⟨e0, _, rfl⟩ := he
    simp <;> omega
  · intro n e _ he
    simp only [Graph.viewFwd, List.mem_map] at he ⊢
    obtain ⟨e0, he0, rfl⟩ := he
    have hes := ((outOf_facts g w n.toNat).2 e0 he0).1
    have := g.nodeSlot_pos w (edge_ends g w hes).2
    simp; omega

/-- `wfB` gives the reverse view's well-formedness. -/
theorem wf_viewRev (g : Graph) (h : g.wfB = true) : g.viewRev.WF := by
  have w := g.wfacts h
  refine ⟨?_, ?_, ?_, ?_⟩
  · intro n e hn he
    simp only [Graph.viewRev, List.mem_map] at he ⊢
    obtain ⟨e0, he0, rfl⟩ := he
    have := ((innOf_facts g w n.toNat).2 e0 he0).2
    simp [this]; omega
  · intro n
    simp only [Graph.viewRev]
    exact List.Pairwise.map _ (fun a b hab h => hab (neg_injective h)) (innOf_facts g w n.toNat).1
  · intro n e he
    simp only [Graph.viewRev, List.mem_map] at he
    obtain ⟨e0, _, rfl⟩ := he
    simp <;> omega
  · intro n e _ he
    simp only [Graph.viewRev, List.mem_map] at he ⊢
    obtain ⟨e0, he0, rfl⟩ := he
    have hes := ((innOf_facts g w n.toNat).2 e0 he0).1
    have := g.nodeSlot_pos w (edge_ends g w hes).1
    simp; omega

theorem isElem_node (g : Graph) (w : g.WFacts) {i : Nat} (h : g.isNodeSlot i = true) : g.isElem (Int.ofNat i) = true := by
  have := g.nodeSlot_pos w h
  have hp : (0 : Int) < Int.ofNat i := by simp; omega
  simp [Graph.isElem, Graph.isNode, hp, h]
  exact Or.inl this

theorem isElem_edge (g : Graph) (w : g.WFacts) {i : Nat} (h : g.isEdgeSlot i = true) : g.isElem (-(Int.ofNat i)) = true := by
  have hi : i ≠ 0 := by
    rintro rfl
    unfold Graph.isEdgeSlot at h; rw [w.slot0] at h; simp at h
  have hp : -(Int.ofNat i) < 0 := by simp; omega
  simp [Graph.isElem, Graph.isEdge, hp, h]
  right; omega

theorem isElem_neg_edge (g : Graph) {e : Int} (he : g.isElem e = true) (hn : ¬ 0 < e) :
    g.isEdgeSlot (-e).toNat = true := by
  simp only [Graph.isElem, Graph.isNode, Graph.isEdge, Bool.or_eq_true, Bool.and_eq_true, decide_eq_true_eq] at he
  rcases he with ⟨h, _⟩ | ⟨_, h⟩
  · exact absurd h hn
  · exact h

/-- The element enumeration is closed under the forward traversal steps. -/
theorem universe_fwd (g : Graph) (h : g.wfB = true) : Universe g.viewFwd g.elements := by
  have w := g.wfacts h
  refine ⟨?_, ?_, ?_⟩
  · intro n _ _ e he
    simp only [Graph.viewFwd, List.mem_map] at he
    obtain ⟨e0, he0, rfl⟩ := he
    exact (C18_iter_mem g _).mpr (isElem_edge g w ((outOf_facts g w n.toNat).2 e0 he0).1)
  · intro e he hn
    have hes := isElem_neg_edge g ((C18_iter_mem g e).mp he) hn
    exact (C18_iter_mem g _).mpr (isElem_node g w (edge_ends g w hes).2)
  · intro e he hn e' hnx
    have hmem := g.viewFwd.next_mem hnx
    simp only [Graph.viewFwd, List.mem_map] at hmem
    obtain ⟨e0, he0, rfl⟩ := hmem
    exact (C18_iter_mem g _).mpr (isElem_edge g w ((outOf_facts g w _).2 e0 he0).1)

theorem universe_rev (g : Graph) (h : g.wfB = true) : Universe g.viewRev g.elements := by
  have w := g.wfacts h
  refine ⟨?_, ?_, ?_⟩
  · intro n _ _ e he
    simp only [Graph.viewRev, List.mem_map] at he
    obtain ⟨e0, he0, rfl⟩ := he
    exact (C18_iter_mem g _).mpr (isElem_edge g w ((innOf_facts g w n.toNat).2 e0 he0).1)
  · intro e he hn
    have hes := isElem_neg_edge g ((C18_iter_mem g e).mp he) hn
    exact (C18_iter_mem g _).mpr (isElem_node g w (edge_ends g w hes).1)
  · intro e he hn e' hnx
    have hmem := g.viewRev.next_mem hnx
    simp only [Graph.viewRev, List.mem_map] at hmem
    obtain ⟨e0, he0, rfl⟩ := hmem
    exact (C18_iter_mem g _).mpr (isElem_edge g w ((innOf_facts g w _).2 e0 he0).1)

end AgdbSearch
